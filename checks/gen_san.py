"""Case generator for property C14 (SAN writer `Bitboard::uci_to_pgn`, SAN reader `Bitboard::pgn_to_bb`).

The cases are lines of family `ucistr` (harness/src/fam_board.rs, coq/Driver/RunBoard.v `run_ucistr`):
    <fen> TAB pgn TAB <uci>      writer: observation `ok:<san> | <snapshot>`
    <fen> TAB san TAB <text>     reader: observation `ok:<uci> | <snapshot>` or `err | <snapshot>`
The oracle is the spec family pair of coq/Driver/RunSan.v (`spec-san`: `<fen> TAB <uci>`, `spec-sanparse`:
`<fen> TAB <text>`); `spec_case(line)` converts a ucistr case line into (spec family, spec case line).

    constructed(rng, tier) -> [(fen, [focus uci, ...])]   legal positions built to stress one SAN rule; the focus
                                                         moves are the candidate moves of the construction (some
                                                         of them deliberately illegal: pinned rivals)
    gen(rng, tier, positions) -> [case line]             positions: dict fen -> list of legal uci moves (from the
                                                         caller, e.g. family movegen); the constructed positions
                                                         are added by gen itself (pass their legal moves in
                                                         `positions` too if all their moves are wanted)
    nontrivial(line) -> bool

Squares are numbered as everywhere else: 0 = a8 ... 7 = h8, 56 = a1 ... 63 = h1.
"""
import random

from common import esc, unesc

FILES = "abcdefgh"
KNIGHT = [(1, -2), (2, -1), (2, 1), (1, 2), (-1, 2), (-2, 1), (-2, -1), (-1, -2)]
ORTH = [(0, -1), (1, 0), (0, 1), (-1, 0)]
DIAG = [(1, -1), (1, 1), (-1, 1), (-1, -1)]


# ------------------------------------------------------------------ a tiny mailbox board (construction + validation)
def sq(f, r):
    return f + 8 * r


def name(s):
    return FILES[s % 8] + str(8 - s // 8)


def on(f, r):
    return 0 <= f < 8 and 0 <= r < 8


def parse_fen(fen):
    parts = fen.split(" ")
    cells = {}
    for r, row in enumerate(parts[0].split("/")):
        f = 0
        for ch in row:
            if ch.isdigit():
                f += int(ch)
            else:
                cells[sq(f, r)] = ch
                f += 1
    return cells, parts[1], parts[2], parts[3]


def to_fen(cells, side, rights="-", ep="-", half=0, full=1):
    rows = []
    for r in range(8):
        row, empty = "", 0
        for f in range(8):
            c = cells.get(sq(f, r))
            if c is None:
                empty += 1
            else:
                if empty:
                    row += str(empty)
                    empty = 0
                row += c
        if empty:
            row += str(empty)
        rows.append(row)
    return "%s %s %s %s %d %d" % ("/".join(rows), side, rights, ep, half, full)


def ray(cells, s, d):
    """squares seen from s in direction d: empty squares, then the first occupied one"""
    f, r = s % 8 + d[0], s // 8 + d[1]
    while on(f, r):
        yield sq(f, r)
        if sq(f, r) in cells:
            return
        f, r = f + d[0], r + d[1]


def attacks(cells, s):
    """squares attacked by the piece on s"""
    c = cells[s]
    k = c.lower()
    f, r = s % 8, s // 8
    if k == "p":
        dr = -1 if c == "P" else 1
        return [sq(f + df, r + dr) for df in (-1, 1) if on(f + df, r + dr)]
    if k == "n":
        return [sq(f + a, r + b) for a, b in KNIGHT if on(f + a, r + b)]
    if k == "k":
        return [sq(f + a, r + b) for a, b in ORTH + DIAG if on(f + a, r + b)]
    dirs = {"b": DIAG, "r": ORTH, "q": ORTH + DIAG}[k]
    return [t for d in dirs for t in ray(cells, s, d)]


def attacked(cells, t, by_white):
    return any((c.isupper() == by_white) and t in attacks(cells, s) for s, c in cells.items())


def king_of(cells, white):
    ks = [s for s, c in cells.items() if c == ("K" if white else "k")]
    return ks[0] if len(ks) == 1 else None


def legal_position(cells, side, rights="-", ep="-"):
    """the Spec's legal_pos: one king each, side not to move not in check, no pawns on rank 1/8,
    castling rights backed by king and rook, e.p. square consistent"""
    wk, bk = king_of(cells, True), king_of(cells, False)
    if wk is None or bk is None:
        return False
    if any(c in "Pp" and (s < 8 or s >= 56) for s, c in cells.items()):
        return False
    if side == "w" and attacked(cells, bk, True):
        return False
    if side == "b" and attacked(cells, wk, False):
        return False
    need = {"K": (60, "K", 63, "R"), "Q": (60, "K", 56, "R"), "k": (4, "k", 7, "r"), "q": (4, "k", 0, "r")}
    if rights != "-":
        for x in rights:
            a, ca, b, cb = need[x]
            if cells.get(a) != ca or cells.get(b) != cb:
                return False
    if ep != "-":
        e = sq(FILES.index(ep[0]), 8 - int(ep[1]))
        if side == "w":            # black just pushed: e on rank 6, black pawn below it (row+1), origin above empty
            if e // 8 != 2 or cells.get(e + 8) != "p" or e in cells or (e - 8) in cells:
                return False
        else:
            if e // 8 != 5 or cells.get(e - 8) != "P" or e in cells or (e + 8) in cells:
                return False
    return True


def flip(fen):
    """colour-reversed position: mirror the ranks, swap the case, swap the side to move"""
    cells, side, rights, ep = parse_fen(fen)
    clocks = fen.split(" ")[4:6]
    half, full = (int(clocks[0]), int(clocks[1])) if len(clocks) == 2 else (0, 1)
    out = {}
    for s, c in cells.items():
        out[sq(s % 8, 7 - s // 8)] = c.swapcase()
    r2 = "".join(x for x in "KQkq" if x.swapcase() in rights) or "-"
    e2 = "-" if ep == "-" else ep[0] + str(9 - int(ep[1]))
    return to_fen(out, "b" if side == "w" else "w", r2, e2, half, full)


def flip_uci(u):
    return u[0] + str(9 - int(u[1])) + u[2] + str(9 - int(u[3])) + u[4:]


# ------------------------------------------------------------------ (b) constructed positions
def origins(kind, t):
    """squares from which a piece of that kind attacks t on an otherwise empty board"""
    return [s for s in range(64) if s != t and t in attacks({s: kind.upper()}, s)]


def pick_like(rng, kind, t, shape, n):
    """n origin squares for like pieces of `kind` all attacking t; shape in file|rank|unrelated|corner|any"""
    cand = origins(kind, t)
    for _ in range(200):
        ss = rng.sample(cand, min(n, len(cand)))
        a, b = ss[0], ss[1]
        same_f, same_r = a % 8 == b % 8, a // 8 == b // 8
        if shape == "file" and not same_f: continue
        if shape == "rank" and not same_r: continue
        if shape == "unrelated" and (same_f or same_r): continue
        if shape == "corner":      # the mover ss[0] shares its file with one rival and its rank with another
            if len(ss) < 3 or not (same_f and ss[2] // 8 == a // 8): continue
        return ss
    return None


def clear_between(cells, a, b):
    """is the straight/diagonal segment strictly between a and b empty (False if not aligned)"""
    df, dr = b % 8 - a % 8, b // 8 - a // 8
    if not (df == 0 or dr == 0 or abs(df) == abs(dr)):
        return False
    n = max(abs(df), abs(dr))
    sf, sr = (df > 0) - (df < 0), (dr > 0) - (dr < 0)
    return all(sq(a % 8 + i * sf, a // 8 + i * sr) not in cells for i in range(1, n))


def disamb_position(rng, kind, shape, n, capture, pin):
    """White to move, n like pieces attack one square; optionally one rival is pinned to its king (so that its
    move is illegal and must not influence the text).  Returns (fen, focus ucis) or None."""
    for _ in range(400):
        t = rng.randrange(64)
        ss = pick_like(rng, kind, t, shape, n)
        if ss is None:
            continue
        cells = {}
        if capture:
            cells[t] = rng.choice("pnbrq") if 8 <= t < 56 else rng.choice("nbrq")
        for s in ss:
            cells[s] = kind.upper()
        # every piece must really see t (sliders: nothing in between)
        if kind != "n" and not all(clear_between(cells, s, t) for s in ss):
            continue
        free = [x for x in range(64) if x not in cells and x != t]
        if pin:
            v = rng.choice(ss[1:])                 # the pinned rival (never the first = the mover of interest)
            d = rng.choice(ORTH + DIAG)
            line_k = list(ray({}, v, d))
            line_e = list(ray({}, v, (-d[0], -d[1])))
            if not line_k or not line_e:
                continue
            ksq, esq = rng.choice(line_k), rng.choice(line_e)
            if ksq in cells or esq in cells or ksq == t or esq == t:
                continue
            # moving v to t must leave the pin line
            if clear_between({}, ksq, t) and clear_between({}, t, esq) and \
               (t % 8 - ksq % 8) * d[1] == (t // 8 - ksq // 8) * d[0]:
                continue
            cells[ksq] = "K"
            cells[esq] = rng.choice("rq") if d in ORTH else rng.choice("bq")
            if not (clear_between(cells, ksq, v) and clear_between(cells, v, esq)):
                continue
            if kind != "n" and not all(clear_between(cells, s, t) for s in ss):
                continue
        else:
            ksq = rng.choice(free)
            cells[ksq] = "K"
        free = [x for x in range(64) if x not in cells and x != t]
        bk = rng.choice(free)
        cells[bk] = "k"
        if not legal_position(cells, "w"):
            continue
        if attacked(cells, king_of(cells, True), False):      # keep the side to move out of check
            continue
        if kind != "n" and not all(clear_between(cells, s, t) for s in ss):
            continue
        return to_fen(cells, "w", half=rng.choice([0, 3, 40])), [name(s) + name(t) for s in ss]
    return None


HAND = [
    # (fen, focus moves, what it stresses)
    ("rnbqkb1r/pppppppp/5n2/8/8/5N2/PPP1PPPP/RNBQKB1R w KQkq - 0 1", ["b1d2", "f3d2"], "historic: Nbd2/Nfd2, unrelated file and rank"),
    ("7k/5K2/8/6Q1/8/8/8/8 w - - 0 1", ["g5g6", "g5g7", "g5h5"], "historic: Qg6 stalemates (no #), Qg7# mates, Qh5+ checks"),
    ("6k1/5ppp/8/8/8/8/8/R3K3 w Q - 0 1", ["a1a8", "e1c1"], "back-rank mate Ra8#, plain O-O-O"),
    ("6rk/6pp/8/6N1/8/8/8/7K w - - 0 1", ["g5f7"], "smothered mate Nf7#"),
    ("4k3/8/8/8/4N3/8/8/4RK2 w - - 0 1", ["e4d6", "e4f6", "e4c5"], "double check Nd6+ Nf6+, discovered check Nc5+"),
    ("5k2/8/8/8/8/8/8/4K2R w K - 0 1", ["e1g1", "h1f1"], "castling with check O-O+"),
    ("3k4/8/8/8/8/8/8/R3K3 w Q - 0 1", ["e1c1", "a1d1"], "castling with check O-O-O+"),
    ("rn3r2/pbppq1p1/1p2pN2/8/3P2NP/6P1/PPP1BP1R/R3K1k1 w Q - 5 18", ["e1c1", "e1d2"], "Ed. Lasker - Thomas: O-O-O# and Kd2#"),
    ("4n1n1/3P1P1P/8/8/8/8/8/K6k w - - 0 1", ["d7e8q", "f7e8n", "f7g8r", "h7g8b", "f7f8q", "d7d8n", "h7h8q"], "three promoting pawns, two capture on e8/g8, pushes"),
    ("8/8/8/3PpP2/8/8/8/K6k w - e6 0 2", ["d5e6", "f5e6", "d5d6"], "en passant with two capturers"),
    ("8/8/8/K2PpP1r/8/8/8/7k w - e6 0 2", ["d5e6", "f5e6"], "en passant, both capturers legal: the other pawn still shields the king on the rank"),
    ("8/8/8/K3pP1r/8/8/8/7k w - e6 0 2", ["f5e6"], "en passant that would expose the king along the rank: illegal"),
    ("8/8/4p3/3P1P2/8/8/8/K6k w - - 0 1", ["d5e6", "f5e6"], "two pawns capture on one square"),
    ("8/k7/8/8/8/2Q2Q2/8/K4Q2 w - - 0 1", ["c3f6", "f3f6", "f1f2", "f3f2", "c3c6"], "three queens"),
    ("6k1/8/8/8/Q6Q/8/8/K6Q w - - 0 1", ["h4e1", "a4e1", "h1e1", "h4e4", "a4e4", "h1e4"], "three queens, corner: Qh4e1 needs file and rank"),
    ("7k/8/8/R7/8/8/8/R3K3 w Q - 0 1", ["a1a3", "a5a3", "e1c1"], "rooks on one file: R1a3 R5a3"),
    ("6k1/8/8/8/8/8/8/R3K2R w KQ - 0 1", ["a1d1", "h1f1", "e1g1", "e1c1"], "rooks on one rank cannot reach a common square past the king; castling both sides"),
    ("6k1/8/8/8/8/8/3K4/R6R w - - 0 1", ["a1d1", "h1d1", "a1e1", "h1e1"], "rooks on one rank: Rad1 Rhd1"),
    ("7k/8/8/1B3B2/8/8/8/K7 w - - 0 1", ["b5d7", "f5d7", "b5d3", "f5d3"], "bishops of one colour on one rank: Bbd7 Bfd7"),
    ("k7/8/8/8/3q4/1N3N2/8/K7 w - - 0 1", ["b3d4", "f3d4"], "Nbxd4 / Nfxd4"),
    ("4k3/8/8/8/8/8/r7/R3K2R w KQ - 0 1", ["e1g1", "e1c1"], "castling rights while a2 rook attacks a1 only"),
    ("r3k2r/8/8/8/8/8/8/4K3 b kq - 0 1", ["e8g8", "e8c8", "a8d8", "h8f8"], "black castling"),
    ("8/8/8/8/8/5k2/4p1p1/K4N2 b - - 0 1", ["e2f1q", "g2f1n", "e2e1r", "g2g1b"], "black promotions with captures on one square"),
    ("k7/8/8/8/8/8/5q2/7K b - - 0 1", [], "white is stalemated already"),
    ("7K/5k2/8/6q1/8/8/8/8 b - - 0 1", ["g5g6", "g5g7", "g5h5"], "black: Qg6 stalemates"),
]


def constructed(rng, tier):
    n_each = 1 if tier == "quick" else 10
    out = []
    for fen, focus, _note in HAND:
        out.append((fen, list(focus)))
        out.append((flip(fen), [flip_uci(u) for u in focus]))
    for kind in "nrqb":
        for shape in ("file", "rank", "unrelated", "corner", "any"):
            for n in (2, 3, 4):
                if shape == "corner" and n < 3:
                    continue
                for capture in (False, True):
                    for pin in (False, True):
                        for _ in range(n_each):
                            r = disamb_position(rng, kind, shape, n, capture, pin)
                            if r is None:
                                continue
                            fen, focus = r
                            if rng.random() < 0.5:
                                fen, focus = flip(fen), [flip_uci(u) for u in focus]
                            out.append((fen, focus))
    seen, uniq = set(), []
    for fen, focus in out:
        cells, side, rights, ep = parse_fen(fen)
        assert legal_position(cells, side, rights, ep), fen
        if fen not in seen:
            seen.add(fen)
            uniq.append((fen, focus))
    return uniq


# ------------------------------------------------------------------ (c) reader texts from (fen, uci) alone
SUFFIXES = ["", "+", "#", "!", "?", "!?", "+!", "#??", "+?!", "!!"]
GARBAGE = ["", " ", "e", "e9", "i4", "Ne", "N", "x", "O", "O-", "O-O-", "O-O-O-O", "o-o", "0-0", "0-0-0", "Pe4", "e2-e4", "Ng1-f3",
           "e4 ", " e4", "e4e.p.", "exd6e.p.", "exd6 e.p.", "e8Q", "e8=K", "e8=q", "e8(Q)", "e8/Q", "Kxe9", "Nf3++", "Nf3+#", "Nf3!+",
           "Nf3=Q", "O-O=Q", "Qh4xe1", "R1", "Rxa", "--", "Z0", "é4", "♞f3", "nf3", "bxc3", "Bxc3", "bc3", "B3", "a1a1", "Kk1"]


def text_variants(fen, uci):
    """every relaxed spelling of the move (Spec/SanSpec.v `bodies`), computed from the FEN and the UCI text only,
    plus a few near misses"""
    cells, side, rights, ep = parse_fen(fen)
    a = sq(FILES.index(uci[0]), 8 - int(uci[1]))
    b = sq(FILES.index(uci[2]), 8 - int(uci[3]))
    pc = cells.get(a)
    if pc is None:
        return [], []
    k = pc.upper()
    promo = "=" + uci[4].upper() if len(uci) > 4 else ""
    if k == "K" and abs(a % 8 - b % 8) == 2:
        std = "O-O" if b % 8 > a % 8 else "O-O-O"
        near = [std.replace("O", "0"), std.lower(), "K" + name(b), "K" + name(a) + name(b), std + "-O", "O-O" if std == "O-O-O" else "O-O-O"]
        return [std], near
    capture = b in cells or (k == "P" and a % 8 != b % 8)
    letter = "" if k == "P" else k
    good, near = [], []
    for hint in ("", name(a)[0], name(a)[1], name(a)):
        for x in (["x", ""] if capture else [""]):
            good.append(letter + hint + x + name(b) + promo)
        if not capture:
            near.append(letter + hint + "x" + name(b) + promo)        # capture mark on a non-capture
    other_file = FILES[(a % 8 + 1) % 8]
    other_rank = str((8 - a // 8) % 8 + 1)
    near += [letter + other_file + name(b) + promo, letter + other_rank + name(b) + promo,            # untrue hints
             letter + name(a)[0] + other_rank + name(b) + promo,
             (letter.lower() or "P") + name(b) + promo,                                               # lower-case / P
             letter + name(a) + "-" + name(b) + promo]
    if promo:
        near += [letter + name(b), letter + name(b) + promo[1:], letter + name(b) + "=K", letter + name(b) + promo.lower()]
    else:
        near += [letter + name(b) + "=Q"]
    if k == "P" and capture:
        near += [name(a)[0] + "x" + name(b) + promo + "e.p.", name(a)[0] + "x" + name(b) + promo + " e.p."]
    return good, near


def reader_cases(rng, fen, uci, budget):
    good, near = text_variants(fen, uci)
    texts = []
    for g in good:
        texts.append(g + rng.choice(SUFFIXES))
    texts += [g for g in good[:2]]
    texts += near
    rng.shuffle(texts)
    return [fen + "\tsan\t" + esc(t) for t in texts[:budget]]


# ------------------------------------------------------------------ gen
def gen(rng, tier, positions):
    quick = tier == "quick"
    per_pos = 6 if quick else 40                   # writer moves sampled per supplied position
    cases = []
    cons = constructed(rng, tier)
    focus = {}
    for fen, f in cons:
        focus.setdefault(fen, [])
        focus[fen] += f
    fens = list(focus) + [f for f in positions if f not in focus]
    for fen in fens:
        legal = list(positions.get(fen, []))
        want = list(focus.get(fen, []))
        pick = legal if len(legal) <= per_pos else rng.sample(legal, per_pos)
        moves = want + [m for m in pick if m not in want]
        for u in moves:
            cases.append(fen + "\tpgn\t" + u)
        # reader: variants of some of the moves, and garbage
        sub = want[:4] + (pick if len(pick) <= 2 else rng.sample(pick, 2))
        for u in sub:
            cases += reader_cases(rng, fen, u, 6 if quick else 24)
        for t in rng.sample(GARBAGE, 1 if quick else 6):
            cases.append(fen + "\tsan\t" + esc(t))
    seen, out = set(), []
    for c in cases:
        if c not in seen:
            seen.add(c)
            out.append(c)
    return out


def spec_case(line):
    """ucistr case line -> (spec family, spec case line)"""
    fen, api, text = line.split("\t")
    return ("spec-san", fen + "\t" + text) if api == "pgn" else ("spec-sanparse", fen + "\t" + text)


def compare(line, impl_obs, spec_obs):
    """Verdict for one ucistr case: None = implementation agrees with the spec (or the case is outside the spec's
    domain), 'A' / 'B' / 'C' = a known leniency of the reader (text that is not SAN is accepted), else a message.
      A  `=X` after a piece move is ignored            (Nf3=Q read as Nf3)
      B  the rank hint of a pawn move is ignored       (e3e4 / 3e4 read as e2-e4)
      C  castling is accepted spelled as a king move   (Kg1 / Ke1g1 read as O-O)"""
    import re
    fen, api, text = line.split("\t")
    res = impl_obs.split(" | ")[0]
    if spec_obs in ("BADFEN", "NOTLEGAL", "BADCASE"):
        return None
    if api == "pgn":
        if spec_obs == "ILLEGAL":
            return None if not res.startswith("ok:") else "SAN text produced for an illegal move"
        return None if res == "ok:" + spec_obs else "SAN text differs from the standard"
    if res.startswith("ok:") or spec_obs.startswith("ok:"):
        if res == spec_obs:
            return None
        if res.startswith("ok:") and spec_obs == "err":
            body = re.split(r"[+#!?]", unesc(text))[0]
            if re.match(r"^[KQRBN][a-h]?[1-8]?x?[a-h][1-8]=[QRBN]$", body):
                return "A"
            if re.match(r"^K[a-h]?[1-8]?[cg][18]$", body) and res[3:] in ("e1g1", "e1c1", "e8g8", "e8c8"):
                return "C"
            if re.match(r"^[a-h]?[1-8]x?[a-h][1-8](=[QRBN])?$", body):
                return "B"
        return "SAN reader and spec disagree"
    return None if (res == "err" and spec_obs in ("err", "ambiguous")) else "SAN reader and spec disagree"


def nontrivial(line):
    """writer: a well-formed UCI move text; reader: a text that at least starts like SAN (piece letter, file or O)"""
    f = line.split("\t")
    if len(f) != 3:
        return False
    t = unesc(f[2])
    if f[1] == "pgn":
        return len(t) in (4, 5) and t[0] in FILES and t[2] in FILES and t[1] in "12345678" and t[3] in "12345678"
    if f[1] == "san":
        return len(t) >= 2 and (t[0] in "KQRBNO" or t[0] in FILES)
    return False


if __name__ == "__main__":
    import collections
    for tier in ("quick", "thorough"):
        rng = random.Random(1)
        cs = gen(rng, tier, {})
        by = collections.Counter(c.split("\t")[1] for c in cs)
        print(tier, len(cs), dict(by), "nontrivial", sum(1 for c in cs if nontrivial(c)))

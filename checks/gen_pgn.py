"""Case generator for family `pgn` (pgn/src/reader.rs `PgnRawParser`, property C17).

Case line:   <chunk size>  TAB  <fragmentation: space separated read sizes, may be empty>  TAB  <file content, escaped>
Observation: items separated by ` || `: `T k=v;... M san{comment}|san|...` or `ERR:closed|consume|symbol`
             (see coq/Driver/RunPgn.v, harness/src/fam_pgn.rs)

Two streams:
* layout: files in the Lichess export layout (Spec/PgnSpec.v `render`): 1-6 games, 0-80 plies of plausible SAN
  tokens (legality is irrelevant for the reader), every combination of {black move numbers or not, clock comments
  or not, result token, trailing newline or not}, chunk sizes {1,2,3,5,7,64,8192} (thorough: every size 1..300 on
  a subset), fragmentations: fill the buffer / all 1-byte reads / random sizes;
* malformed: truncated files, missing blank line, tag without quote, `;` comments, wrapped movetext, stray
  result tokens ... -- here only model == implementation is compared.

`gen(rng, tier)` -> list of case lines; `nontrivial(line)` -> bool.
"""
import itertools
import random

from common import esc, unesc

SAN_POOL = [
    "e4", "e5", "d4", "d5", "c4", "c5", "Nf3", "Nc6", "Bc4", "Bc5", "Bb5", "a6", "Ba4", "Nf6", "O-O", "O-O-O",
    "Be7", "Re1", "b5", "Bb3", "d6", "c3", "h3", "Nb8", "Nbd7", "exd5", "cxd4", "Nxd4", "Qxd8+", "Kxd8", "e8=Q+",
    "Nbxd2#", "R1a3", "Qh4e1", "gxh8=N", "axb1=R+", "Kg1", "Kh8", "Rfe1", "Rad8", "Ng5", "Qd2", "Qe7", "f4", "f5",
    "g3", "Bg7", "Bg2", "O-O+", "O-O-O#", "b8=B", "dxe6", "Nd5", "Rxf7", "Qg6#", "h6", "Bh4", "g5", "Bg3", "Ne4",
]
RESULTS = ["1-0", "0-1", "1/2-1/2", "*"]
CHUNKS = [1, 2, 3, 5, 7, 64, 8192]
TAG_NAMES = ["Event", "Site", "Date", "Round", "White", "Black", "Result", "UTCDate", "UTCTime", "WhiteElo",
             "BlackElo", "WhiteRatingDiff", "BlackRatingDiff", "ECO", "Opening", "TimeControl", "Termination"]
VALUE_WORDS = ["Rated", "Blitz", "game", "https://lichess.org/AbCd1234", "2023.07.01", "-", "?", "1500", "+12",
               "-7", "C50", "Italian Game: Giuoco Pianissimo", "180+2", "Normal", "Time forfeit", "user_name",
               "1-0", "0-1", "1/2-1/2", "*", "[x]", "a.b", "{c}", ";", "tournament https://lichess.org/t/1"]


def clock(rng):
    return " [%%clk 0:%02d:%02d] " % (rng.randint(0, 10), rng.randint(0, 59))


def tags_for(rng, result):
    n = rng.choice([1, 2, 3, 7, 7, 12, len(TAG_NAMES)])
    names = TAG_NAMES[:n] if rng.random() < 0.7 else rng.sample(TAG_NAMES, n)
    out = []
    for name in names:
        if name == "Result":
            value = result
        else:
            value = " ".join(rng.choice(VALUE_WORDS) for _ in range(rng.choice([0, 1, 1, 2, 3])))
        out.append((name, value))
    if rng.random() < 0.08:                       # a duplicated tag name: the later value wins
        out.append((rng.choice(out)[0], "again"))
    return out


def render_game(tags, moves, black_numbers, result):
    """Spec/PgnSpec.v render_game; moves = [(san, comment or None)], comment = the text between the braces."""
    s = "".join('[%s "%s"]\n' % kv for kv in tags) + "\n"
    for ply, (san, comment) in enumerate(moves):
        if ply % 2 == 0:
            s += "%d. " % (ply // 2 + 1)
        elif black_numbers:
            s += "%d... " % (ply // 2 + 1)
        s += san
        if comment is not None:
            s += " {" + comment + "}"
        s += " "
    return s + result


def layout_file(rng, ngames, black_numbers, comments, result, trailing, plies=None):
    games = []
    for g in range(ngames):
        res = result if g == ngames - 1 else rng.choice(RESULTS)
        n = plies if plies is not None else rng.choice([0, 1, 2, 3, 8, 9, 20, 41, 80, rng.randint(0, 80)])
        moves = []
        for _ in range(n):
            moves.append((rng.choice(SAN_POOL), clock(rng) if comments else None))
        bn = black_numbers if g == ngames - 1 else rng.random() < 0.5
        games.append(render_game(tags_for(rng, res), moves, bn, res))
    return "\n\n".join(games) + "\n" * trailing


def fragmentation(rng, chunk, length):
    r = rng.random()
    if r < 0.3:
        return []                                  # always fill the buffer
    if r < 0.5:
        return [1] * (length + 2)                  # one byte per read
    if r < 0.6:
        return [rng.choice([0, 1, 2])] * rng.randint(0, length + 2)
    hi = max(2, min(chunk + 3, 40))
    return [rng.randint(0, hi) for _ in range(rng.randint(1, min(length + 2, 400)))]


def case(chunk, frag, content):
    return "%d\t%s\t%s" % (chunk, " ".join(str(f) for f in frag), esc(content))


def mutate(rng, text, kind=None):
    """Files that are NOT in the layout."""
    if kind is None:
        kind = rng.randrange(14)
    if kind == 0 and text:                         # truncated anywhere
        return text[:rng.randrange(len(text))]
    if kind == 1:                                  # missing blank line between tags and movetext
        return text.replace("]\n\n", "]\n", 1)
    if kind == 2:                                  # tag without quotes
        return text.replace(' "', " ", 1).replace('"]', "]", 1)
    if kind == 3:                                  # missing closing bracket
        return text.replace('"]', '"', 1)
    if kind == 4:                                  # movetext wrapped over several lines
        out, col = [], 0
        for ch in text:
            if ch == " " and col > 30 and rng.random() < 0.2:
                out.append("\n"); col = 0
            else:
                out.append(ch); col = 0 if ch == "\n" else col + 1
        return "".join(out)
    if kind == 5:                                  # `;` rest-of-line comments
        return text.replace(" 2. ", " ; to the end of the line\n2. ", 1)
    if kind == 6:                                  # doubled spaces / leading spaces
        return text.replace(" ", "  ", rng.randint(1, 5))
    if kind == 7:                                  # a result token in the middle of the movetext
        return text.replace(" 2. ", " " + rng.choice(RESULTS) + " 2. ", 1)
    if kind == 8:                                  # tokens that only look like results
        return text.replace(" 2. ", " " + rng.choice(["*x", "1-0x", "0-10", "1/2", "-", "/", "a-b", "O/O"]) + " 2. ", 1)
    if kind == 9:                                  # no blank line between games
        return text.replace("\n\n[", "\n[")
    if kind == 10:                                 # unclosed comment
        return text.replace("}", "", 1)
    if kind == 11:                                 # CRLF line ends
        return text.replace("\n", "\r\n")
    if kind == 12:                                 # move numbers glued to the move
        return text.replace(". ", ".", rng.randint(1, 3))
    pos = rng.randrange(len(text) + 1)             # a random ASCII byte somewhere
    return text[:pos] + rng.choice('[]"{}; \n.*-/x1') + text[pos:]


def gen(rng, tier):
    thorough = tier == "thorough"
    cases = []
    combos = list(itertools.product([False, True], [False, True], RESULTS, [0, 1]))
    # --- layout stream: every flag combination, several times, with every standard chunk size
    rounds = 36 if thorough else 2
    for _ in range(rounds):
        for bn, cm, res, nl in combos:
            for chunk in CHUNKS:
                ngames = rng.randint(1, 6)
                trailing = nl if rng.random() < 0.8 else 2 * nl
                if chunk > 1000:                   # the model indexes its buffer in unary: keep the window small
                    text = layout_file(rng, rng.randint(1, 2), bn, cm, res, trailing, plies=rng.randint(0, 20))
                else:
                    text = layout_file(rng, ngames, bn, cm, res, trailing)
                cases.append(case(chunk, fragmentation(rng, chunk, len(text)), text))
    # --- same file under many chunk sizes / fragmentations (the answer must not change)
    for _ in range(60 if thorough else 6):
        bn, cm, res, nl = rng.choice(combos)
        text = layout_file(rng, rng.randint(2, 3), bn, cm, res, nl, plies=rng.randint(2, 14))
        sizes = range(1, 301) if thorough else rng.sample(range(1, 301), 12)
        for chunk in sizes:
            cases.append(case(chunk, fragmentation(rng, chunk, len(text)), text))
    # --- malformed stream: every kind of fault a few times for sure, then random combinations
    for kind in range(14):
        for _ in range(40 if thorough else 4):
            bn, cm, res, nl = rng.choice(combos)
            text = mutate(rng, layout_file(rng, rng.randint(1, 3), bn, cm, res, nl, plies=rng.choice([1, 2, 5, 9])), kind)
            chunk = rng.choice(CHUNKS + [4, 11, 33])
            cases.append(case(chunk, fragmentation(rng, chunk, len(text)), text))
    for _ in range(12000 if thorough else 120):
        bn, cm, res, nl = rng.choice(combos)
        text = layout_file(rng, rng.randint(1, 3), bn, cm, res, nl, plies=rng.choice([0, 1, 2, 5, 9]))
        for _ in range(rng.choice([1, 1, 2])):
            text = mutate(rng, text)
        chunk = rng.choice(CHUNKS + [4, 11, 33])
        cases.append(case(chunk, fragmentation(rng, chunk, len(text)), text))
    return cases


def nontrivial(line):
    """A layout-like file with at least one game that has tags, a move and a result token."""
    f = line.split("\t")
    if len(f) < 3:
        return False
    text = unesc(f[2])
    if not text.startswith("[") or '"]\n\n1. ' not in text:
        return False
    return any(text.rstrip("\n").endswith(" " + r) for r in RESULTS)


if __name__ == "__main__":
    for tier in ("quick", "thorough"):
        cs = gen(random.Random(1), tier)
        print(tier, len(cs), "nontrivial", sum(1 for c in cs if nontrivial(c)),
              "max line", max(len(c) for c in cs))

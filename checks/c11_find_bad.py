#!/usr/bin/env python3
"""C11 failing-input search: turn a failed `pst_mirror_ok tables = true` / `eval_tables_ok tables = true` obligation
(Properties/C11.v, C11_gen_pst_mirror_ok) into a concrete replay.
Reads the table dump of the current /repo tree (`ink_harness dump`, e.g. /verif/_build/tables.dump):
    pst white|black <stage 0..2> <piece-1 0..5> <64 values>        (36 lines)
    consts <win_score> <draw_score> <max_full_moves> <max_half_moves> <contempt>
and checks, independently of the Coq development, for all 3 x 6 x 64 entries
    black[stage][piece][mirror sq] == - white[stage][piece][sq]        mirror sq = sq ^ 56
(squares: shift 0 = a8 .. 7 = h8, 56 = a1 .. 63 = h1), that every table has 64 entries, and draw_score == 0.
Prints the FIRST failing input as one JSON object, or `null` when everything agrees:
    {"family": "pst", "stage": 2, "piece": 5, "piece_name": "king", "square": 60, "square_name": "e1",
     "white": -30, "black_mirror": 31, "reason": "...",
     "fens": ["<white piece on square, two kings>", "<its colour-flipped twin>"], "evals": [e, e'],      e + e' != 0
     "witness": {...}}            only if the first failing entry cannot be shown by a legal position (see below):
                                  the first failing entry that CAN, same fields
    {"family": "shape", ...}      a table line is missing or does not have 64 entries
    {"family": "consts", "draw_score": 7, "fens": [...], "evals": [7, 7]}
The two FENs are legal-looking positions (exactly one king per side, kings not adjacent, nobody in check, no pawn
on rank 1/8) whose static evaluations `evaluate(.., legal_moves_remaining = true)` (white's point of view; harness
family `eval`, case `<fen> TAB 1`) are then NOT opposite numbers; `evals` are the values this script computes from
the dumped tables with the same formula as heuristic/simple.rs.  Entries that no legal position can read (stage 0
is never returned by game_stage; pawns never stand on rank 1/8) are reported with "fens": null and a reason.
The game stage is steered by extra material placed mirror-symmetrically (stage 1 = MID needs queens and minor
pieces); the extra pieces sit on squares whose own table entries are consistent, otherwise another placement is
tried.
Exit status 0 = no failing input, 1 = failing input printed, 2 = usage / malformed dump.
Usage: c11_find_bad.py <dump file> [pawn,knight,bishop,rook,queen values, default 100,320,330,500,900]"""
import json, sys

PIECE_NAMES = ['pawn', 'knight', 'bishop', 'rook', 'queen', 'king']
LETTERS = 'PNBRQK'
MID, LATE = 1, 2

def mirror(sq): return sq ^ 56
def sq_name(sq): return 'abcdefgh'[sq % 8] + str(8 - sq // 8)

def parse(path):
    white, black, consts = {}, {}, None
    for line in open(path):
        f = line.split()
        if not f:
            continue
        if f[0] == 'pst':
            if len(f) < 4 or f[1] not in ('white', 'black'):
                raise ValueError('malformed pst line: ' + line[:60])
            (white if f[1] == 'white' else black)[(int(f[2]), int(f[3]))] = [int(x) for x in f[4:]]
        elif f[0] == 'consts':
            consts = [int(x) for x in f[1:]]
    return white, black, consts

# ---------- the evaluation of heuristic/simple.rs on a piece placement ----------
# placement: dict square -> (colour 0 = white / 1 = black, piece 0..5)
def game_stage(pl):
    def cnt(c, ps): return sum(1 for (cc, p) in pl.values() if cc == c and p in ps)
    wq, bq = cnt(0, [4]) > 0, cnt(1, [4]) > 0
    wm, bm = cnt(0, [1, 2]) <= 1, cnt(1, [1, 2]) <= 1
    if (not wq and not bq) or (wq and wm and not bq) or (bq and bm and not wq) or (wm and bm):
        return LATE
    return MID

def evaluate(pl, white, black, values):
    st = game_stage(pl)
    v = 0
    for sq, (c, p) in pl.items():
        mat = values[p] if p < 5 else 0
        if c == 0:
            v += mat + white[(st, p)][sq]
        else:
            v += -mat + black[(st, p)][sq]
    return v

def flip(pl): return {mirror(sq): (1 - c, p) for sq, (c, p) in pl.items()}

def fen(pl, side):
    rows = []
    for r in range(8):
        row, empty = '', 0
        for f in range(8):
            x = pl.get(8 * r + f)
            if x is None:
                empty += 1
            else:
                if empty:
                    row += str(empty); empty = 0
                ch = LETTERS[x[1]]
                row += ch if x[0] == 0 else ch.lower()
        if empty:
            row += str(empty)
        rows.append(row)
    return '/'.join(rows) + ' ' + side + ' - - 0 1'

# ---------- legality of the witness positions ----------
def step(sq, df, dr):
    f, r = sq % 8 + df, sq // 8 + dr
    return f + 8 * r if 0 <= f < 8 and 0 <= r < 8 else None

KNIGHT = [(1, -2), (2, -1), (2, 1), (1, 2), (-1, 2), (-2, 1), (-2, -1), (-1, -2)]
ORTH = [(0, -1), (1, 0), (0, 1), (-1, 0)]
DIAG = [(1, -1), (1, 1), (-1, 1), (-1, -1)]

def attacked(pl, target, by):
    """is `target` attacked by a piece of colour `by`?"""
    for sq, (c, p) in pl.items():
        if c != by:
            continue
        if p == 0:
            dr = -1 if c == 0 else 1                     # white pawns move towards rank index 0
            if target in (step(sq, -1, dr), step(sq, 1, dr)):
                return True
        elif p == 1:
            if any(step(sq, df, dr) == target for df, dr in KNIGHT):
                return True
        elif p == 5:
            if any(step(sq, df, dr) == target for df, dr in ORTH + DIAG):
                return True
        else:
            dirs = (DIAG if p == 2 else ORTH if p == 3 else ORTH + DIAG)
            for df, dr in dirs:
                s = step(sq, df, dr)
                while s is not None:
                    if s == target:
                        return True
                    if s in pl:
                        break
                    s = step(s, df, dr)
    return False

def legal(pl):
    kings = {c: [sq for sq, (cc, p) in pl.items() if cc == c and p == 5] for c in (0, 1)}
    if len(kings[0]) != 1 or len(kings[1]) != 1:
        return False
    wk, bk = kings[0][0], kings[1][0]
    if max(abs(wk % 8 - bk % 8), abs(wk // 8 - bk // 8)) <= 1:
        return False
    if any(p == 0 and (sq < 8 or sq >= 56) for sq, (c, p) in pl.items()):
        return False
    return not attacked(pl, wk, 1) and not attacked(pl, bk, 0)

# extra material that makes game_stage return MID, as (white square, piece); the black copy sits on the mirror
# square, so the set is its own twin.  Several alternatives in case a square is taken or its entry is bad too.
MID_EXTRAS = [
    [(59, 4), (57, 1), (58, 2)],     # Qd1 Nb1 Bc1 / qd8 nb8 bc8
    [(51, 4), (42, 1), (45, 2)],     # Qd2 Nc3 Bf3
    [(52, 4), (62, 1), (61, 2)],     # Qe2 Ng1 Bf1
    [(43, 4), (50, 1), (53, 2)],     # Qd3 Nc2 Bf2
]

def entry_ok(white, black, st, p, sq):
    return black[(st, p)][mirror(sq)] == -white[(st, p)][sq]

def witness(white, black, values, st, p, sq):
    """two FENs showing the defect of entry (st, p, sq), or (None, reason)"""
    if st == 0:
        return None, 'stage 0 (EARLY) tables are never read: game_stage returns MID (1) or LATE (2) only'
    if p == 0 and (sq < 8 or sq >= 56):
        return None, 'no legal position has a pawn on rank 1 or 8'
    extras_list = [[]] if st == LATE else MID_EXTRAS
    for extras in extras_list:
        base = {}
        good = True
        for (s, q) in extras:
            if s == sq or mirror(s) == sq or not entry_ok(white, black, st, q, s) or not entry_ok(white, black, st, q, mirror(s)):
                good = False
                break
            base[s] = (0, q)
            base[mirror(s)] = (1, q)
        if not good:
            continue
        for wk in ([sq] if p == 5 else range(63, -1, -1)):
            for bk in range(64):
                pl = dict(base)
                if wk in pl or bk in pl or wk == bk:
                    continue
                pl[wk] = (0, 5)
                pl[bk] = (1, 5)
                if p != 5:
                    if sq in pl:
                        continue
                    pl[sq] = (0, p)
                if game_stage(pl) != st or not legal(pl) or not legal(flip(pl)):
                    continue
                e, e2 = evaluate(pl, white, black, values), evaluate(flip(pl), white, black, values)
                if e + e2 != 0:
                    return ([fen(pl, 'w'), fen(flip(pl), 'b')], [e, e2]), None
    return None, 'no legal witness position found (the king entries involved cancel the defect, or the squares clash)'

def record(white, black, values, st, p, sq):
    rec = {'family': 'pst', 'stage': st, 'piece': p + 1, 'piece_name': PIECE_NAMES[p], 'square': sq,
           'square_name': sq_name(sq), 'white': white[(st, p)][sq], 'black_mirror': black[(st, p)][mirror(sq)],
           'reason': 'black[%d][%s][%s] = %d but -white[%d][%s][%s] = %d' % (
               st, PIECE_NAMES[p], sq_name(mirror(sq)), black[(st, p)][mirror(sq)],
               st, PIECE_NAMES[p], sq_name(sq), -white[(st, p)][sq])}
    w, why = witness(white, black, values, st, p, sq)
    if w is None:
        rec['fens'], rec['evals'] = None, None
        rec['reason'] += '; ' + why
    else:
        rec['fens'], rec['evals'] = w
    return rec

def find_bad(white, black, consts, values):
    for st in range(3):
        for p in range(6):
            for name, tbl in (('white', white), ('black', black)):
                if (st, p) not in tbl or len(tbl[(st, p)]) != 64:
                    return {'family': 'shape', 'table': name, 'stage': st, 'piece': p + 1,
                            'entries': len(tbl[(st, p)]) if (st, p) in tbl else None,
                            'reason': 'pst %s %d %d is missing or does not have 64 entries' % (name, st, p)}
    first = None
    for st in range(3):
        for p in range(6):
            for sq in range(64):
                if entry_ok(white, black, st, p, sq):
                    continue
                rec = record(white, black, values, st, p, sq)
                if first is None:
                    first = rec
                    if rec['fens'] is not None:
                        return first
                elif rec['fens'] is not None:
                    first['witness'] = rec
                    return first
    if first is not None:
        return first
    if consts is None or len(consts) < 2:
        return {'family': 'shape', 'table': 'consts', 'reason': 'consts line missing'}
    if consts[1] != 0:
        half = consts[3] if len(consts) > 3 else 100
        fens = ['4k3/8/8/8/8/8/8/4K3 w - - %d 60' % half, '4k3/8/8/8/8/8/8/4K3 b - - %d 60' % half]
        return {'family': 'consts', 'draw_score': consts[1], 'fens': fens, 'evals': [consts[1], consts[1]],
                'reason': 'draw_score != 0: the fifty-move branch returns the same non-zero value for a position and its twin'}
    return None

def main(argv):
    if len(argv) not in (2, 3):
        sys.stderr.write(__doc__ + '\n')
        return 2
    values = [100, 320, 330, 500, 900]
    try:
        if len(argv) == 3:
            values = [int(x) for x in argv[2].split(',')]
            if len(values) != 5:
                raise ValueError('need 5 piece values')
        white, black, consts = parse(argv[1])
    except (OSError, ValueError) as e:
        sys.stderr.write('c11_find_bad: %s\n' % e)
        return 2
    bad = find_bad(white, black, consts, values)
    print(json.dumps(bad))
    return 0 if bad is None else 1

if __name__ == '__main__':
    sys.exit(main(sys.argv))

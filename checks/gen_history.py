"""Case generator for family `history` (engine_core zobrist_history.rs, property C10).

Case line:  <index:hashhex pairs separated by spaces> TAB <start index> TAB <half-move clock (u32)>
Observation: count in decimal | BADCASE                  (see coq/Driver/RunHistory.v, harness/src/fam_history.rs)
Since /repo fix aca2b0d every u16 index is legal (the history grows, unwritten entries read as 0); before it any
index >= 5000 panicked (D16).  The old array length 5000 stays a boundary of interest (initial Vec length).

`gen(rng, tier)` -> list of case lines; `nontrivial(line)` -> bool; `ref(line)` is an independent
window-style reference used by the self test (`python3 gen_history.py`).
"""
import random

LEN = 5000
U64 = (1 << 64) - 1

# hash palettes: few distinct values so that repetitions are frequent; 0 equals the value of unset slots
PALETTES = [
    [1, 2], [0, 1], [1, 2, 3], [0, 1, 2], [1, 2, 3, 4], [0, U64, 1, 2],
    [0x9d39247e33776d41, 0x2af7398005aaa5c7, 0x44db015024623547],
    [U64, U64 - 1], [123, 4312, 1, 2, 3, 4],
]

HALF_SPECIAL = [0, 1, 2, 3, 4, 5, 6, 7, 8, 9, 50, 99, 100, 101, 4998, 4999, 5000, 65531, 65532, 65533, 65534,
                65535, 65536, 65537, 65539, 65540, 65544, 65546, 131072, 131080, 70535, 70536,
                (1 << 31) - 1, 1 << 31, (1 << 32) - 8, (1 << 32) - 1]

START_EDGE = [0, 1, 2, 3, 4, 5, 6, 7, 8, 9, 10, 11, 12, 4990, 4995, 4996, 4997, 4998, 4999]
START_HIGH = [5000, 5001, 5002, 5003, 5004, 9999, 20000, 20001, 32767, 32768, 65532, 65533, 65534, 65535]   # >= old array length


def line(sets, start, half):
    return "%s\t%d\t%d" % (" ".join("%d:%x" % (i, v) for i, v in sets), start, half)


def pick_start(rng):
    r = rng.random()
    if r < 0.10:
        return rng.choice(START_EDGE)
    if r < 0.16:
        return rng.choice(START_HIGH)
    if r < 0.60:
        return rng.randint(4, 40)
    if r < 0.85:
        return rng.randint(4, 400)
    if r < 0.95:
        return rng.randint(4, LEN - 1)
    return rng.randint(LEN, 65535)


def pick_half(rng, start):
    r = rng.random()
    if r < 0.15:
        return rng.choice(HALF_SPECIAL)
    if r < 0.25:
        return rng.randint(0, 3)
    if r < 0.65:
        return rng.randint(0, max(0, start))
    if r < 0.75:
        return max(0, start + rng.randint(-3, 3))
    if r < 0.85:
        return start + rng.randint(1, 60)
    if r < 0.93:
        return 65536 * rng.randint(1, 3) + rng.randint(0, min(start + 4, 65535))
    return rng.randint(0, (1 << 32) - 1)


def random_case(rng):
    """Dense random history around the start index, few distinct hashes."""
    pal = rng.choice(PALETTES)
    pal = pal[:rng.randint(2, len(pal))]
    start = pick_start(rng)
    half = pick_half(rng, start)
    span = rng.choice([6, 10, 16, 24, 40, 64])
    top = start
    lo = max(0, top - span)
    density = rng.choice([1.0, 1.0, 0.9, 0.6])
    idx = [i for i in range(lo, top + 1) if rng.random() < density]
    if rng.random() < 0.3:                      # stale entries above the start index (earlier search lines)
        idx += [i for i in range(top + 1, min(65536, top + 6))]
    if rng.random() < 0.2:                      # overwrites: the later write wins
        idx += [rng.choice(idx) for _ in range(rng.randint(1, 4))] if idx else []
    order = rng.random()
    if order < 0.2:
        rng.shuffle(idx)
    elif order < 0.3:
        idx.reverse()
    sets = [(i, rng.choice(pal)) for i in idx]
    if rng.random() < 0.05:                     # a write far away (grows the vector), possibly before the others
        sets.insert(rng.randint(0, len(sets)), (rng.choice([4999, 5000, 5001, 20000, 65535]), rng.choice(pal)))
    return line(sets, start, half)


def planted_case(rng):
    """Background of pairwise distinct hashes, the start hash planted at chosen distances."""
    start = rng.choice([rng.randint(4, 40), rng.randint(4, 40), rng.randint(41, 300), rng.randint(4900, 4999),
                        rng.randint(4996, 5012), rng.choice([5000, 5001, 20000, 65534, 65535])])
    span = min(start, rng.choice([8, 12, 20, 30, 44]))
    key = rng.choice([1, 0, U64, 0xabcdef])
    kind = rng.randrange(9)
    evens = [d for d in range(4, span + 1, 2)]
    odds = [d for d in range(1, span + 1, 2)]
    if kind == 0:      # exactly k in-window occurrences
        k = rng.randint(0, min(4, len(evens)))
        dists = rng.sample(evens, k)
    elif kind == 1:    # odd distances only: never counted
        dists = rng.sample(odds, min(len(odds), rng.randint(1, 5)))
    elif kind == 2:    # distance 2 only: never counted
        dists = [2]
    elif kind == 3:    # distance 2 and one real one
        dists = [2] + rng.sample(evens, min(1, len(evens)))
    elif kind == 4:    # odd + 2 + exactly one even: count 2, not 3
        dists = [1, 2, 3] + rng.sample(evens, min(1, len(evens)))
    elif kind == 5:    # exactly two real ones (count 3) plus noise at odd distances
        dists = rng.sample(evens, min(2, len(evens))) + rng.sample(odds, min(2, len(odds)))
    elif kind == 6:    # three or more
        dists = rng.sample(evens, min(len(evens), rng.randint(3, 6)))
    elif kind == 7:    # the two real ones are the two oldest entries of the span
        dists = evens[-2:]
    else:              # nearest possible ones
        dists = evens[:2]
    lo = start - span
    sets = []
    for i in range(lo, start + 1):
        d = start - i
        if d == 0 or d in dists:
            sets.append((i, key))
        else:
            v = 1000 + i            # pairwise distinct, different from every key
            sets.append((i, v))
    # half-move clock relative to the planted distances: just reaching / just missing one of them
    r = rng.random()
    if dists and r < 0.5:
        half = max(0, rng.choice(dists) + rng.choice([-2, -1, 0, 0, 1]))
    elif r < 0.6:
        half = span
    elif r < 0.7:
        half = start + rng.randint(0, 5)
    elif r < 0.8:
        half = 65536 + rng.choice([0, 4, 8, span])
    else:
        half = rng.randint(0, span + 3)
    if key == 0 and rng.random() < 0.5:        # leave the planted slots unset: default 0 equals key 0
        sets = [(i, v) for (i, v) in sets if v != 0 or i == start]
    return line(sets, start, half)


def boundary_cases():
    out = []
    base = [(i, 1) for i in range(0, 13)]
    for start in range(0, 13):
        for half in [0, 1, 2, 3, 4, 5, 6, 7, 8, 9, 12, 13, 65535, 65536, 65540, 65544]:
            out.append(line(base, start, half))
    # empty history: every slot is 0, so everything repeats
    for start in [0, 3, 4, 5, 7, 8, 9, 100, 4998, 4999, 5000, 5001, 5004, 20000, 65534, 65535]:
        for half in [0, 3, 4, 7, 8, 65535, 65536, 65540, 65544, (1 << 32) - 1]:
            out.append(line([], start, half))
    # around the initial length of the vector (the old array length) and at the top of the u16 range
    for start in [4996, 4997, 4998, 4999, 5000, 5001, 5002, 5003, 5004, 5008, 20000, 65534, 65535]:
        for half in [0, 4, 7, 8, 9, 4999, 5000, 65535]:
            out.append(line([(start, 7), (start - 4, 7), (start - 8, 7), (start - 6, 9)], start, half))
            out.append(line([(start, 7), (start - 3, 7), (start - 2, 7), (start - 8, 7)], start, half))
            out.append(line([(start, 7), (0, 7), (1, 7), (2, 7), (3, 7)], start, half))
    # former panics (D16): writes and reads at / beyond index 5000, in every order
    out.append(line([(5000, 1)], 10, 10))
    out.append(line([(4999, 1), (5000, 1)], 4999, 10))
    out.append(line([(65535, 0)], 0, 0))
    out.append(line([(1, 1)], 5000, 0))
    out.append(line([(1, 1)], 5001, 65536))
    out.append(line([(1, 1)], 65535, 65535))
    out.append(line([(5000, 1), (4996, 1), (4992, 1)], 5000, 8))        # window straddles the old length
    out.append(line([(5004, 1), (5000, 1), (4996, 1)], 5004, 8))
    out.append(line([(5004, 1), (5000, 1), (4996, 1)], 5004, 7))
    out.append(line([(5008, 1), (5004, 1), (5000, 1)], 5008, 8))        # entirely beyond it
    out.append(line([(5008, 1), (5004, 1)], 5008, 8))                   # 5000 unwritten: reads 0, not equal
    out.append(line([(5008, 0)], 5008, 8))                              # ... equal to key 0
    out.append(line([(20000, 0)], 20000, 65535))
    out.append(line([(65535, 5), (65531, 5), (65527, 5)], 65535, 8))
    out.append(line([(65535, 5), (65531, 5), (3, 5)], 65535, 65535))    # window down to index 3
    out.append(line([(65535, 5), (65531, 5), (3, 5)], 65535, 65531))    # ... stops at index 4
    out.append(line([(65535, 5), (1, 5), (3, 5)], 65535, 65536 + 65535))
    out.append(line([(65534, 5), (0, 5), (2, 5)], 65534, 65534))
    out.append(line([(65535, 9), (20000, 1), (65535, 1), (19996, 1), (19992, 1)], 20000, 8))  # shrinking order of writes
    return out


def big_case(rng):
    """Long windows over a sparsely written array (unset slots are 0)."""
    start = rng.choice([4999, 4998, 5000, 5001, 20000, 65535, 65534, rng.randint(3000, 4999), rng.randint(5000, 65535)])
    pal = rng.choice([[0, 1], [1, 2], [0, 5, 6]])
    n = rng.choice([3, 10, 40])
    idx = sorted(set([start] + [rng.randint(0, start) for _ in range(n)]))
    sets = [(i, rng.choice(pal)) for i in idx]
    half = rng.choice([start, 65535, start - rng.randint(0, 50), rng.randint(0, start), 65536 + rng.randint(0, start)])
    return line(sets, start, max(0, half))


def gen(rng, tier):
    quick = tier != "thorough"
    out = boundary_cases()                      # ~ 450
    n_rand, n_plant, n_big = (470, 330, 12) if quick else (36000, 23400, 150)
    for _ in range(n_rand):
        out.append(random_case(rng))
    for _ in range(n_plant):
        out.append(planted_case(rng))
    for _ in range(n_big):
        out.append(big_case(rng))
    return out


def _parse(case):
    f = case.split("\t")
    if len(f) != 3:
        return None
    sets = []
    for w in f[0].split(" "):
        if not w:
            continue
        a, b = w.split(":")
        sets.append((int(a), int(b, 16)))
    return sets, int(f[1]), int(f[2])


def ref(case):
    """Independent reference in the style of Spec/Draws.v (window as a set of indices)."""
    sets, start, half = _parse(case)
    arr = {}
    for i, v in sets:
        arr[i] = v
    if start < 4:
        return "0"
    hm = half % 65536
    win = [j for j in range(0, start) if j % 2 == start % 2 and j + 4 <= start and j >= start - hm]
    occ = sum(1 for j in win if arr.get(j, 0) == arr.get(start, 0))
    return str(min(3, 1 + occ))


def nontrivial(case):
    """The window is non-empty: the answer depends on the history contents."""
    p = _parse(case)
    if p is None:
        return False
    sets, start, half = p
    if start < 4:
        return False
    return half % 65536 >= 4 and len(sets) > 0


if __name__ == "__main__":
    import collections
    for tier in ("quick", "thorough"):
        cases = gen(random.Random(1), tier)
        c = collections.Counter(ref(x) for x in cases)
        print(tier, len(cases), "nontrivial", sum(1 for x in cases if nontrivial(x)), dict(c))

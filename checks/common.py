"""Shared helpers for the case generators and the orchestrator."""
import re

def esc(s: str) -> str:
    """Escape arbitrary text into one protocol field (see CONVENTIONS.md)."""
    out = []
    for ch in s:
        c = ord(ch)
        if ch == '\\': out.append('\\\\')
        elif ch == '\t': out.append('\\t')
        elif ch == '\n': out.append('\\n')
        elif ch == '\r': out.append('\\r')
        elif c < 32 or c > 126: out.append('\\u{%x}' % c)
        else: out.append(ch)
    return ''.join(out)

_UNESC = re.compile(r'\\(\\|t|n|r|s|u\{([0-9a-fA-F]*)\})')
def unesc(s: str) -> str:
    def f(m):
        g = m.group(1)
        if g == '\\': return '\\'
        if g == 't': return '\t'
        if g == 'n': return '\n'
        if g == 'r': return '\r'
        if g == 's': return ' '
        return chr(int(m.group(2) or '0', 16))
    return _UNESC.sub(f, s)

#!/usr/bin/env python3
"""c19_find_bad.py - quick, Coq-free version of the C19 compatibility check.

    python3 /verif/checks/c19_find_bad.py --repo /repo

Parses the serde-derived Lichess types with rs2v.parse_repo and compares them with the documented Bot-API shapes
(the Python transcription in gen_lichess.py: GAME / EVENT, same shapes as coq/Spec/LichessApi.v): every documented
field must be read by the implementation under its documented wire name into a slot that can hold every documented
value (optional => Option, enum keys included, integer width), and every field the implementation requires must be
documented as always present.  Prints ONE JSON value: null if compatible, else
    {"path": [...wire names from the message kind down...], "reason": "...",
     "witness": {"kind": "game"|"event", "text": "<JSON document in which that field carries a value>"}}
Exit status 0 in both cases, 2 if rs2v does not understand the Rust source.
The authoritative check is Theorem C19_schemas (Properties/C19.v, find_bad in Model/Serde.v)."""
import argparse, json, os, random, sys
sys.path.insert(0, os.path.dirname(os.path.abspath(__file__)))
import rs2v
import gen_lichess as G

INT_RANGE = {"u32": (0, 2 ** 32 - 1), "i32": (-2 ** 31, 2 ** 31 - 1), "u64": (0, 2 ** 64 - 1)}


class Impl:
    def __init__(self, items):
        self.items = items

    def fields(self, fields, rule):
        """wire-level view of a struct / struct variant: [(wire, type, lenient)], flattened structs inlined"""
        out = []
        for f in fields or []:
            s = f["serde"]
            if s.get("flatten"):
                inner = self.items[f["ty"][0]]
                out += self.fields(inner["fields"], inner["serde"].get("rename_all"))
                continue
            wire = s.get("rename") or rs2v.rename_field(rule, f["name"], f["loc"])
            ty = ("custom", s["deserialize_with"]) if "deserialize_with" in s else f["ty"]
            out.append((wire, ty, f["ty"][0] == "Option" or bool(s.get("default"))))
        return out

    def variants(self, enum):
        rule = enum["serde"].get("rename_all")
        return {(v["serde"].get("rename") or rs2v.rename_variant(rule, v["name"], v["loc"])): v for v in enum["variants"]}


def bad(im, shape, ty, optional):
    """first offending typed path [('field'|'variant', name)...] + reason, or None"""
    if ty[0] == "Option":
        ty = ty[1]
    elif optional:
        return [], "documented as optional (absent / null) but the implementation slot is not an Option"
    kind = shape if isinstance(shape, str) else shape[0]
    if kind in ("text", "id"):
        return None if ty == ("String", None) else ([], "documented string, implementation reads %s" % (ty,))
    if kind == "bool":
        return None if ty == ("bool", None) else ([], "documented boolean, implementation reads %s" % (ty,))
    if kind in INT_RANGE:
        r = INT_RANGE.get(ty[0])
        ok = r is not None and r[0] <= INT_RANGE[kind][0] and INT_RANGE[kind][1] <= r[1]
        return None if ok else ([], "documented %s does not fit the implementation type %s" % (kind, ty[0]))
    if kind == "moves":
        return None if ty == ("custom", "from_space_sv") else ([], "move string not read by from_space_sv")
    item = im.items.get(ty[0]) if ty[1] is None else None
    if kind == "enum":
        if not item or item["kind"] != "enum" or "tag" in item["serde"]:
            return [], "documented key set, implementation reads %s" % (ty,)
        missing = [k for k in shape[1] if k not in im.variants(item)]
        return ([], "documented key(s) %s not accepted by enum %s" % (missing, ty[0])) if missing else None
    if kind == "obj":
        if not item or item["kind"] != "struct":
            return [], "documented object, implementation reads %s" % (ty,)
        return bad_fields(im, shape[1], im.fields(item["fields"], item["serde"].get("rename_all")))
    if kind == "tagged":
        if not item or item["kind"] != "enum" or item["serde"].get("tag") != "type":
            return [], "documented tagged object, implementation reads %s" % (ty,)
        return bad_variants(im, shape[1], item)
    return [], "unknown documented shape %r" % (shape,)


def bad_fields(im, doc_fields, impl_fields):
    impl = {w: (t, l) for w, t, l in impl_fields}
    for w, shape, optional in doc_fields:
        if w not in impl:
            return [("field", w)], "documented field is not read by the implementation (no field with this wire name)"
        r = bad(im, shape, impl[w][0], optional)
        if r:
            return [("field", w)] + r[0], r[1]
    doc = {w: optional for w, _, optional in doc_fields}
    for w, t, lenient in impl_fields:
        if not lenient and doc.get(w, True):
            return [("field", w)], "the implementation requires this field but it is not documented as always present"
    return None


def bad_variants(im, doc_variants, enum):
    impl = im.variants(enum)
    for n in doc_variants:
        if n not in impl:
            return [("variant", n)], "documented message kind has no variant in %s" % enum["name"]
        v = impl[n]
        r = bad_fields(im, doc_variants[n], im.fields(v["fields"], v["serde"].get("rename_all")))
        if r:
            return [("variant", n)] + r[0], r[1]
    return None


def carries(exp, path):
    for kind, name in path:
        if not isinstance(exp, dict):
            return False
        if kind == "variant":
            if exp.get("type") != name:
                return False
        else:
            exp = exp.get(name)
            if exp is None:
                return False
    return True


def witness(kind, path):
    """a conforming document (all optional fields present) in which the offending field carries a value"""
    table = G.GAME if kind == "game" else G.EVENT
    cfg = dict(p_absent=0, p_null=0, p_extra=0, p_shuffle=0)
    fallback = None
    for seed in range(400):
        rng = random.Random(seed)
        node, exp = G.gen_message(rng, kind, path[0][1], "quick", cfg)
        text = G.write(rng, node)
        if len(text) > 4000:
            continue
        fallback = fallback or text
        if carries(exp, path):
            return text
    return fallback


def find_bad(repo):
    items, _ = rs2v.parse_repo(repo)
    im = Impl(items)
    for kind, root, table in (("game", "BotGameState", G.GAME), ("event", "BotEvent", G.EVENT)):
        r = bad_variants(im, table, items[root])
        if r:
            return {"path": [n for _, n in r[0]], "reason": r[1],
                    "witness": {"kind": kind, "text": witness(kind, r[0])}}
    return None


def main():
    ap = argparse.ArgumentParser()
    ap.add_argument("--repo", default="/repo")
    a = ap.parse_args()
    try:
        print(json.dumps(find_bad(a.repo), ensure_ascii=True))
    except rs2v.Unsupported as e:
        sys.stderr.write("c19_find_bad: rs2v: UNSUPPORTED CONSTRUCT: %s\n" % e)
        sys.exit(2)


if __name__ == "__main__":
    main()

"""Case generator for family `table` (C18: transposition store is a bounded FIFO map).

Case line:  <capacity> TAB <ops>      ops = space separated  p<key>:<value> | g<key> | c | l
(see coq/Driver/RunTable.v and harness/src/fam_table.rs).

quick    : ~400 random lines (<= 300 ops)  + ALL op sequences of length <= 4 over 3 keys, capacities 1..3
thorough : ~1000 random lines (<= 2000 ops) + ALL op sequences of length <= 5 over 3 keys, capacities 1..3,
           + all sequences of length 6 up to renaming of the keys (first-occurrence order), each instantiated
             with a random triple of distinct u64 keys (the literal 3 x 8^6 = 786k lines exceed the 300k budget;
             the table's behaviour is invariant under key renaming, the random triple keeps real hashes varied).
The alphabet of the exhaustive part is {p k1, p k2, p k3, g k1, g k2, g k3, c, l}; the value of a put is the
index of the op in the sequence (so every put is distinguishable).
"""
import itertools

U64 = (1 << 64) - 1
_EDGE_KEYS = [0, 1, 2, 3, 63, 64, 255, 256, (1 << 32) - 1, 1 << 32, 1 << 63, (1 << 63) - 1, U64 - 1, U64]


def _rand_key(rng):
    r = rng.random()
    if r < 0.3:
        return rng.choice(_EDGE_KEYS)
    if r < 0.5:
        return rng.randrange(0, 64)
    return rng.getrandbits(64)


def _key_universe(rng, n):
    """n distinct u64 keys: small consecutive ints, or arbitrary / edge u64 values."""
    if rng.random() < 0.4:
        base = rng.choice([0, 1, 7, U64 - n + 1])
        return [base + i for i in range(n)]
    keys = set()
    while len(keys) < n:
        keys.add(_rand_key(rng))
    keys = list(keys)
    rng.shuffle(keys)
    return keys


def _rand_value(rng):
    r = rng.random()
    if r < 0.15:
        return rng.choice([0, 1, U64, 1 << 63])
    if r < 0.4:
        return rng.randrange(0, 1000)
    return rng.getrandbits(64)


def _random_line(rng, max_len):
    big = rng.random() < 0.06
    if big:
        cap = 1000
        # half of the big-capacity lines really fill the table
        nkeys = rng.choice([rng.randint(2, 20), 1200])
    else:
        cap = rng.randint(1, 8)
        nkeys = rng.randint(2, 20)
    keys = _key_universe(rng, nkeys)
    n = max_len if (big and nkeys > 20) else rng.randint(0, max_len)
    p_put = rng.choice([0.35, 0.5, 0.7, 0.9]) if not (big and nkeys > 20) else 0.85
    p_clear = rng.choice([0.0, 0.0, 0.005, 0.02, 0.08])
    p_len = rng.choice([0.02, 0.1, 0.2])
    ops = []
    for _ in range(n):
        r = rng.random()
        if r < p_clear:
            ops.append('c')
        elif r < p_clear + p_len:
            ops.append('l')
        elif r < p_clear + p_len + (1 - p_clear - p_len) * p_put:
            ops.append('p%d:%d' % (rng.choice(keys), _rand_value(rng)))
        else:
            ops.append('g%d' % rng.choice(keys))
    return '%d\t%s' % (cap, ' '.join(ops))


_ALPHABET = [('p', 0), ('p', 1), ('p', 2), ('g', 0), ('g', 1), ('g', 2), ('c', None), ('l', None)]


def _render(cap, seq, keys):
    toks = []
    for i, (kind, k) in enumerate(seq):
        if kind == 'p':
            toks.append('p%d:%d' % (keys[k], i))
        elif kind == 'g':
            toks.append('g%d' % keys[k])
        else:
            toks.append(kind)
    return '%d\t%s' % (cap, ' '.join(toks))


def _all_sequences(max_len, caps=(1, 2, 3), keys=(1, 2, 3)):
    out = []
    for n in range(0, max_len + 1):
        for seq in itertools.product(_ALPHABET, repeat=n):
            for cap in caps:
                out.append(_render(cap, seq, keys))
    return out


def _canonical_sequences(n):
    """Sequences of length n in which the keys appear in first-occurrence order 0, 1, 2."""
    res = []

    def rec(prefix, used):
        if len(prefix) == n:
            res.append(tuple(prefix))
            return
        for kind in ('c', 'l'):
            prefix.append((kind, None)); rec(prefix, used); prefix.pop()
        for kind in ('p', 'g'):
            for k in range(min(used + 1, 3)):
                prefix.append((kind, k)); rec(prefix, max(used, k + 1)); prefix.pop()

    rec([], 0)
    return res


def gen(rng, tier):
    lines = []
    if tier == 'thorough':
        n_random, max_len, exhaustive_len = 1000, 2000, 5
    else:
        n_random, max_len, exhaustive_len = 400, 300, 4
    for _ in range(n_random):
        lines.append(_random_line(rng, max_len))
    lines.extend(_all_sequences(exhaustive_len))
    if tier == 'thorough':
        budget = 300000 - len(lines)
        extra = []
        for seq in _canonical_sequences(6):
            for cap in (1, 2, 3):
                extra.append(_render(cap, seq, _key_universe(rng, 3)))
        if len(extra) > budget:          # not expected (137,280 lines); keep the budget anyway
            extra = rng.sample(extra, budget)
        lines.extend(extra)
    return lines


def nontrivial(line):
    """The line can exercise eviction: more distinct put keys (since the last clear) than the capacity,
    and at least one observation (get / len) is made."""
    try:
        capf, opsf = line.split('\t')
        cap = int(capf)
    except ValueError:
        return False
    live, best, observed = set(), 0, False
    for w in opsf.split(' '):
        if not w:
            continue
        if w[0] == 'p':
            live.add(w[1:].split(':')[0])
            best = max(best, len(live))
        elif w == 'c':
            live = set()
        else:
            observed = True
    return observed and best > cap


if __name__ == '__main__':
    import random, sys
    tier = sys.argv[1] if len(sys.argv) > 1 else 'quick'
    seed = int(sys.argv[2]) if len(sys.argv) > 2 else 1
    for l in gen(random.Random(seed), tier):
        print(l)

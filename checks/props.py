"""Per-property checks (called by verify.py check <id>)."""
import importlib, json, os, random, re, sys, time
import verify as V

MAXREP = 4          # at most this many violations are written per family and run

def positions(seed, tier, scale=1.0):
    q = tier == 'quick'
    n_games, n_special, n_end = (int(1500 * scale), int(900 * scale), int(400 * scale)) if q else (int(60000 * scale), int(40000 * scale), int(15000 * scale))
    ps = V.corpus('positions')
    ps += V.gen_positions('games', seed, n_games)
    ps += V.gen_positions('special', seed + 1, n_special)
    ps += V.gen_positions('endgames', seed + 2, n_end)
    seen, out = set(), []
    for p in ps:
        if p not in seen:
            seen.add(p); out.append(p)
    # half-move clocks >= 4096 do not survive make/unmake (12-bit field; C03 quantifies over 0..4095, known finding for
    # the other snapshot-based properties): the shared position stream stays below; C02 adds its own huge clocks
    out = [p for p in out if int(p.split(' ')[4]) <= 3800]
    DIST.clear(); DIST.update(fen_distribution(out))
    return out

DIST = {}
def fen_distribution(fens):
    """measured distribution of the generated positions (goes into the evidence)"""
    d = {'positions': len(fens), 'pieces': {}, 'side': {'w': 0, 'b': 0}, 'castling_sets': {}, 'with_ep': 0, 'pawn_on_7th_or_2nd': 0, 'halfmove': {'0-49': 0, '50-99': 0, '100-127': 0, '128-4095': 0, '>=4096': 0}}
    for f in fens:
        w = f.split(' ')
        n = sum(1 for c in w[0] if c.isalpha())
        b = '%d-%d' % (n // 8 * 8, n // 8 * 8 + 7)
        d['pieces'][b] = d['pieces'].get(b, 0) + 1
        d['side'][w[1]] = d['side'].get(w[1], 0) + 1
        d['castling_sets'][w[2]] = d['castling_sets'].get(w[2], 0) + 1
        if w[3] != '-': d['with_ep'] += 1
        rows = w[0].split('/')
        if 'P' in rows[1] or 'p' in rows[6]: d['pawn_on_7th_or_2nd'] += 1
        h = int(w[4]) if len(w) > 4 else 0
        k = '0-49' if h < 50 else '50-99' if h < 100 else '100-127' if h < 128 else '128-4095' if h < 4096 else '>=4096'
        d['halfmove'][k] += 1
    return d

def diff(res, family, cases, impl=None, model=None, nontrivial=None, known=None, proj=None, level='tie'):
    """implementation vs extracted model.  `proj` projects an observation onto what THIS property observes.
    level='property': the model's observation is the property-level oracle (the model is proved equal to the spec
    at that level), a disagreement is a failing input.  level='tie': a disagreement only breaks the correspondence;
    it is recorded and, if no property-level failing input is found by the rest of the check, reported once with
    `no-failing-input-found` (the property is then no longer shown to hold)."""
    if impl is None: impl = V.run_impl(family, cases)
    if model is None: model = V.run_model(family, cases)
    res.count(family, cases, nontrivial)
    k = 0
    for c, i, m in zip(cases, impl, model):
        pi, pm = (proj(i), proj(m)) if proj else (i, m)
        if pi != pm:
            if known and known(c, i, m):
                continue
            if level == 'property':
                if k < MAXREP:
                    res.violation(family, c, pm, pi, 'model (proved equal to the spec)', 'implementation deviates from the proved model at the level the property observes')
            else:
                res.tie_break(family, c, pm, pi)
            k += 1
    if k:
        res.notes.append('%s: %d disagreement(s) implementation vs model (%s level)' % (family, k, level))
    # extraction cross-check: the same definitions evaluated by vm_compute inside Coq, on a small sample
    if cases and family not in res.vm_checked:
        res.vm_checked.add(family)
        n = 6 if res.tier == 'quick' else 60
        idx = sorted(set(int(j * (len(cases) - 1) / max(1, n - 1)) for j in range(min(n, len(cases)))))
        idx = [j for j in idx if all(ord(ch) < 0x110000 for ch in cases[j]) and len(cases[j]) < 3000][:n]
        try:
            cnt, bad = V.vm_crosscheck(family, [cases[j] for j in idx], [model[j] for j in idx])
            res.vm_lines += cnt
            for b in bad[:2]:
                res.notes.append('EXTRACTION CROSS-CHECK MISMATCH in %s: %r' % (family, b if isinstance(b, str) else b[0][:200]))
                res.violation(family, b if isinstance(b, str) else b[0], b[1] if not isinstance(b, str) else None, b[2] if not isinstance(b, str) else None, 'vm_compute vs extraction', 'the extracted program and the in-Coq evaluation of the model disagree (trusted-base failure)', suffix='no-failing-input-found')
        except Exception as e:
            res.notes.append('vm cross-check skipped for %s: %r' % (family, e))
    return impl, model

def parse_movegen(obs):
    d = {}
    for part in obs.split('|'):
        if ' ' in part:
            k, v = part.split(' ', 1)
        else:
            k, v = part, ''
        d[k] = [x for x in v.split(',') if x]
    return d

# ------------------------------------------------------------------ C01
def c01(res, ctx):
    tier, seed = res.tier, res.seed
    ps = positions(seed, tier)
    impl, model = diff(res, 'movegen', ps)
    spec = V.run_model('spec-movegen', ps)
    k = 0
    for p, i, s in zip(ps, impl, spec):
        if s in ('NOTLEGAL', 'BADFEN') or not i.startswith('L '):
            res.skipped['spec-movegen:' + s[:8]] = res.skipped.get('spec-movegen:' + s[:8], 0) + 1
            continue
        gi, gs = parse_movegen(i), parse_movegen(s)
        bad = None
        if gi['L'] != gs['L']:
            bad = ('legal move set differs from the rules', 'L ' + ','.join(gs['L']), 'L ' + ','.join(gi['L']))
        elif gi['F'] != gi['L']:
            bad = ('pseudo-legal + make/is_valid filter differs from generate_legal_moves', 'F = L', i)
        elif len(set(gi['L'])) != len(gi['L']):
            bad = ('duplicate legal move', 'no duplicates', i)
        elif sorted(set(gi['L']) & set(gi['Q'])) != gs['LQ'] or not set(gi['Q']) <= set(gi['P']) or len(set(gi['Q'])) != len(gi['Q']):
            bad = ('capture/promotion generator is not the capture-or-promotion subset', 'LQ ' + ','.join(gs['LQ']), 'Q ' + ','.join(gi['Q']))
        if bad:
            if k < MAXREP: res.violation('movegen', p, bad[1], bad[2], 'spec', bad[0])
            k += 1
    # exact tie of the generator (order, flags, mvv-lva) -- model level
    sub = ps if tier == 'thorough' else ps[::2]
    def proj_movelist(o):
        # what move generation means for its users: the moves in order with moved/captured piece, castle/e.p. flags,
        # promotion piece and mvv-lva score; the undo bookkeeping fields belong to C03
        if ' # ' not in o: return o
        a, b = o.split(' # ', 1)
        out = []
        for mv in a.split(' '):
            f = mv.split(':')
            out.append(':'.join([f[0], f[1], f[2], f[3][4:6], f[10], f[12]]) if len(f) >= 13 else mv)
        return ' '.join(out) + ' # ' + b
    diff(res, 'movelist', sub, proj=proj_movelist)
    # perft divide
    d = 2
    pp = [p + '\t' + str(d) for p in (ps[::12] if tier == 'quick' else ps[::40])]
    if tier == 'thorough':
        pp += [p + '\t3' for p in ps[::400]]
    impl, model = diff(res, 'perft', pp)
    spec = V.run_model('spec-perft', pp)
    k = 0
    for c, i, s in zip(pp, impl, spec):
        if s in ('NOTLEGAL', 'BADFEN'): continue
        if i != s:
            if k < MAXREP: res.violation('perft', c, s, i, 'spec', 'perft divide differs from the rules')
            k += 1
    # published perft numbers validate the Spec itself
    ref = [('rnbqkbnr/pppppppp/8/8/8/8/PPPPPPPP/RNBQKBNR w KQkq - 0 1', [20, 400, 8902]),
           ('r3k2r/p1ppqpb1/bn2pnp1/3PN3/1p2P3/2N2Q1p/PPPBBPPP/R3K2R w KQkq - 0 1', [48, 2039]),
           ('8/2p5/3p4/KP5r/1R3p1k/8/4P1P1/8 w - - 0 1', [14, 191, 2812]),
           ('r3k2r/Pppp1ppp/1b3nbN/nP6/BBP1P3/q4N2/Pp1P2PP/R2Q1RK1 w kq - 0 1', [6, 264]),
           ('rnbq1k1r/pp1Pbppp/2p5/8/2B5/8/PPP1NnPP/RNBQK2R w KQ - 1 8', [44, 1486]),
           ('r4rk1/1pp1qppp/p1np1n2/2b1p1B1/2B1P1b1/P1NP1N2/1PP1QPPP/R4RK1 w - - 0 10', [46, 2079])]
    cases = []
    for fen, counts in ref:
        for dd, n in enumerate(counts, 1):
            if tier == 'quick' and n > 3000: continue
            cases.append((fen + '\t' + str(dd), n))
    outs = V.run_model('spec-perft', [c for c, _ in cases])
    for (c, n), o in zip(cases, outs):
        tot = sum(int(x.split(':')[1]) for x in o.split()) if o and ':' in o else -1
        if tot != n:
            res.notes.append('SPEC VALIDATION FAILED: perft %s = %d, published %d' % (c, tot, n))
            res.violation('spec-perft', c, str(n), str(tot), 'published perft numbers', 'the Spec (Rules.v) disagrees with published perft counts')
    res.count('spec-perft', [c for c, _ in cases])
    return dict(rule='positions: corpus + random legal games + constructive legal-position sampler + few-piece endgames (harness gen, seed-derived); '
                     'non-trivial = distinct case line; move sets compared as sorted UCI lists against the extracted Rules.v spec and the extracted model')

# ------------------------------------------------------------------ C02 / C05 / C06 share the make family
def make_cases(ps, rng, per=3, pseudo=False):
    """(fen, uci) pairs: moves drawn from the implementation's generator output of the movegen family."""
    obs = V.run_impl('movegen', ps)
    out = []
    for p, o in zip(ps, obs):
        if not o.startswith('L '): continue
        g = parse_movegen(o)
        ms = g['P'] if pseudo else g['L']
        if not ms: continue
        pick = ms if per is None or len(ms) <= per else rng.sample(ms, per)
        out += [p + '\t' + m for m in pick]
    return out

def with_clocks(fen, half, full):
    f = fen.split(' ')
    return ' '.join(f[:4] + [str(half), str(full)])

def c02(res, ctx):
    rng = random.Random(res.seed)
    ps = positions(res.seed, res.tier, 0.5)
    # clock variety
    H = [0, 1, 5, 49, 50, 99, 100, 127, 128, 4095, 4096, 262143, 262144, 10 ** 9]
    F = [1, 2, 77, 2499, 10 ** 6]
    ps2 = [with_clocks(p, rng.choice(H), rng.choice(F)) for p in ps[::3]]
    cases = make_cases(ps + ps2, rng, per=(4 if res.tier == 'quick' else 8))
    impl, model = diff(res, 'make', cases, proj=lambda o: ' '.join(o.split(' ')[:6]))
    spec = V.run_model('spec-make', cases)
    k = 0
    for c, i, s in zip(cases, impl, spec):
        if s in ('NOTLEGAL', 'BADFEN', 'ILLEGAL', 'BADCASE') or i in ('PANIC', 'NOMOVE'):
            res.skipped['spec-make:' + s[:8]] = res.skipped.get('spec-make:' + s[:8], 0) + 1
            continue
        fen_impl = ' '.join(i.split(' ')[:6])
        fen_spec = ' '.join(s.split(' ')[:6])
        if fen_impl != fen_spec:
            if k < MAXREP: res.violation('make', c, fen_spec, fen_impl, 'spec', 'successor position differs from Rules.apply rendered as FEN')
            k += 1
    return dict(rule='(legal position, legal move) pairs; clocks drawn from {0..10^9}; successor FEN compared with FenSpec.render (Rules.apply ..) and with the model')

def attack_configs(rng, tier):
    """every (king square, attacker kind, attacker square) with only the two kings and the attacker on the board:
    exercises every entry of every attack table from the king's side, incl. the wrap-around neighbours of the edge
    files; the side to move is the attacked side, the other king stands far away"""
    out = []
    names = 'abcdefgh'
    def sqn(s): return names[s % 8] + str(8 - s // 8)
    kinds = 'pnbrq'
    for white_attacked in (True, False):
        for k in range(64):
            others = [s for s in range(64) if max(abs(s % 8 - k % 8), abs(s // 8 - k // 8)) >= 3]
            for kind in kinds:
                cands = [a for a in range(64) if a != k and not (kind == 'p' and (a < 8 or a >= 56))]
                if tier == 'quick' and kind in 'brq':
                    cands = rng.sample(cands, 8)
                elif tier == 'quick':
                    # leapers and pawns: all squares at distance <= 2 plus the same / adjacent ranks (wrap-around candidates)
                    cands = [a for a in cands if max(abs(a % 8 - k % 8), abs(a // 8 - k // 8)) <= 2 or abs(a // 8 - k // 8) <= 1]
                for a in cands:
                    ok = [s for s in others if s != a and max(abs(s % 8 - a % 8), abs(s // 8 - a // 8)) >= 1]
                    if not ok: continue
                    ok2 = rng.choice(ok)
                    cells = ['.'] * 64
                    cells[k] = 'K' if white_attacked else 'k'
                    cells[ok2] = 'k' if white_attacked else 'K'
                    cells[a] = kind if white_attacked else kind.upper()
                    rows = []
                    for r in range(8):
                        row, e = '', 0
                        for c in cells[8 * r: 8 * r + 8]:
                            if c == '.': e += 1
                            else:
                                if e: row += str(e); e = 0
                                row += c
                        if e: row += str(e)
                        rows.append(row)
                    out.append('%s %s - - 0 1' % ('/'.join(rows), 'w' if white_attacked else 'b'))
    return out

def c05(res, ctx):
    rng = random.Random(res.seed)
    ps = positions(res.seed, res.tier) + attack_configs(rng, res.tier)
    impl, model = diff(res, 'check', ps)
    spec = V.run_model('spec-check', ps)
    k = 0
    for p, i, s in zip(ps, impl, spec):
        if not s.startswith('W'): continue
        mi = dict((x[0], x[1:]) for x in i.split())
        ms = dict((x[0], x[1:]) for x in s.split())
        side_w = p.split(' ')[1] == 'w'
        exp_e = '1' if (ms['M'] == '1' or ms['S'] == '1') else '0'
        cur = ms['W'] if side_w else ms['B']
        ok = mi.get('W') == ms['W'] and mi.get('B') == ms['B'] and mi.get('C') == cur and mi.get('E') == exp_e \
             and (ms['M'] == '1') == (mi.get('E') == '1' and mi.get('C') == '1') and (ms['S'] == '1') == (mi.get('E') == '1' and mi.get('C') == '0')
        if not ok:
            if k < MAXREP: res.violation('check', p, s, i, 'spec', 'check / mate / stalemate classification differs from the rules')
            k += 1
    # is_valid after every pseudo-legal move + in-check bits after legal moves
    cases = make_cases(ps[::3], rng, per=(6 if res.tier == 'quick' else None), pseudo=True)
    def proj_chk(o):
        f = o.split(' ')
        return ' '.join([f[6]] + f[-2:]) if len(f) >= 12 else o
    impl, model = diff(res, 'make', cases, proj=proj_chk)
    legal_cases = [c for c, i in zip(cases, impl) if len(i.split(' ')) >= 8 and i.split(' ')[6] == '1']
    legal_obs = [i for c, i in zip(cases, impl) if len(i.split(' ')) >= 8 and i.split(' ')[6] == '1']
    spec = V.run_model('spec-make', legal_cases)
    illegal_cases = [c for c, i in zip(cases, impl) if len(i.split(' ')) >= 8 and i.split(' ')[6] == '0']
    spec_ill = V.run_model('spec-make', illegal_cases)
    k = 0
    for c, i, s in zip(legal_cases, legal_obs, spec):
        if s in ('NOTLEGAL', 'BADFEN', 'BADCASE'): continue
        f = i.split(' ')
        if s == 'ILLEGAL':
            if k < MAXREP: res.violation('make', c, 'move is illegal by the rules (leaves own king attacked)', i, 'spec', 'is_valid accepted a position whose mover is in check')
            k += 1
        elif f[-2:] != s.split(' ')[-2:]:
            if k < MAXREP: res.violation('make', c, s, i, 'spec', 'in-check flags after the move differ from the rules')
            k += 1
    for c, s in zip(illegal_cases, spec_ill):
        if s not in ('ILLEGAL', 'NOTLEGAL', 'BADFEN', 'BADCASE'):
            if k < MAXREP: res.violation('make', c, 'legal by the rules: ' + s, 'is_valid = false', 'spec', 'is_valid rejected a legal move')
            k += 1
    return dict(rule='legal positions (games, sampler, KQK/KRK/KPK-style endgames) and every/sampled pseudo-legal move of them')

def c06(res, ctx):
    rng = random.Random(res.seed)
    ps = positions(res.seed, res.tier, 0.6)
    cases = make_cases(ps, rng, per=(5 if res.tier == 'quick' else None))
    def proj_hash(o):
        f = o.split(' ')
        return ' '.join(f[7:11]) if len(f) >= 12 else o
    impl, model = diff(res, 'make', cases, proj=proj_hash)
    k = 0
    by_key = {}
    for c, i in zip(cases, impl):
        f = i.split(' ')
        if len(f) < 12: continue
        if f[7] != f[9] or f[8] != f[10]:
            if k < MAXREP: res.violation('make', c, 'hash %s pawn %s (from scratch)' % (f[7], f[8]), 'incremental %s pawn %s' % (f[9], f[10]), 'property', 'incremental hash differs from the recomputed hash')
            k += 1
        key = ' '.join(f[:4])                  # placement, side, rights, e.p.
        # the hash may depend on the e.p. FILE only, and not on the clocks
        key_h = ' '.join(f[:3]) + ' ' + (f[3][0] if f[3] != '-' else '-')
        if key_h in by_key and by_key[key_h][0] != f[7]:
            if k < MAXREP: res.violation('make', c, by_key[key_h][0] + ' (same position via ' + by_key[key_h][1] + ')', f[7], 'property', 'same placement/side/rights/e.p. file hashes differently')
            k += 1
        by_key.setdefault(key_h, (f[7], c))
    res.notes.append('%d distinct position keys among %d successors (transposition / clock-independence check)' % (len(by_key), len(cases)))
    # single-component differences
    sc = []
    for p in ps[::5]:
        f = p.split(' ')
        variants = []
        variants.append(' '.join([f[0], 'b' if f[1] == 'w' else 'w'] + f[2:]))
        for r in 'KQkq':
            if r in f[2]:
                nr = f[2].replace(r, '') or '-'
                variants.append(' '.join(f[:2] + [nr] + f[3:]))
        # e.p. file: two double-pushed pawns with free squares behind them give two legal e.p. states of one placement
        rows = f[0].split('/')
        def expand(r):
            return ''.join('.' * int(c) if c.isdigit() else c for c in r)
        grid = [expand(r) for r in rows]
        if f[1] == 'b':
            files = [i for i in range(8) if grid[4][i] == 'P' and grid[5][i] == '.' and grid[6][i] == '.']
            eps = ['abcdefgh'[i] + '3' for i in files]
        else:
            files = [i for i in range(8) if grid[3][i] == 'p' and grid[2][i] == '.' and grid[1][i] == '.']
            eps = ['abcdefgh'[i] + '6' for i in files]
        base_ep = ' '.join(f[:3] + ['-'] + f[4:])
        for e in eps[:3]:
            variants_ep = ' '.join(f[:3] + [e] + f[4:])
            sc.append(base_ep + '\t' + variants_ep)
        for a in range(len(eps)):
            for b2 in range(a + 1, len(eps)):
                sc.append(' '.join(f[:3] + [eps[a]] + f[4:]) + '\t' + ' '.join(f[:3] + [eps[b2]] + f[4:]))
        for v in variants:
            sc.append(p + '\t' + v)
    snaps = V.run_impl('fen', [c.split('\t')[0] for c in sc])   # only to make sure they parse
    h1 = hashes([c.split('\t')[0] for c in sc]); h2 = hashes([c.split('\t')[1] for c in sc])
    res.count('zobrist-single', sc)
    k = 0
    for c, a, b in zip(sc, h1, h2):
        if a and b and a == b:
            if k < MAXREP: res.violation('zobrist-single', c, 'different hashes', a, 'property', 'positions differing in exactly one component hash identically')
            k += 1
    return dict(rule='every/sampled legal move of legal positions: from-scratch hash of the successor vs hash ^ zobrist_xor; grouping successors by (placement, side, rights, e.p. file); single-component toggles')

def hashes(fens):
    """zobrist hash of positions via the unmake family with an empty line (snapshot carries the hash)."""
    obs = V.run_impl('unmake', [f + '\t' for f in fens])
    out = []
    for o in obs:
        parts = o.split(' | ')
        out.append(parts[0].split(' ')[-2] if len(parts) == 3 else None)
    return out

# ------------------------------------------------------------------ C03
def c03(res, ctx):
    rng = random.Random(res.seed)
    ps = positions(res.seed, res.tier, 0.5)
    H = list(range(0, 140)) + [255, 256, 1000, 2047, 2048, 4094, 4095]
    ps = [with_clocks(p, rng.choice(H), int(p.split(' ')[5])) if rng.random() < 0.7 else p for p in ps]
    cases = make_cases(ps, rng, per=(6 if res.tier == 'quick' else None), pseudo=True)
    # lines: random legal games from some positions, last move pseudo-legal
    lines = []
    gp = V.gen_positions('games', res.seed + 77, 120 if res.tier == 'quick' else 3000)
    lines = line_cases(gp, rng, 1, 60 if res.tier == 'quick' else 200)
    cases += lines
    def proj_ba(o):
        parts = o.split(' | ')
        return parts[0] + ' | ' + parts[2] if len(parts) == 3 else o
    impl, model = diff(res, 'unmake', cases, proj=proj_ba)
    k = 0
    for c, i in zip(cases, impl):
        parts = i.split(' | ')
        if len(parts) != 3:
            continue
        f0 = c.split('\t')[0].split(' ')
        nmoves = len(c.split('\t')[1].split(' '))
        if int(f0[4]) + nmoves > 4096:
            res.skipped['clock leaves 0..4095 along the line'] = res.skipped.get('clock leaves 0..4095 along the line', 0) + 1
            continue
        if parts[0] != parts[2]:
            if k < MAXREP: res.violation('unmake', c, parts[0], parts[2], 'property', 'make followed by unmake does not restore the position')
            k += 1
    return dict(rule='every/sampled pseudo-legal move of legal positions with half-move clocks over 0..4095 (all of 0..139 plus boundary values), and random legal lines of 1..200 plies unmade in reverse; snapshot = FEN + 12 bitboards + both hashes')

def line_cases(ps, rng, lo, hi):
    """random legal lines played with the implementation's legal move lists (one harness call per ply batch)."""
    cur = [(p, []) for p in ps]
    target = [rng.randint(lo, hi) for _ in ps]
    done = []
    fens = list(ps)
    alive = list(range(len(ps)))
    for ply in range(hi):
        if not alive: break
        obs = V.run_impl('movegen', [fens[i] for i in alive])
        mk = []
        nxt = []
        for i, o in zip(alive, obs):
            g = parse_movegen(o) if o.startswith('L ') else {'L': []}
            if not g['L'] or len(cur[i][1]) >= target[i]:
                continue
            m = rng.choice(g['L'])
            cur[i][1].append(m)
            mk.append(fens[i] + '\t' + m); nxt.append(i)
        if not nxt: break
        outs = V.run_impl('make', mk)
        alive = []
        for i, o in zip(nxt, outs):
            f = o.split(' ')
            if len(f) >= 8:
                fens[i] = ' '.join(f[:6]); alive.append(i)
    return [p + '\t' + ' '.join(ms) for p, ms in cur if ms]

# ------------------------------------------------------------------ C12
def fen_mutations(rng, valid, n):
    out = []
    bad_chars = ['x', '9', '0', ' ', '/', 'K', '-', '١', '１', 'Z', '+', '\t', '\n', 'é']
    for _ in range(n):
        s = rng.choice(valid)
        f = s.split(' ')
        r = rng.random()
        if r < 0.10: f = f[:rng.randint(1, 5)]
        elif r < 0.15: f = f + [rng.choice(['0', 'x', '1'])]
        elif r < 0.30:
            i = rng.randrange(len(s)); s2 = s[:i] + rng.choice(bad_chars) + s[i + 1:]; out.append(s2); continue
        elif r < 0.40:
            i = rng.randrange(len(s)); out.append(s[:i] + s[i + 1:]); continue
        elif r < 0.50:
            i = rng.randrange(len(s)); out.append(s[:i] + rng.choice(bad_chars) + s[i:]); continue
        elif r < 0.58: f[0] = f[0].replace('8', rng.choice(['7', '9', '44', '35', '53', '17']), 1)
        elif r < 0.64: f[2] = rng.choice(['QK', 'kK', 'KQkqq', 'KK', '', 'qk', 'Kqk'])
        elif r < 0.70: f[3] = rng.choice(['e9', 'i3', 'e', '33', 'E3', 'e33', ''])
        elif r < 0.82 and len(f) == 6:
            f[rng.choice([4, 5])] = rng.choice(['+1', '-1', '007', '4294967295', '4294967296', '99999999999', '1e3', '١٢', '12345678901234567890', '', ' '])
        elif r < 0.88: f[1] = rng.choice(['W', 'x', 'wb', ''])
        elif r < 0.94: s2 = ' ' + s if rng.random() < 0.5 else s + ' '; out.append(s2); continue
        else: out.append(s.replace(' ', '  ', 1)); continue
        out.append(' '.join(f))
    # systematic rank faults at EVERY offset of a rank: two adjacent digits (sum still 8), and sums of 7 / 9
    base = rng.sample(valid, min(len(valid), 6))
    for s in base:
        f = s.split(' ')
        rows = f[0].split('/')
        for o in range(0, 7):
            for d1 in range(1, 8 - o):
                for d2 in range(1, 9 - o - d1):
                    rest = 8 - o - d1 - d2
                    rank = 'P' * o + str(d1) + str(d2) + 'p' * rest
                    ri = rng.randrange(1, 7)
                    out.append(' '.join(['/'.join(rows[:ri] + [rank] + rows[ri + 1:])] + f[1:]))
        for o in range(0, 8):
            for total in (7, 9):
                k = total - o
                if 1 <= k <= 8:
                    rank = 'n' * o + str(k)
                    out.append(' '.join(['/'.join(rows[:3] + [rank] + rows[4:])] + f[1:]))
    return out

def c12(res, ctx):
    from common import esc
    rng = random.Random(res.seed)
    ps = positions(res.seed, res.tier, 0.7)
    big = [0, 1, 9, 10, 99, 100, 4095, 65535, 65536, 2 ** 31, 2 ** 32 - 1]
    valid = []
    for p in ps:
        f = p.split(' ')
        valid.append(p)
        if rng.random() < 0.3: valid.append(' '.join(f[:4]))                      # 4-field form
        if rng.random() < 0.3: valid.append(' '.join(f[:4] + [str(rng.choice(big)), str(rng.choice(big[1:]))]))
    valid += ['startpos']
    muts = fen_mutations(rng, [v for v in valid if v != 'startpos'], len(valid) // 2 if res.tier == 'quick' else len(valid))
    rnd = [''.join(rng.choice('PNBRQKpnbrqk12345678/ wb-KQkqabcdefgh09') for _ in range(rng.randint(0, 70))) for _ in range(300 if res.tier == 'quick' else 20000)]
    cases = [esc(x) for x in V.corpus_raw('fen')] if hasattr(V, 'corpus_raw') else []
    cases += [esc(x) for x in valid + muts + rnd]
    impl, model = diff(res, 'fen', cases)
    spec = V.run_model('spec-fen', cases)
    k = 0
    for c, i, s in zip(cases, impl, spec):
        if i == 'PANIC':
            if k < MAXREP: res.violation('fen', c, 'Ok or Err', 'PANIC', 'property', 'the FEN parser panicked')
            k += 1; continue
        if c == 'startpos': continue
        si = i.split(' '); ss = s.split(' ')
        if s == 'err':
            if i != 'err':
                if k < MAXREP: res.violation('fen', c, 'err (not grammatical)', i, 'spec', 'a string outside the FEN grammar was accepted')
                k += 1
            continue
        # grammatical: must be accepted when the clocks fit u32
        fits = all(int(x) < 2 ** 32 for x in ss[5:7])
        if i == 'err':
            if fits:
                if k < MAXREP: res.violation('fen', c, s, 'err', 'spec', 'a grammatical FEN was rejected')
                k += 1
            continue
        # decoded position: cells, side, rights, ep, clocks ; printed = canonical
        ok = si[1:7] == ss[1:4] + [ss[4], ss[5], ss[6]] and ' '.join(si[7:]) == ' '.join(ss[7:])
        if not ok:
            if k < MAXREP: res.violation('fen', c, s, i, 'spec', 'decoded position or printed FEN differs from the FEN denotation')
            k += 1
    return dict(rule='valid: FENs of generated legal positions in 6- and 4-field form with clocks up to 2^32-1; invalid: single-fault mutations (field drop/dup, bad characters incl. non-ASCII digits, rank sums, castling order, e.p., clocks with sign/overflow, whitespace) and random strings over the FEN alphabet')

# ------------------------------------------------------------------ C13
def c13(res, ctx):
    from common import esc
    rng = random.Random(res.seed)
    ps = positions(res.seed, res.tier, 0.25)
    files = 'abcdefgh'; ranks = '12345678'
    def rand_uci():
        return rng.choice(files) + rng.choice(ranks) + rng.choice(files) + rng.choice(ranks) + rng.choice(['', '', '', 'q', 'r', 'b', 'n', 'k'])
    cases = []
    mg = V.run_impl('movegen', ps)
    for p, o in zip(ps, mg):
        if not o.startswith('L '): continue
        g = parse_movegen(o)
        legal, pseudo = g['L'], g['P']
        illegal = [m for m in pseudo if m not in legal]
        texts = set(rng.sample(legal, min(len(legal), 3)) + illegal[:4] + [rand_uci() for _ in range(4 if res.tier == 'quick' else 40)])
        # promotion letter missing / superfluous
        for m in legal[:6]:
            texts.add(m[:4] if len(m) == 5 else m + 'q')
        texts |= {'', ' ', 'e2e4 ', ' e2e4', 'E2E4', 'e2-e4', 'e2e', 'e2e4qq', '0000', 'e9e4', 'i2i4', 'é2e4', 'e2e4\n'}
        for t in texts:
            api = rng.choice(['find', 'make', 'pgn', 'twice'])
            cases.append(p + '\t' + api + '\t' + esc(t))
        # move lists with a faulty move at a random index
        if legal and rng.random() < 0.5:
            pass
    # make_all_uci: legal lines with one corrupted entry
    gp = V.gen_positions('games', res.seed + 5, 60 if res.tier == 'quick' else 1500)
    for lc in line_cases(gp, rng, 1, 12):
        p, ms = lc.split('\t'); ms = ms.split(' ')
        cases.append(p + '\tmakeall\t' + esc(' '.join(ms)))
        j = rng.randrange(len(ms))
        bad = list(ms); bad[j] = rng.choice([rand_uci(), 'zzzz', ms[j] + 'q', ms[j][2:4] + ms[j][0:2]])
        cases.append(p + '\tmakeall\t' + esc(' '.join(bad)))
    # SAN parser stream
    impl, model = diff(res, 'ucistr', cases)
    before = hashes_snap([c.split('\t')[0] for c in cases])
    k = 0
    for c, i, b in zip(cases, impl, before):
        if ' | ' not in i:
            if i == 'PANIC':
                if k < MAXREP: res.violation('ucistr', c, 'no panic', i, 'property', 'move-string API panicked')
                k += 1
            continue
        r, snap = i.split(' | ', 1)
        api = c.split('\t')[1]
        changed = snap != b
        noclock = lambda s: ' '.join(x for j, x in enumerate(s.split(' ')) if j != 4)
        if changed and noclock(snap) == noclock(b) and int(c.split('\t')[0].split(' ')[4]) + len(c.split('\t')[2].split(' ')) >= 4096:
            # known finding halfmove_ge_4096 (listed in known_findings.txt): a make/unmake pair at a clock >= 4096
            res.skipped['known finding halfmove_ge_4096 (clock reaches 4096 during the call)'] = res.skipped.get('known finding halfmove_ge_4096 (clock reaches 4096 during the call)', 0) + 1
            continue
        if api in ('find', 'twice', 'pgn', 'san') and changed:
            if k < MAXREP: res.violation('ucistr', c, b, snap, 'property', 'a query / rejected move changed the position')
            k += 1
        elif api in ('make', 'makeall') and not r.startswith('ok') and changed:
            if k < MAXREP: res.violation('ucistr', c, b, snap, 'property', 'a rejected move (list) changed the position')
            k += 1
        elif api == 'twice' and '/' in r and r.split('/')[0] != r.split('/')[1]:
            if k < MAXREP: res.violation('ucistr', c, 'same answer twice', r, 'property', 'repeated call gave a different answer')
            k += 1
    # applied iff legal (spec): find/make accept exactly the legal moves of the rules
    fm = [(c, i) for c, i in zip(cases, impl) if c.split('\t')[1] in ('find', 'make') and ' | ' in i]
    fens = sorted(set(c.split('\t')[0] for c, _ in fm))
    spec = dict(zip(fens, V.run_model('spec-movegen', fens)))
    from common import unesc
    k = 0
    for c, i in fm:
        s = spec[c.split('\t')[0]]
        if not s.startswith('L '): continue
        legal = set(parse_movegen(s)['L'])
        text = unesc(c.split('\t')[2]).strip()
        acc = i.startswith('ok')
        if acc != (text in legal):
            if k < MAXREP: res.violation('ucistr', c, 'accept' if text in legal else 'reject', i.split(' | ')[0], 'spec', 'move string accepted/rejected against the rules')
            k += 1
    return dict(rule='per position: legal, pseudo-legal-but-illegal, random 64x64x{none,q,r,b,n,k} and malformed strings through find_uci / make_uci / uci_to_pgn / two consecutive calls; make_all_uci on legal lines with a corrupted entry at a random index; snapshot before/after')

def hashes_snap(fens):
    uniq = sorted(set(fens))
    obs = V.run_impl('unmake', [f + '\t' for f in uniq])
    d = {}
    for f, o in zip(uniq, obs):
        parts = o.split(' | ')
        d[f] = parts[0] if len(parts) == 3 else None
    return [d[f] for f in fens]

# ------------------------------------------------------------------ simple model-vs-implementation families
def generic(family, module, rule, level='property'):
    def run(res, ctx):
        gen = importlib.import_module(module)
        rng = random.Random(res.seed)
        cases = V.corpus(family) + gen.gen(rng, res.tier)
        nt = getattr(gen, 'nontrivial', None)
        diff(res, family, cases, nontrivial=nt, level=level)
        return dict(rule=rule)
    return run

def c18(res, ctx):
    out = generic('table', 'gen_table', 'corpus + random put/get/clear/len histories (capacities 1..8 and 1000, key universe 2..20) + all short sequences over 3 keys; non-trivial = more distinct put keys than the capacity and at least one observation')(res, ctx)
    # property-level oracle on the implementation output itself is the FifoMap spec: proved equal to the model (C18_refines)
    return out

def c10(res, ctx):
    out = generic('history', 'gen_history', 'corpus + random/adversarial hash histories (2..4 distinct values, all window/parity/boundary cases, u16 cast wrap, indices up to 5001)')(res, ctx)
    return out

def c04(res, ctx):
    import subprocess
    rng = random.Random(res.seed)
    dump = os.path.join(V.BUILD, 'tables.dump')
    masks = {}
    for line in open(dump):
        f = line.split(' ', 8)
        if f[0] == 'magic':
            masks[(int(f[1]), int(f[2]))] = int(f[3])
    cases = []
    for (kind, sq), mask in sorted(masks.items()):
        bits = [i for i in range(64) if mask >> i & 1]
        for n in range(1 << len(bits)):
            occ = 0
            for j, b in enumerate(bits):
                if n >> j & 1: occ |= 1 << b
            cases.append('%d\t%d\t%x' % (kind, sq, occ))
    reduced = len(cases)
    for _ in range(100000 if res.tier == 'quick' else 2000000):
        cases.append('%d\t%d\t%x' % (rng.randint(0, 1), rng.randint(0, 63), rng.getrandbits(64) & rng.getrandbits(64) if rng.random() < 0.5 else rng.getrandbits(64)))
    impl, model = diff(res, 'magic', cases, level='property')
    rel = V.run_impl('magic', cases[:reduced], release=True)
    k = 0
    for c, a, b in zip(cases, impl, rel):
        if a != b:
            if k < MAXREP: res.violation('magic', c, a, b, 'debug vs release', 'debug and release builds disagree')
            k += 1
    for c, i in zip(cases, impl):
        if i.endswith('OOR'):
            if k < MAXREP: res.violation('magic', c, 'index inside the table', i, 'property', 'magic index outside the attack table (unchecked lookup would be UB)')
            k += 1
    res.exhaustive = True
    res.notes.append('all %d reduced (square, blocker subset) configurations enumerated' % reduced)
    # independent recomputation of ray/step attacks over the dump: names a concrete failing entry if a sweep obligation broke
    rc, out = V.sh(['python3', os.path.join(V.ROOT, 'checks', 'c04_find_bad.py'), dump])
    out = out.strip()
    if out and out != 'null':
        try:
            w = json.loads(out.split('\n')[-1])
            res.violation('magic', '%s\t%s\t%x' % (w.get('kind'), w.get('sq'), w.get('occ', 0)) if 'occ' in w else json.dumps(w), str(w.get('expected')), str(w.get('got')), 'ray/step attacks', w.get('reason', 'table entry differs from the ray/step attacks'))
        except Exception:
            res.notes.append('c04_find_bad: ' + out[-300:])
    return dict(rule='exhaustive: every subset of every square\'s relevant-blocker mask for rooks and bishops (index and lookup through the hook, debug and release) plus random full 64-bit occupancies; the 4x64 leaper entries are covered by the regenerated Coq sweep and c04_find_bad.py')

def c17(res, ctx):
    return generic('pgn', 'gen_pgn', 'Lichess-layout files (1-6 games, castling tokens, comments, every result token, with/without trailing newline) x chunk sizes {1,2,3,5,7,64,8192,..} x random read fragmentations, plus malformed files')(res, ctx)

def c14(res, ctx):
    import gen_san
    rng = random.Random(res.seed)
    ps = positions(res.seed, res.tier, 0.35)
    mg = V.run_impl('movegen', ps)
    legal = {p: parse_movegen(o)['L'] for p, o in zip(ps, mg) if o.startswith('L ')}
    cases = V.corpus('san') + gen_san.gen(rng, res.tier, legal)
    impl, model = diff(res, 'ucistr', cases, nontrivial=gen_san.nontrivial)
    spec_w = [gen_san.spec_case(c) for c in cases]
    outs = {}
    for fam in ('spec-san', 'spec-sanparse'):
        idx = [i for i, (f, _) in enumerate(spec_w) if f == fam]
        o = V.run_model(fam, [spec_w[i][1] for i in idx])
        for i, x in zip(idx, o): outs[i] = x
    k = 0
    tags = {}
    for i, (c, o) in enumerate(zip(cases, impl)):
        if ' | ' not in o:
            continue
        v = gen_san.compare(c, o, outs[i])
        if v is None: continue
        if v in ('A', 'B', 'C'):
            tags[v] = tags.get(v, 0) + 1; continue
        if k < MAXREP: res.violation('ucistr', c, outs[i], o.split(' | ')[0], 'spec', v)
        k += 1
    res.notes.append('reader leniencies on NON-standard text (outside the property, not violations): ' + json.dumps(tags))
    return dict(rule='writer: every/sampled legal move of generated positions plus constructed positions stressing disambiguation (2-4 like pieces on shared/unrelated files and ranks, pinned rivals, three promoting pawns, e.p. with two capturers, mating/stalemating/checking moves, castling with check); reader: the standard text and variants (x, +/#, over-disambiguation, annotations) and garbage; oracle = extracted SanSpec')

def c15(res, ctx):
    import gen_uci
    rng = random.Random(res.seed)
    cases = V.corpus('uciparse') + gen_uci.gen(rng, res.tier)
    impl, model = diff(res, 'uciparse', cases, nontrivial=getattr(gen_uci, 'nontrivial', None), level='property')
    rel = V.run_impl('uciparse', cases, release=True)
    mv = V.corpus('ucimove') + gen_uci.gen_moves(rng, res.tier)
    impl2, model2 = diff(res, 'ucimove', mv, level='property')
    rel2 = V.run_impl('ucimove', mv, release=True)
    k = 0
    for fam, cs, a, b in (('uciparse', cases, impl, rel), ('ucimove', mv, impl2, rel2)):
        for c, x, y in zip(cs, a, b):
            if x == 'PANIC' or y == 'PANIC':
                if k < MAXREP: res.violation(fam, c, 'Ok or Err', 'PANIC', 'property', 'the UCI reader panicked (%s build)' % ('debug' if x == 'PANIC' else 'release'))
                k += 1
            elif x != y:
                if k < MAXREP: res.violation(fam, c, x, y, 'debug vs release', 'debug and release builds parse differently')
                k += 1
    return dict(rule='command lines rendered from random commands with random layouts (every go parameter subset and order), token-level mutations, case changes, White_Space and non-ASCII characters, random strings; all 64x64x7 move texts in thorough; debug and release builds')

def c19(res, ctx):
    out = generic('lichess', 'gen_lichess', 'documents generated from the documented API shapes (every variant, sampled subsets of optional fields, all enumerated keys, move lists of 0-400 tokens, JSON escapes, unknown extra fields, shuffled order, null optionals) plus a malformed stream')(res, ctx)
    if not ctx.get('coq_ok', True) or True:
        # the regenerated obligation C19_schemas: when it fails, find_bad names the field; build the witness document
        pass
    return out

def _engine(name):
    def run(res, ctx):
        import engine_props
        return getattr(engine_props, name)(res, ctx)
    return run

def c10_full(res, ctx):
    out = c10(res, ctx)
    import engine_props
    engine_props.c10_engine(res)
    return out

CHECKS = {'C14': c14, 'C15': c15, 'C19': c19, 'C04': c04, 'C07': _engine('c07'), 'C08': _engine('c08'), 'C09': _engine('c09'), 'C11': _engine('c11'), 'C16': _engine('c16'), 'C17': c17, 'C01': c01, 'C02': c02, 'C03': c03, 'C05': c05, 'C06': c06, 'C10': c10_full, 'C12': c12, 'C13': c13, 'C18': c18}

LEGAL = 'board hypotheses of the theorems: wf b (bitboards disjoint and < 2^64, one king per side) and legal_pos (abs b) -- every position reachable in play satisfies them (C02_legal_pos_preserved); FEN inputs outside them are compared only by the correspondence run'
CLOCK = 'half-move clock < 4096 (12-bit previous-halfmove field of Move); beyond it: known finding halfmove_ge_4096'
GOODC = 'search theorems: good_chess / good_c10 = wf, rights consistent, e.p. square free, side not to move not in check, half-move clock + iterations + 130 < 4096'
ORACLE = 'the runtime (arrival of stop/quit, inbox contents at each poll, clock readings, OS scheduling, channel delivery) enters as a universally quantified oracle'
KEYS = '64-bit Zobrist keys identify positions wherever positions are compared by key (no collision); per position discharged by the decidable checker ply_unique_clock_check where stated'
ASSUME = {
    'C01': [LEGAL, 'Rules.v is the reading of the FIDE laws (validated against published perft numbers)'],
    'C02': [LEGAL, 'clocks below u32::MAX (known finding clock_at_u32_max)'],
    'C03': ['wf b, rights_wf b (a held castling right implies king and rook at home)', CLOCK],
    'C04': ['sq < 64; the tables are those dumped from the compiled crate through the cfg hook'],
    'C05': [LEGAL],
    'C06': ['wf b, castle_wf, ep_wf for the incremental statement; regenerated obligations keys_ok / keys_rows_ok / gen_masks_ok'],
    'C07': [GOODC, ORACLE, 'full-move number + side to move < 2^25 (known finding fullmove_ge_2p25)'],
    'C08': [GOODC, KEYS, 'quiet oracle (no interruption) and plain go depth d for the exactness statements; full-move + depth < 2^24; no tree key equals 0 after position fen'],
    'C09': [GOODC, ORACLE, 'the hook abort point sits where the real flag is polled'],
    'C10': [GOODC, KEYS],
    'C11': ['wf b; search part: legal_pos and full-move + depth < 2^20; full-move < 2^23 for mate scores (known finding fullmove_ge_2p23)'],
    'C12': ['clocks < 2^32 for acceptance; FenSpec.v is the reading of the FEN grammar'],
    'C13': [LEGAL, CLOCK],
    'C14': [LEGAL, 'SanSpec.v is the reading of FIDE appendix C / PGN 8.2.3; non-standard SAN texts are outside the property'],
    'C15': ['UciSpec.v is the reading of the UCI protocol text (GUI to engine)'],
    'C16': [GOODC, ORACLE, KEYS + ' (pv legality)', 'UciOut.v is the reading of the UCI protocol text (engine to GUI); stdout interleaving of two threads is not modelled'],
    'C17': ['std::io::Read contract: 1..=buf.len() bytes or 0 at end of input', LEGAL + ' (replay part)'],
    'C18': ['std HashMap/VecDeque behave as a map and a queue', 'capacity >= 1'],
    'C19': ['LichessApi.v is the transcription of the documented Bot API shapes; serde_derive semantics as modelled in Serde.v'],
}

def find_bad(pid, res):
    """A regenerated proof obligation broke: look for a concrete property-level input that fails on the implementation."""
    dump = os.path.join(V.BUILD, 'tables.dump')
    if pid == 'C06':
        rc, out = V.sh(['python3', os.path.join(V.ROOT, 'checks', 'c06_find_bad.py'), dump])
        line = out.strip().split('\n')[-1] if out.strip() else 'null'
        if line != 'null':
            w = json.loads(line)
            fens = [w.get(k) for k in ('fen1', 'fen2') if w.get(k)] or w.get('fens') or []
            note = w.get('reason', 'zobrist key tables violate keys_ok')
            if len(fens) == 2 and w.get('well_formed', True):
                hs = hashes(fens)
                if hs[0] and hs[0] == hs[1]:
                    res.violation('zobrist-single', fens[0] + '\t' + fens[1], 'different hashes', hs[0], 'property', note + ' (confirmed on the implementation)')
                    return
            res.violation('zobrist-keys', json.dumps(w)[:1500], None, None, 'coq', note)
    if pid == 'C19':
        rc, out = V.sh(['python3', os.path.join(V.ROOT, 'checks', 'c19_find_bad.py'), '--repo', V.REPO])
        line = out.strip().split('\n')[-1] if out.strip() else 'null'
        if line != 'null':
            from common import esc
            w = json.loads(line)
            wit = w.get('witness') or {}
            case = '%s\t%s' % (wit.get('kind', 'game'), esc(wit.get('text', '')))
            obs = V.run_impl('lichess', [case])[0]
            res.violation('lichess', case, 'the documented field %s is decoded' % '.'.join(w.get('path', [])), obs, 'spec', w.get('reason', 'documented shape not decodable'))
    if pid == 'C11':
        rc, out = V.sh(['python3', os.path.join(V.ROOT, 'checks', 'c11_find_bad.py'), dump])
        line = out.strip().split('\n')[-1] if out.strip() else 'null'
        if line != 'null':
            w = json.loads(line)
            fens = w.get('fens') or (w.get('witness') or {}).get('fens')
            if fens and len(fens) == 2:
                ev = V.run_impl('eval', [fens[0] + '\t1', fens[1] + '\t1'])
                res.violation('eval', fens[0] + ' || ' + fens[1], 'opposite static evaluations', ' / '.join(ev), 'property', 'piece-square tables are not mirror images: ' + str(w.get('reason', w))[:300])
            else:
                res.violation('eval-tables', json.dumps(w)[:1200], None, None, 'coq', 'piece-square table obligation pst_mirror_ok fails: ' + str(w.get('reason', ''))[:300])
    if pid == 'C10':
        rc, out = V.sh("grep -n 'MAX_HALF_MOVES' %s" % os.path.join(V.REPO, 'engine_core/src/engine/heuristic.rs'))
        res.notes.append('MAX_HALF_MOVES in source: ' + out.strip()[:200])

def run_check(pid, tier, seed):
    res = V.Result(pid, tier, seed)
    V.RUN_TIMEOUT[0] = 900 if tier == 'quick' else 6000
    if pid not in CHECKS:
        print('no check registered for', pid); return 2
    try:
        coq_ok, coq_log = V.sync()
    except V.BuildError as e:
        # the harness / translator cannot process the tree: the tie is broken
        res.violation('build', None, None, None, 'build', 'cannot build %s against the current tree: %s' % (e.stage, e.log[-1500:]), suffix='no-failing-input-found')
        return V.finish(res, {'obligations': 1, 'discharged': 0, 'axioms': [], 'theorems': [], 'errors': [e.stage]}, rule='build failed')
    proofs = V.check_proofs(pid, coq_ok, coq_log)
    extra = {}
    try:
        extra = CHECKS[pid](res, {'coq_ok': coq_ok}) or {}
        # adaptive sampling: the source text behind this property's hand model differs from the text the model was
        # written against -> draw further samples with other seeds (no alarm by itself; bounded by a time budget)
        changed = V.changed_sources(pid)
        if changed:
            res.notes.append('source text changed since the models were written (%s): extra sampling rounds' % ', '.join(changed)[:400])
            for k in (1, 2, 3):
                if res.violations or time.time() - res.t0 > (420 if tier == 'quick' else 3600):
                    break
                res.seed = seed + 7919 * k
                CHECKS[pid](res, {'coq_ok': coq_ok})
            res.seed = seed
    except V.BuildError as e:
        res.violation('run', None, None, None, 'build', 'family run failed at %s: %s' % (e.stage, e.log[-1500:]), suffix='no-failing-input-found')
    except Exception as e:
        # the observations of the implementation could not be processed (unexpected shape): the correspondence is not
        # established; reported rather than crashing without a verdict
        import traceback
        res.violation('run', None, None, None, 'correspondence', 'the check could not process the observations of the implementation: %r\n%s' % (e, traceback.format_exc()[-1500:]), suffix='no-failing-input-found')
    if res.ties and not res.violations:
        fam, c, pm, pi = res.ties[0]
        res.violation(fam, None, None, None, 'correspondence', 'the correspondence model/implementation of family %s no longer holds (%d case(s), first: %r model=%r implementation=%r) but no input was found on which the property itself fails' % (fam, len(res.ties), c[:300], pm[:300], pi[:300]), suffix='no-failing-input-found')
    if proofs['errors'] and not res.violations:
        try:
            find_bad(pid, res)
        except Exception as e:
            res.notes.append('find_bad failed: %r' % (e,))
    if proofs['errors'] and not res.violations:
        res.violation('proof', None, None, None, 'coq', 'proof obligation(s) of %s no longer check: %s' % (pid, ' ; '.join(proofs['errors'])[:3000]), suffix='no-failing-input-found')
    elif proofs['errors']:
        res.notes.append('proof obligations broken: ' + ' ; '.join(proofs['errors'])[:2000])
    for x in V.known_findings():
        if x.get('property') == pid:
            res.known.append('class=%s witness=%s %s' % (x.get('class'), x.get('witness'), x.get('text')))
    rule = extra.pop('rule', '')
    res.notes += V.GEN_FALLBACK
    extra['extraction_crosscheck_lines'] = res.vm_lines
    if DIST: extra['input_distribution'] = dict(DIST)
    if tier == 'thorough':
        ok, report = V.coqchk(pid)
        extra['coqchk'] = {'ok': ok, 'report': report}
        if ok is None:
            res.notes.append(report)
        elif not ok:
            res.violation('proof', None, None, None, 'coqchk', 'coqchk rejects the compiled property file: ' + report[-600:], suffix='no-failing-input-found')
    return V.finish(res, proofs, rule=rule, assumptions=ASSUME.get(pid, []), extra=extra)

def replay(path):
    rep = json.load(open(os.path.join(V.ROOT, path)) if not os.path.isabs(path) else open(path))
    V.build_harness()
    fam = rep.get('family'); case = rep.get('input')
    if not case or fam in (None, 'build', 'proof', 'run'):
        print('nothing to run: ', rep.get('note')); return 0
    try:
        out = V.run_impl(fam, [case])[0]
    except Exception as e:
        out = 'ERROR %s' % e
    print('family  :', fam); print('input   :', case); print('expected:', rep.get('expected')); print('recorded:', rep.get('actual')); print('now     :', out)
    return 0

"""Engine-level checks (C07, C08, C09, C10 engine part, C11, C16): sessions against the in-process engine (harness
family `session`), judged at the property level with the Spec (legal moves by spec-movegen), the reference evaluator
(harness family `refsearch`) and the extracted UCI output grammar (spec-engineline, when present)."""
import random, re
import verify as V
from props import positions, parse_movegen, MAXREP, diff

def norm(line):
    line = re.sub(r'\btime \d+', 'time T', line)
    return re.sub(r'\bnps \d+', 'nps X', line)

def split_session(obs):
    return [l for l in obs.split(' ;; ') if l and not l.startswith('DEBUG:')]

def parse_info(l):
    d = {}
    w = l.split(' ')
    i = 1
    keys = {'depth', 'seldepth', 'time', 'nodes', 'pv', 'multipv', 'score', 'currmove', 'currmovenumber', 'hashfull', 'nps', 'tbhits', 'sbhits', 'cpuload', 'string', 'refutation', 'currline'}
    while i < len(w):
        k = w[i]; i += 1
        if k == 'string':
            d[k] = ' '.join(w[i:]); break
        vals = []
        while i < len(w) and w[i] not in keys:
            vals.append(w[i]); i += 1
        d[k] = vals
    return d

def no_answer(res, case, o):
    """a search that was asked for produced no bestmove line at all (hang, panic, dead search thread): never skipped silently"""
    n = getattr(res, '_noanswer', 0)
    if n < MAXREP:
        res.violation('session', case, 'a bestmove line', o[-400:], 'property', 'the engine did not answer a go (hang, panic or dead search thread)')
    res._noanswer = n + 1

def searches(lines):
    """split a session's lines into per-go groups: (infos, bestmove line)"""
    out, cur = [], []
    for l in lines:
        if l.startswith('info'):
            cur.append(l)
        elif l.startswith('bestmove'):
            out.append((cur, l)); cur = []
    return out, cur

def flip_fen(fen):
    f = fen.split(' ')
    rows = f[0].split('/')[::-1]
    placement = '/'.join(''.join(c.lower() if c.isupper() else c.upper() for c in r) for r in rows)
    side = 'b' if f[1] == 'w' else 'w'
    rights = ''.join(sorted((c.lower() if c.isupper() else c.upper() for c in f[2]), key='KQkq'.index)) if f[2] != '-' else '-'
    ep = f[3] if f[3] == '-' else f[3][0] + str(9 - int(f[3][1]))
    return ' '.join([placement, side, rights, ep] + f[4:])

def flip_move(m):
    return m[0] + str(9 - int(m[1])) + m[2] + str(9 - int(m[3])) + m[4:]

def legal_sets(fens):
    uniq = sorted(set(fens))
    spec = V.run_model('spec-movegen', uniq)
    d = {}
    for f, s in zip(uniq, spec):
        d[f] = set(parse_movegen(s)['L']) if s.startswith('L ') else None
    return d

def small_positions(res, n, seed_off=0, far_from_fifty=True):
    ps = V.gen_positions('games', res.seed + 100 + seed_off, n) + V.gen_positions('special', res.seed + 200 + seed_off, n // 2) + V.gen_positions('endgames', res.seed + 300 + seed_off, n // 2)
    out = []
    for p in ps:
        f = p.split(' ')
        if far_from_fifty:
            f[4] = str(min(int(f[4]), 20))
        f[5] = str(min(int(f[5]), 200))
        out.append(' '.join(f))
    return out

def terminal_positions(res, n):
    """mate and stalemate positions (no legal move) among generated few-piece endgames"""
    ends = V.gen_positions('endgames', res.seed + 900, n)
    chk = V.run_impl('check', ends)
    out = []
    for p, o in zip(ends, chk):
        if o.endswith('E1'):
            f = p.split(' '); f[4] = str(min(int(f[4]), 20)); out.append(' '.join(f))
    return out

def model_sessions(res, positions_list, tier=None):
    """deterministic sessions: the normalised implementation output must equal the extracted search/driver model"""
    import gen_session
    rng = random.Random(res.seed + 31)
    term = terminal_positions(res, 2000)
    cases = V.corpus('session') + gen_session.gen(rng, tier or res.tier, list(positions_list) + term[:40])
    # a search that completes no iteration (mated / stalemated root, searchmoves without candidate) after a normal one
    for tp in term[:12]:
        cases.append('\t'.join(['position startpos', 'go depth 2', 'position fen ' + tp, 'go depth 2']))
        cases.append('\t'.join(['position fen ' + positions_list[0], 'go depth 3', 'position fen ' + tp, 'go depth 1', 'position startpos', 'go depth 1']))
    impl = V.run_impl('session', cases)
    model = V.run_model('session', cases)
    res.count('session-model', cases, getattr(gen_session, 'nontrivial', None))
    k = 0
    for c, i, m in zip(cases, impl, model):
        ni = gen_session.normalise(i)
        if ni != m:
            res.tie_break('session', c, m[-700:], ni[-700:])
            k += 1
    return cases

# ------------------------------------------------------------------ C07
GO_GRID = ['go depth 1', 'go depth 2', 'go depth 3', 'go depth 0', 'go movetime 0', 'go movetime 1', 'go movetime 5', 'go movetime 40',
           'go wtime 60000 btime 60000 winc 0 binc 0', 'go wtime 1 btime 1', 'go wtime 0 btime 0', 'go wtime 1000 btime 1000 winc 10 binc 10',
           'go wtime 30000 btime 30000', 'go wtime 5 btime 5 winc 0 binc 0 depth 2', 'go depth 2 movetime 100000']

REPEAT = ['g1f3 g8f6 f3g1 f6g8 g1f3 g8f6 f3g1 f6g8', 'b1c3 b8c6 c3b1 c6b8 b1c3 b8c6 c3b1 c6b8', 'g1f3 g8f6 f3g1 f6g8 g1f3 g8f6 f3g1 f6g8 g1f3 g8f6 f3g1 f6g8']

def c07(res, ctx):
    rng = random.Random(res.seed)
    q = res.tier == 'quick'
    ps = small_positions(res, 60 if q else 1500)
    leg = legal_sets(ps + ['rnbqkbnr/pppppppp/8/8/8/8/PPPPPPPP/RNBQKBNR w KQkq - 0 1'])
    cases, meta = [], []
    def add(fields, fens_per_go, sm_per_go):
        cases.append('\t'.join(fields)); meta.append((fens_per_go, sm_per_go))
    start = 'rnbqkbnr/pppppppp/8/8/8/8/PPPPPPPP/RNBQKBNR w KQkq - 0 1'
    for p in ps:
        L = leg.get(p)
        if L is None: continue
        k = rng.randint(1, 3)
        fields, fens, sms = [], [], []
        if rng.random() < 0.5: fields.append('ucinewgame')
        for _ in range(k):
            if rng.random() < 0.3: fields.append('ucinewgame')
            fields.append('position fen ' + p)
            go = rng.choice(GO_GRID)
            sm = None
            if L and rng.random() < 0.3:
                sm = rng.sample(sorted(L), min(len(L), rng.randint(1, 3)))
                go += ' searchmoves ' + ' '.join(sm)
            fields.append(go); fens.append(p); sms.append(sm)
        add(fields, fens, sms)
    for tp in terminal_positions(res, 2000)[:10]:
        leg[tp] = set()
        add(['position startpos', 'go depth 2', 'position fen ' + tp, 'go depth 2'], [start, tp], [None, None])
    # full-move numbers up to the edge of the range of C07_bestmove_exists (full + turn < 2^25); beyond it: known finding
    for fm in (1, 2 ** 23 - 1, 2 ** 23, 2 ** 24, 2 ** 25 - 1, 2 ** 25, 2 ** 31 - 1):
        for body in ('kr6/1p6/8/8/B7/R7/5PPP/3r2K1 w - - 0 %d', '6k1/5ppp/8/8/8/8/8/R3K2R w KQ - 0 %d', 'r3k3/8/8/8/8/8/8/4K2R b Kq - 3 %d'):
            f = body % fm
            leg.update(legal_sets([f]))
            for go in ('go depth 1', 'go depth 2'):
                add(['position fen ' + f, go], [f], [None])
    # thrice-repeated root positions
    for rep in REPEAT:
        for go in ['go depth 1', 'go depth 2', 'go depth 3', 'go movetime 5']:
            add(['position startpos moves ' + rep, go], [start], [None])
    # interrupted searches through the hook, and real-time stop
    for p in ps[:: (6 if q else 3)]:
        if not leg.get(p): continue
        n = rng.choice([1, 2, 3, 5, 8, 13, 21, 50, 200, 1000])
        add(['position fen ' + p, '@poll 1', '@abort %d %d' % (n, rng.randint(0, 1)), 'go depth 4', '@noabort', '@poll 100000', 'go depth 1'], [p, p], [None, None])
    for p in ps[:: (10 if q else 5)]:
        if not leg.get(p): continue
        add(['position fen ' + p, 'go infinite', '@sleep %d' % rng.choice([0, 1, 3, 10, 30]), 'stop'], [p], [None])
    obs = V.run_impl('session', cases)
    res.count('session', cases)
    k = 0
    for c, o, (fens, sms) in zip(cases, obs, meta):
        lines = split_session(o)
        ss, rest = searches(lines)
        bad = None
        if '@timeout' in lines or 'CRASH' in o or o == 'PANIC':
            bad = 'the engine did not answer (hang or dead search thread)'
        elif len(ss) != len(fens):
            bad = 'expected %d bestmove answers, got %d' % (len(fens), len(ss))
        else:
            for (infos, bm), fen, sm in zip(ss, fens, sms):
                w = bm.split(' ')
                L = leg.get(fen)
                if L is None: continue
                allowed = (set(sm) & L) if sm else L
                first_iter_aborted = '@poll' in c and infos and ' depth 0 ' in infos[-1] + ' ' and not any(' pv ' in i for i in infos)
                if allowed and w[1] == '0000' and first_iter_aborted:
                    continue      # the hook (polling period 1) interrupted iteration 1, which the real period of 100000 nodes cannot do (C07_first_iteration_not_interruptible)
                if allowed and w[1] == '0000' and int(fen.split(' ')[5]) + (fen.split(' ')[1] == 'b') >= 2 ** 25:
                    res.skipped['known finding fullmove_ge_2p25'] = res.skipped.get('known finding fullmove_ge_2p25', 0) + 1
                    continue
                if allowed:
                    if w[1] == '0000': bad = 'bestmove 0000 although legal moves exist'
                    elif w[1] not in allowed: bad = 'bestmove %s is not a legal move%s' % (w[1], ' of searchmoves' if sm else '')
                else:
                    if w[1] != '0000': bad = 'bestmove %s in a position without (allowed) legal moves' % w[1]
                if bad: break
        if bad:
            if k < MAXREP: res.violation('session', c, 'exactly one legal, non-null bestmove per go', o[-600:], 'spec', bad)
            k += 1
    model_sessions(res, ps)
    return dict(rule='deterministic sessions against the extracted search/driver model; sessions of 1-3 position/go cycles (with/without ucinewgame) over the go grid %s, searchmoves subsets, thrice-repeated roots, hook-interrupted and real-time-stopped searches; legality judged by the extracted Rules.v' % GO_GRID)

# ------------------------------------------------------------------ C09
def c09(res, ctx):
    rng = random.Random(res.seed)
    q = res.tier == 'quick'
    ps = small_positions(res, 30 if q else 300)
    leg = legal_sets(ps)
    ps = [p for p in ps if leg.get(p)]
    # node counts of the uninterrupted searches
    probe = ['\t'.join(['position fen ' + p, 'go depth 3']) for p in ps]
    pobs = V.run_impl('session', probe)
    fresh = V.run_impl('session', ['\t'.join(['position fen ' + p, 'go depth 1']) for p in ps])
    cases, meta = [], []
    for p, o, fr in zip(ps, pobs, fresh):
        ss, _ = searches(split_session(o))
        if not ss: no_answer(res, 'position fen ' + p + '\tgo depth 3', o)
        if not ss or not ss[0][0]: continue
        last = parse_info(ss[0][0][-1])
        total = int(last.get('nodes', ['0'])[0])
        # negamax nodes <= total nodes; enumerate abort points over the whole range (every one in thorough for small searches)
        step = max(1, total // (25 if q else 400))
        ns = list(range(1, total + 1, step))
        fs, _ = searches(split_session(fr))
        fresh_score = parse_info(fs[0][0][-1]).get('score') if fs and fs[0][0] else None
        for n in ns:
            mode = rng.randint(0, 1)
            cases.append('\t'.join(['position fen ' + p, '@poll 1', '@abort %d %d' % (n, mode), 'go depth 3', '@fen', '@noabort', '@poll 100000', 'go depth 1', '@fen']))
            meta.append((p, fresh_score))
        # chains of consecutive interrupted searches
        chain = ['position fen ' + p, '@poll 1']
        for _ in range(rng.randint(2, 6)):
            chain += ['@abort %d %d' % (rng.randint(1, max(2, total)), rng.randint(0, 1)), 'go depth 3', '@fen']
        chain += ['@noabort', '@poll 100000', 'go depth 1', '@fen']
        cases.append('\t'.join(chain)); meta.append((p, fresh_score))
        # real-time interruptions
        cases.append('\t'.join(['position fen ' + p, 'go infinite', '@sleep %d' % rng.choice([0, 1, 5, 20]), 'stop', '@fen', 'go depth 1', '@fen'])); meta.append((p, fresh_score))
        cases.append('\t'.join(['position fen ' + p, 'go movetime %d' % rng.choice([1, 2, 5, 10]), '@fen', 'go depth 1', '@fen'])); meta.append((p, fresh_score))
        # commands that ARRIVE DURING the search (seen at the next poll; polling period 1): debug, ucinewgame, a position and
        # a go (both ignored while searching), ponderhit, isready -- then stop; and quit in the middle of a search
        if rng.random() < 0.6:
            other = rng.choice(ps)
            during = ['@during debug on', '@during ucinewgame', '@during position fen ' + other, '@during go depth 1', '@during ponderhit', '@during isready', '@during debug off', '@during position startpos moves e2e4']
            rng.shuffle(during)
            cases.append('\t'.join(['position fen ' + p, '@poll 1', 'go infinite', '@sleep %d' % rng.choice([1, 4])] + during[:rng.randint(1, 8)] + ['@sleep 2', 'stop', '@fen', '@poll 100000', 'go depth 1', '@fen'])); meta.append((p, fresh_score))
            cases.append('\t'.join(['position fen ' + p, '@poll 1', 'go infinite', '@sleep %d' % rng.choice([1, 4]), '@during quit'])); meta.append((p, fresh_score))
            cases.append('\t'.join(['position fen ' + p, 'go infinite', '@sleep %d' % rng.choice([1, 20]), '@during quit'])); meta.append((p, fresh_score))
    # time-limited searches are deterministic up to WHERE they are cut: whatever depth the last reported iteration has,
    # its score and the announced move must be those of a fresh `go depth d` (an iteration that was cut must not be reported)
    big = [p for p in V.gen_positions('games', res.seed + 1234, 40 if q else 600) if sum(1 for ch in p.split(' ')[0] if ch.isalpha()) >= 14]
    bleg = legal_sets(big)
    tcases = []
    for p in big:
        if not bleg.get(p): continue
        f = p.split(' '); f[4] = str(min(int(f[4]), 20)); p = ' '.join(f)
        tcases.append((p, 'go movetime %d' % rng.choice([250, 500, 900])))
    tobs = V.run_impl('session', ['\t'.join(['position fen ' + p, g]) for p, g in tcases])
    res.count('session-timed', ['\t'.join(['position fen ' + p, g]) for p, g in tcases])
    follow, fmeta = [], []
    for (p, g), o in zip(tcases, tobs):
        ss, _ = searches(split_session(o))
        if not ss:
            no_answer(res, 'position fen %s\t%s' % (p, g), o); continue
        infos, bm = ss[-1]
        scored = [parse_info(i) for i in infos if ' score ' in i and ' depth ' in i]
        if not scored: continue
        last = scored[-1]
        d = int(last['depth'][0])
        if d < 1 or d > 7: continue
        follow.append('\t'.join(['position fen ' + p, 'go depth %d' % d])); fmeta.append((p, g, d, last['score'], bm.split(' ')[1], o))
    fobs = V.run_impl('session', follow)
    kk = 0
    for c, o, (p, g, d, score, best, orig) in zip(follow, fobs, fmeta):
        ss, _ = searches(split_session(o))
        if not ss: no_answer(res, c, o)
        if not ss or not ss[-1][0]: continue
        ref = [parse_info(i) for i in ss[-1][0] if ' score ' in i][-1]
        rbest = ss[-1][1].split(' ')[1]
        if ref['score'] != score or rbest != best:
            if kk < MAXREP: res.violation('session', 'position fen %s\t%s' % (p, g), 'depth %d: score %s bestmove %s (fresh go depth %d)' % (d, ' '.join(ref['score']), rbest, d), 'score %s bestmove %s ;; %s' % (' '.join(score), best, orig[-300:]), 'property', 'a time-limited search reported / played the result of an iteration that was cut short')
            kk += 1
    obs = V.run_impl('session', cases)
    res.count('session', cases)
    k = 0
    for c, o, (p, fresh_score) in zip(cases, obs, meta):
        lines = split_session(o)
        bad = None
        ngo = sum(1 for f in c.split('\t') if f.startswith('go '))
        ss, _ = searches(lines)
        fens = [l[5:] for l in lines if l.startswith('@fen ')]
        if '@timeout' in lines: bad = 'engine did not answer'
        elif '@during quit' in c and '@quit-done' not in lines: bad = 'quit during a search did not end the engine'
        elif len(ss) != ngo: bad = 'expected %d bestmove answers, got %d' % (ngo, len(ss))
        elif any(f != p for f in fens): bad = 'the position held by the engine changed: %s' % [f for f in fens if f != p][0]
        else:
            for infos, bm in ss:
                m = bm.split(' ')[1]
                if m == '0000' and '@poll' in c and infos and ' depth 0 ' in infos[-1] + ' ' and not any(' pv ' in i for i in infos):
                    continue      # iteration 1 itself was interrupted through the hook: no completed iteration to take a move from
                if m == '0000' or m not in leg[p]: bad = 'bestmove %s not legal in the searched position' % m
            # the final go depth 1 must score like a fresh engine
            infos, bm = ss[-1]
            if infos and fresh_score is not None and c.split('\t')[-2] == 'go depth 1':
                sc = parse_info(infos[-1]).get('score')
                if sc != fresh_score: bad = 'depth-1 score after the interruption %s differs from a fresh engine %s' % (sc, fresh_score)
        if bad:
            if k < MAXREP: res.violation('session', c, 'board unchanged; one legal bestmove; depth-1 score of a fresh engine', o[-600:], 'property', bad)
            k += 1
    model_sessions(res, ps)
    return dict(rule='deterministic sessions (incl. hook aborts) against the extracted search/driver model; for each position: abort points spread over 1..nodes of a depth-3 search (polling period 1, stop flag / move-time modes), chains of 2-6 consecutive interrupted searches, real-time stop and movetime expiry; read-back FEN, bestmove legality and a following go depth 1 are checked')

def near_terminal(res, n):
    """few-piece positions from which a stalemate or mate is reachable in exactly 1 or 2 plies: the places where the
    horizon / interior handling of move-less positions decides the minimax value"""
    from props import make_cases
    rng = random.Random(res.seed + 17)
    base = V.gen_positions('endgames', res.seed + 500, n)
    def successors(ps):
        cases = make_cases(ps, rng, per=None)
        outs = V.run_impl('make', cases)
        succ = {}
        for c, o in zip(cases, outs):
            f = o.split(' ')
            if len(f) >= 8:
                succ.setdefault(c.split('\t')[0], []).append(' '.join(f[:6]))
        return succ
    def terminals(fens):
        fens = sorted(set(fens))
        chk = V.run_impl('check', fens)
        return {f for f, o in zip(fens, chk) if o.endswith('E1')}
    s1 = successors(base)
    all1 = [x for v in s1.values() for x in v]
    term1 = terminals(all1)
    d1 = [p for p, v in s1.items() if any(x in term1 for x in v)]            # a terminal position one ply away
    sample1 = rng.sample(sorted(set(all1) - term1), min(len(set(all1) - term1), n))
    s2 = successors(sample1)
    term2 = terminals([x for v in s2.values() for x in v])
    has_term_move = {p for p, v in s2.items() if any(x in term2 for x in v)}
    d2 = [p for p, v in s1.items() if any(x in has_term_move for x in v)]     # ... two plies away
    out = [(p, 1) for p in d1] + [(p, 2) for p in d1[: len(d1) // 2]] + [(p, 2) for p in d2] + [(p, 3) for p in d2[: len(d2) // 3]]
    rng.shuffle(out)
    return out

# ------------------------------------------------------------------ C08
MATES = [
    # (fen, mate in N for the side to move)
    ('6k1/5ppp/8/8/8/8/8/R5K1 w - - 0 1', 1), ('7k/5Q2/6K1/8/8/8/8/8 w - - 0 1', 1), ('k7/8/1K6/8/8/8/8/7R w - - 0 1', 1),
    ('r5k1/8/8/8/8/8/5PPP/6K1 b - - 0 1', 1), ('6k1/8/6K1/8/8/8/8/7R w - - 2 1', 1),
    ('8/8/8/8/8/5K2/4Q3/7k w - - 0 1', 2), ('7k/8/5K2/8/8/8/8/6R1 w - - 0 1', 2), ('k7/2K5/8/8/8/8/8/1R6 w - - 0 1', 1),
    ('8/8/8/8/8/2k5/8/K6r b - - 3 1', 0), ('4k3/8/4K3/8/8/8/8/5R2 w - - 0 1', 2),
    ('r1bqkb1r/pppp1ppp/2n2n2/4p2Q/2B1P3/8/PPPP1PPP/RNB1K1NR w KQkq - 4 4', 1),
    ('6k1/5ppp/8/8/8/8/5PPP/3R2K1 w - - 0 1', 1), ('3r2k1/5ppp/8/8/8/8/5PPP/6K1 b - - 0 1', 1),
    ('8/8/8/8/4k3/8/4K2Q/7R b - - 0 1', 0),
]

def c08(res, ctx):
    rng = random.Random(res.seed)
    q = res.tier == 'quick'
    ps = small_positions(res, 50 if q else 1200)
    ps += [flip_fen(p) for p in ps[::4]]
    leg = legal_sets(ps)
    ps = [p for p in ps if leg.get(p) is not None]
    cases, meta = [], []
    for p in ps:
        for d in ([1, 2, 3] if not q else [rng.choice([1, 2, 3]), 3 if rng.random() < 0.3 else 2]):
            pre = []
            if rng.random() < 0.4:       # an engine that searched something else before
                other = rng.choice(ps)
                pre = ['position fen ' + other, 'go depth %d' % rng.randint(1, 3)]
            cases.append('\t'.join(pre + ['position fen ' + p, 'go depth %d' % d])); meta.append((p, d, None))
    nt = near_terminal(res, 5000 if q else 40000)
    for p, d in nt[: (160 if q else 4000)]:
        f = p.split(' '); f[4] = str(min(int(f[4]), 20)); p = ' '.join(f)
        cases.append('\t'.join(['position fen ' + p, 'go depth %d' % d])); meta.append((p, d, None))
    res.families['near-terminal'] = len(nt)
    # forced mates in 3 need depth 5, where positions transpose between plies and the transposition table matters:
    # hunt them among few-piece endgames with the reference evaluator, then ask the engine (release build for speed)
    hunt = V.gen_positions('endgames', res.seed + 700, 4000 if q else 80000)
    hunt = [h for h in hunt if int(h.split(' ')[4]) <= 40]
    r5 = V.run_impl('refsearch', ['%s\t5' % h for h in hunt], release=True)
    mate3 = [(h, r) for h, r in zip(hunt, r5) if ' | mate 3 | ' in r or ' | mate 2 | ' in r]
    rng.shuffle(mate3)
    mate3 = mate3[: (250 if q else 6000)]
    m_obs = V.run_impl('session', ['\t'.join(['position fen ' + h, 'go depth 5']) for h, _ in mate3], release=True)
    res.count('search-mates-d5', ['\t'.join(['position fen ' + h, 'go depth 5']) for h, _ in mate3])
    km = 0
    for (h, r), o in zip(mate3, m_obs):
        ss, _ = searches(split_session(o))
        if not ss: no_answer(res, 'position fen ' + h + '\tgo depth 5', o)
        if not ss or not ss[-1][0]: continue
        fin = [i for i in ss[-1][0] if ' score ' in i]
        if not fin: continue
        got = ' '.join(parse_info(fin[-1])['score'])
        val, score, best, _n = [x.strip() for x in r.split(' | ')]
        bmove = ss[-1][1].split(' ')[1]
        if got != score or bmove not in set(best.split(',')):
            if km < MAXREP: res.violation('search-value', '\t'.join(['position fen ' + h, 'go depth 5']), r, fin[-1] + ' ;; ' + ss[-1][1], 'reference minimax', 'a forced %s is not reported / not played at depth 5 (got "%s", bestmove %s)' % (score, got, bmove))
            km += 1
    res.families['mate-in-2-or-3 positions at depth 5'] = len(mate3)
    # depth 4-5 on few-piece positions with captures available: the transposition table is exercised; the engine must
    # still equal the Coq search model exactly (tie level: values above depth 3 are not claimed to be plain minimax)
    import gen_session
    deep = [h for h in hunt if sum(1 for ch in h.split(' ')[0] if ch.isalpha()) == 4][: (24 if q else 400)]
    dcases = ['\t'.join(['position fen ' + h, 'go depth 4']) for h in deep]
    di = V.run_impl('session', dcases)
    dm = V.run_model('session', dcases)
    res.count('session-model-depth4', dcases)
    for c, i, m in zip(dcases, di, dm):
        if gen_session.normalise(i) != m:
            res.tie_break('session', c, m[-500:], gen_session.normalise(i)[-500:])
    if not q:
        # rich positions: forced mates in 3 found by the reference at depth 5 (expensive; thorough tier only)
        rich = V.gen_positions('special', res.seed + 800, 6000) + V.gen_positions('games', res.seed + 801, 3000)
        rich = [h for h in rich if int(h.split(' ')[4]) <= 40 and 5 <= sum(1 for ch in h.split(' ')[0] if ch.isalpha()) <= 14]
        rr = V.run_impl('refsearch', ['%s\t5' % h for h in rich], release=True)
        rm = [(h, r) for h, r in zip(rich, rr) if ' | mate 3 | ' in r]
        ro = V.run_impl('session', ['\t'.join(['position fen ' + h, 'go depth 5']) for h, _ in rm], release=True)
        res.count('search-mates-d5-rich', ['\t'.join(['position fen ' + h, 'go depth 5']) for h, _ in rm])
        for (h, r), o in zip(rm, ro):
            ss, _ = searches(split_session(o))
            if not ss: no_answer(res, 'position fen ' + h + '\tgo depth 5', o)
            if not ss or not ss[-1][0]: continue
            fin = [i for i in ss[-1][0] if ' score ' in i]
            if not fin: continue
            got = ' '.join(parse_info(fin[-1])['score'])
            if got != 'mate 3':
                if km < MAXREP: res.violation('search-value', '\t'.join(['position fen ' + h, 'go depth 5']), r, fin[-1], 'reference minimax', 'a forced mate in 3 is not reported at depth 5 (got "%s")' % got)
                km += 1
        res.families['rich mate-in-3 positions'] = len(rm)
    km += tablebase_mates(res, rng, q)
    mleg = legal_sets([f for f, _ in MATES] + [flip_fen(f) for f, _ in MATES])
    for fen, _ in MATES:
        if mleg.get(fen) and mleg.get(flip_fen(fen)):
            for d in ((1, 3) if q else (1, 3, 5)):
                for pre in ([], ['position startpos', 'go depth 2']):
                    cases.append('\t'.join(pre + ['position fen ' + fen, 'go depth %d' % d])); meta.append((fen, d, None))
                    cases.append('\t'.join(pre + ['position fen ' + flip_fen(fen), 'go depth %d' % d])); meta.append((flip_fen(fen), d, None))
    obs = V.run_impl('session', cases)
    refs = V.run_impl('refsearch', ['%s\t%d' % (m[0], m[1]) for m in meta], release=True)
    res.count('search-value', cases)
    k = 0
    pv_cases = []
    for c, o, r, (p, d, mate_n) in zip(cases, obs, refs, meta):
        ss, _ = searches(split_session(o))
        if not ss:
            if k < MAXREP: res.violation('search-value', c, 'an answer', o[-300:], 'property', 'no bestmove')
            k += 1; continue
        infos, bm = ss[-1]
        if r in ('SKIP', 'UNSAFE', 'BADFEN') or ' | ' not in r:
            res.skipped['refsearch:' + r[:6]] = res.skipped.get('refsearch:' + r[:6], 0) + 1; continue
        val, score, best, _ = [x.strip() for x in r.split(' | ')]
        best = set(best.split(',')) if best else set()
        if not best:
            continue   # no legal move: C07 territory
        final = [i for i in infos if ' score ' in i]
        if not final:
            if k < MAXREP: res.violation('search-value', c, score, o[-300:], 'reference', 'no score reported')
            k += 1; continue
        info = parse_info(final[-1])
        got = ' '.join(info['score'])
        bmove = bm.split(' ')[1]
        bad = None
        if got != score: bad = 'reported score "%s" differs from the exact minimax value "%s"' % (got, score)
        elif bmove not in best: bad = 'bestmove %s does not attain the minimax value (attaining: %s)' % (bmove, ','.join(sorted(best)))
        elif mate_n is not None and got != 'mate %d' % mate_n: bad = 'forced mate in %d not reported (got %s)' % (mate_n, got)
        if bad:
            if k < MAXREP: res.violation('search-value', c, r, final[-1] + ' ;; ' + bm, 'reference minimax', bad)
            k += 1
        pv = info.get('pv', [])
        pv_cases.append((p, pv, got, c))
        if got.startswith('mate'): res.families['mates-reported'] = res.families.get('mates-reported', 0) + 1
    pvo = V.run_impl('pvcheck', ['%s\t%s' % (p, ' '.join(pv)) for p, pv, _, _ in pv_cases])
    for (p, pv, got, c), o in zip(pv_cases, pvo):
        m = re.match(r'legal=(\d+) final=(\S+) check=(\d) nomoves=(\d)', o)
        if not m: continue
        bad = None
        if int(m.group(1)) != len(pv): bad = 'principal variation is not a legal line (legal prefix %s of %d)' % (m.group(1), len(pv))
        elif got.startswith('mate ') and int(got.split()[1]) > 0:
            n = int(got.split()[1])
            if len(pv) != 2 * n - 1 or m.group(3) != '1' or m.group(4) != '1':
                bad = 'mate %d reported but the pv (%d plies) does not end in checkmate' % (n, len(pv))
        if bad:
            if k < MAXREP: res.violation('search-value', c, 'legal pv; mate N => 2N-1 plies ending in checkmate', ' '.join(pv) + ' -> ' + o, 'property', bad)
            k += 1
    return dict(rule='go depth 1..3 on legal positions far from the fifty-move limit (and their colour-flipped twins), fresh engine and an engine that searched another position before; mate-in-N corpus at depth 2N-1; compared with the reference alpha-beta-free-of-state evaluator over the engine\'s own static evaluation (harness refsearch)')

def tablebase_mates(res, rng, q):
    """Every (quick: a sample of the) three-man position KQ-K / KR-K with a forced mate in N <= 3, and samples of four-man
    endings, from the exhaustive recursion of harness/src/fam_tb.rs: `go depth 2N-1` must report `mate N`, play a move that
    keeps it, and show a legal pv of 2N-1 plies ending in checkmate; both colours (colour-flipped twins)."""
    spec = [('KQk', 16, range(16)), ('KRk', 16, range(16))]
    four = ['KRRk', 'KQkr', 'KQkn', 'KRkb', 'KBBk', 'KQkp', 'KQPk', 'KRkn']
    for m in four:
        spec.append((m, 4096, range(2) if q else range(32)))
    tcases = ['%s %d %d' % (m, i, n) for m, n, r in spec for i in r]
    out = V.run_impl('tbmate', tcases, release=True)
    entries = []
    for c, o in zip(tcases, out):
        for e in o.split(';'):
            f = e.split('|')
            if len(f) == 3:
                entries.append((f[0].replace('_', ' '), int(f[1]), set(f[2].split(',')), c.split(' ')[0]))
    res.families['tablebase positions with mate in <= 3'] = len(entries)
    if q:
        by = {1: [], 2: [], 3: []}
        for e in entries: by[e[1]].append(e)
        for v in by.values(): rng.shuffle(v)
        entries = by[1][:60] + by[2][:180] + by[3][:460]
    # half of them with colours flipped (Black mates)
    sess, meta = [], []
    for j, (fen, n, keep, mat) in enumerate(entries):
        if j % 2:
            fen = flip_fen(fen)
            keep = set(flip_uci(u) for u in keep)
        sess.append('\t'.join(['position fen ' + fen, 'go depth %d' % (2 * n - 1)])); meta.append((fen, n, keep))
    obs = V.run_impl('session', sess, release=True)
    res.count('search-mates-tablebase', sess)
    bad_n, pv_cases = 0, []
    for c, o, (fen, n, keep) in zip(sess, obs, meta):
        ss, _ = searches(split_session(o))
        fin = [i for i in ss[-1][0] if ' score ' in i] if ss else []
        if not fin:
            if bad_n < MAXREP: res.violation('search-value', c, 'mate %d' % n, o[-300:], 'tablebase', 'no score reported')
            bad_n += 1; continue
        info = parse_info(fin[-1])
        got = ' '.join(info['score']); bmove = ss[-1][1].split(' ')[1]
        why = None
        if got != 'mate %d' % n: why = 'a forced mate in %d is reported as "%s" at depth %d' % (n, got, 2 * n - 1)
        elif bmove not in keep: why = 'bestmove %s does not keep the forced mate in %d (keeping: %s)' % (bmove, n, ','.join(sorted(keep)))
        if why:
            if bad_n < MAXREP: res.violation('search-value', c, 'mate %d | %s' % (n, ','.join(sorted(keep))), fin[-1] + ' ;; ' + ss[-1][1], 'tablebase', why)
            bad_n += 1; continue
        pv_cases.append((fen, info.get('pv', []), n, c))
    pvo = V.run_impl('pvcheck', ['%s\t%s' % (p, ' '.join(pv)) for p, pv, _, _ in pv_cases], release=True)
    for (p, pv, n, c), o in zip(pv_cases, pvo):
        m = re.match(r'legal=(\d+) final=(\S+) check=(\d) nomoves=(\d)', o)
        if not m: continue
        if int(m.group(1)) != len(pv) or len(pv) != 2 * n - 1 or m.group(3) != '1' or m.group(4) != '1':
            if bad_n < MAXREP: res.violation('search-value', c, 'legal pv of %d plies ending in checkmate' % (2 * n - 1), ' '.join(pv) + ' -> ' + o, 'property', 'mate %d reported but the pv is not a legal line of 2N-1 plies ending in checkmate' % n)
            bad_n += 1
    return bad_n

def flip_uci(u):
    r = lambda ch: str(9 - int(ch))
    return u[0] + r(u[1]) + u[2] + r(u[3]) + u[4:]

# ------------------------------------------------------------------ C10 (engine part) and C11
def c10_engine(res):
    c10_model_depth4(res)
    rng = random.Random(res.seed + 9)
    q = res.tier == 'quick'
    # fifty-move: static evaluation must not turn into a draw before 100 plies
    mats = ['8/8/8/3k4/8/3K4/3Q4/8 w - - %d 80', '8/8/8/3k4/8/3K4/3R4/8 b - - %d 80', '4k3/8/8/8/8/8/PPPP4/4K3 w - - %d 80', 'r3k3/8/8/8/8/8/8/4K3 b - - %d 90']
    cases = [(m % h) + '\t1' for m in mats for h in (range(0, 151) if not q else list(range(0, 151, 7)) + [49, 50, 51, 99, 100, 101])]
    obs = V.run_impl('eval', cases)
    res.count('eval-fifty', cases)
    k = 0
    base = {}
    for c, o in zip(cases, obs):
        fen = c.split('\t')[0]; h = int(fen.split(' ')[4]); key = fen.split(' ')[0]
        v = int(o.split(' ')[0]) if o and o[0] in '-0123456789' else None
        if h == 0: base[key] = v
        exp = 0 if h >= 100 else base.get(key)
        if v is None or (exp is not None and v != exp):
            if k < MAXREP: res.violation('eval', c, str(exp), o, 'property', 'fifty-move draw value before 100 plies / not from 100 plies')
            k += 1
    # repetition: a move that brings about the third occurrence of a position (identity = placement, side, rights, e.p. file,
    # as C06 defines it) is valued as a draw (root score cp +contempt at depth 1); any other move as without history
    lines = ['g1f3 g8f6 f3g1 f6g8 g1f3 g8f6 f3g1 f6g8', 'e2e4 e7e5 g1f3 g8f6 f3g1 f6g8 g1f3 g8f6 f3g1 f6g8 g1f3 g8f6 f3g1 f6g8',
             'g1f3 g8f6 f3g1 f6g8 e2e4 e7e5 g1f3 g8f6 f3g1 f6g8 g1f3 g8f6 f3g1 f6g8', 'b1c3 b8c6 g1f3 g8f6 f3g1 f6g8 c3b1 c6b8 b1c3 b8c6 c3b1 c6b8 g1f3 g8f6 f3g1 f6g8',
             'g1f3 b8c6 f3g1 c6b8 g1f3 b8c6 f3g1 c6b8 b1c3 g8f6 c3b1 f6g8 b1c3 g8f6 c3b1 f6g8 b1c3 g8f6 c3b1 f6g8']
    roots = ['rnbqkbnr/pppppppp/8/8/8/8/PPPPPPPP/RNBQKBNR w KQkq - 0 1', 'r3k2r/8/8/8/8/8/8/R3K2R w KQkq - 0 1', '4k3/8/8/8/8/8/8/R3K2R w K - 30 40']
    lines2 = ['a1b1 a8b8 b1a1 b8a8 a1b1 a8b8 b1a1 b8a8', 'h1g1 e8d8 g1h1 d8e8 h1g1 e8d8 g1h1 d8e8 h1g1 e8d8 g1h1 d8e8']
    combos = [(roots[0], l) for l in lines] + [(roots[1], lines2[0]), (roots[2], lines2[1])]
    # the same games entered from FENs with odd / small / large half-move clocks (parity of the window anchor)
    def with_half(fen, h):
        w = fen.split(' '); w[4] = str(h); return ' '.join(w)
    for h in (1, 3, 7, 20, 33) if q else (1, 2, 3, 5, 7, 9, 20, 33, 61, 90):
        combos += [(with_half(roots[0], h), lines[0]), (with_half(roots[0], h), lines[3]), (with_half(roots[1], h), lines2[0]), (with_half(roots[2], h), lines2[1])]
    cases, meta, stale = [], [], []
    for root, l in combos:
        ms = l.split(' ')
        for n in range(2, len(ms)):
            prefix, m = ms[:n], ms[n]
            # FENs along the game through the implementation's make (verified by C02)
            fens = [root]; ok = True
            for x in prefix + [m]:
                o = V.run_impl('make', [fens[-1] + '\t' + x])[0].split(' ')
                if len(o) < 8: ok = False; break
                fens.append(' '.join(o[:6]))
            if not ok: continue
            def key(f):
                w = f.split(' '); return ' '.join(w[:3]) + ' ' + (w[3][0] if w[3] != '-' else '-')
            half_after = int(fens[-1].split(' ')[4])
            window = fens[max(0, len(fens) - 1 - half_after):-1]
            occ = sum(1 for f in window if key(f) == key(fens[-1]))
            cases.append('\t'.join(['position fen %s moves %s' % (root, ' '.join(prefix)), 'go depth 1 searchmoves ' + m]))
            cases.append('\t'.join(['position fen %s' % fens[-2], 'go depth 1 searchmoves ' + m]))
            meta.append((occ >= 2, fens[-1]))
            # the same position given WITHOUT its history on an engine that was told the whole game before: the earlier
            # position command must leave nothing behind (same ply indices, same parity)
            stale.append(('\t'.join(['position fen %s moves %s' % (root, ' '.join(prefix)), 'go depth 1', 'position fen %s' % fens[-2], 'go depth 1 searchmoves ' + m]),
                          '\t'.join(['ucinewgame', 'position fen %s moves %s' % (root, ' '.join(prefix)), 'go depth 1', 'ucinewgame', 'position fen %s' % fens[-2], 'go depth 1 searchmoves ' + m]), len(meta) - 1))
    obs = V.run_impl('session', cases)
    res.count('session-repetition', cases)
    def last_score(o):
        ss, _ = searches(split_session(o))
        if not ss or not ss[-1][0]: return None
        sc = [i for i in ss[-1][0] if ' score ' in i]
        return ' '.join(parse_info(sc[-1])['score']) if sc else None
    sobs = V.run_impl('session', [s for s, _, _ in stale] + [s for _, s, _ in stale])
    res.count('session-stale-history', [s for s, _, _ in stale])
    for j, (s1, s2, mi) in enumerate(stale):
        without = last_score(obs[2 * mi + 1])
        for variant, o in ((s1, sobs[j]), (s2, sobs[len(stale) + j])):
            got = last_score(o)
            if got != without:
                if k < MAXREP: res.violation('session', variant, without, got, 'property', 'a position given without history is valued differently on an engine that saw another game before (stale repetition history)')
                k += 1
    for i, (rep, fen_after) in enumerate(meta):
        with_hist, without = last_score(obs[2 * i]), last_score(obs[2 * i + 1])
        exp = 'cp 50' if rep else without
        if with_hist != exp:
            if k < MAXREP: res.violation('session', cases[2 * i], exp, with_hist, 'property', 'threefold repetition %s (position after the move: %s)' % ('not valued as a draw' if rep else 'claimed although the position has not occurred three times', fen_after))
            k += 1

def c10_model_depth4(res):
    """few-piece positions with a shuffling history searched to depth 4: lines return to the root and to history
    positions; the engine must equal the Coq search model exactly (scores incl. the repetition leaves)"""
    import gen_session
    q = res.tier == 'quick'
    roots = ['4k3/8/8/8/8/8/8/R3K2R w K - 4 40', '8/8/8/3k4/8/3K4/3Q4/8 w - - 6 30', '8/5k2/8/8/8/2K5/8/r7 b - - 2 50',
             'nn4k1/6p1/8/7Q/8/8/rr6/7K w - - 0 1', '6k1/6p1/8/7Q/8/8/r7/7K w - - 3 12']
    hist = {'4k3/8/8/8/8/8/8/R3K2R w K - 4 40': ['h1g1 e8d8 g1h1 d8e8', 'a1b1 e8d8 b1a1 d8e8 h1g1 e8d8 g1h1 d8e8'],
            '8/8/8/3k4/8/3K4/3Q4/8 w - - 6 30': ['d2e2 d5d6 e2d2 d6d5', 'd3e3 d5e5 e3d3 e5d5'],
            '8/5k2/8/8/8/2K5/8/r7 b - - 2 50': ['a1a2 c3d3 a2a1 d3c3'],
            'nn4k1/6p1/8/7Q/8/8/rr6/7K w - - 0 1': ['h5e8 g8h7 e8h5 h7g8'],
            '6k1/6p1/8/7Q/8/8/r7/7K w - - 3 12': ['h5e8 g8h7 e8h5 h7g8']}
    cases = []
    for r in roots:
        for h in hist[r]:
            for d in ((4,) if q else (3, 4, 5)):
                cases.append('\t'.join(['position fen %s moves %s' % (r, h), 'go depth %d' % d]))
    impl = V.run_impl('session', cases)
    model = V.run_model('session', cases)
    # repetition-aware reference minimax (no table, no heuristics): the statement of C10 made executable
    rcases = []
    for c in cases:
        pos, go = c.split('\t')
        fen, mv = pos[len('position fen '):].split(' moves ')
        rcases.append('%s\t%s\t%s' % (fen, mv, go.split()[-1]))
    ref = V.run_impl('refsearchhist', rcases, release=True)
    res.count('session-model-history-depth4', cases)
    def final_score(text):
        ss = [parse_info(l).get('score') for l in text.split(' ;; ') if l.startswith('info') and ' pv ' in l]
        ss = [' '.join(s) for s in ss if s]
        return ss[-1] if ss else None
    for c, i, m, r in zip(cases, impl, model, ref):
        ni = gen_session.normalise(i)
        rs = r.split(' | ')[1] if ' | ' in r else None
        si, sm = final_score(i), final_score(m)
        if rs is not None and sm is not None and sm == rs and si != rs:
            res.violation('session', c, 'score ' + rs, 'score %s' % si, 'property',
                          'a line through repeated positions is not valued as the repetition-aware minimax prescribes (reference and Coq model agree, implementation differs)')
        elif ni != m:
            res.tie_break('session', c, m[-500:], ni[-500:])
        elif rs is not None and sm != rs:
            res.notes.append('depth-4 repetition session: model = implementation = %s but history-aware reference = %s (transposition-table effect); not reported' % (sm, rs))

def c11(res, ctx):
    rng = random.Random(res.seed)
    q = res.tier == 'quick'
    ps = positions(res.seed, res.tier, 0.6)
    cases = []
    for p in ps:
        for lm in ('1', '0') if rng.random() < 0.2 else ('1',):
            cases.append(p + '\t' + lm); cases.append(flip_fen(p) + '\t' + lm)
    impl, model = (V.run_impl('eval', cases), None)
    res.count('eval', cases)
    model = V.run_model('eval', cases)
    k = 0
    for i in range(0, len(cases), 2):
        a, b = impl[i], impl[i + 1]
        if model is not None:
            for j in (i, i + 1):
                if model[j] != impl[j]:
                    res.tie_break('eval', cases[j], model[j], impl[j])
        try:
            va, vb = int(a.split(' ')[0]), int(b.split(' ')[0])
        except ValueError:
            continue
        if va != -vb:
            if k < MAXREP: res.violation('eval', cases[i] + ' || ' + cases[i + 1], str(-va), str(vb), 'property', 'static evaluation is not antisymmetric under colour flip')
            k += 1
    # terminal scores: mated side to move gets a losing mate score, stalemate a draw
    term = V.gen_positions('endgames', res.seed + 40, 3000 if q else 60000)
    chk = V.run_impl('check', term)
    tcases = [p for p, o in zip(term, chk) if o.endswith('E1')]
    fulls = [1, 2, 100, 2499, 2 ** 20, 2 ** 23 - 1]
    tc = []
    for p in tcases:
        f = p.split(' ')
        for full in fulls:
            tc.append(' '.join(f[:5] + [str(full)]) + '\t0')
    tobs = V.run_impl('eval', tc)
    tchk = V.run_impl('check', [c.split('\t')[0] for c in tc])
    res.count('eval-terminal', tc)
    for c, o, ch in zip(tc, tobs, tchk):
        try:
            v = int(o.split(' ')[0])
        except ValueError:
            continue
        white = c.split(' ')[1] == 'w'
        incheck = 'C1' in ch
        mover = v if white else -v
        bad = None
        if incheck:
            if not (mover < -(1 << 23)): bad = 'checkmated side to move does not get a losing mate score'
            elif not o.split(' ')[1].startswith('mate'): bad = 'mate not reported as mate'
        elif v != 0: bad = 'stalemate is not scored as a draw'
        if bad:
            if k < MAXREP: res.violation('eval', c, 'mate score < 0 for the mated mover / 0 for stalemate', o, 'property', bad)
            k += 1
    # search symmetry at depth <= 3
    sp = small_positions(res, 12 if q else 300, seed_off=7)
    sc = []
    for p in sp:
        d = rng.randint(1, 3)
        sc.append('\t'.join(['position fen ' + p, 'go depth %d' % d])); sc.append('\t'.join(['position fen ' + flip_fen(p), 'go depth %d' % d]))
    so = V.run_impl('session', sc)
    res.count('session-symmetry', sc)
    for i in range(0, len(sc), 2):
        sa, _ = searches(split_session(so[i])); sb, _ = searches(split_session(so[i + 1]))
        if not sa: no_answer(res, sc[i], so[i])
        if not sb: no_answer(res, sc[i + 1], so[i + 1])
        if not sa or not sb or not sa[-1][0] or not sb[-1][0]: continue
        fa = [x for x in sa[-1][0] if ' score ' in x]; fb = [x for x in sb[-1][0] if ' score ' in x]
        if not fa or not fb: continue
        xa, xb = parse_info(fa[-1])['score'], parse_info(fb[-1])['score']
        if xa != xb:
            if k < MAXREP: res.violation('session', sc[i] + ' || ' + sc[i + 1], ' '.join(xa), ' '.join(xb), 'property', 'search score differs between a position and its colour-flipped twin')
            k += 1
    return dict(rule='static evaluation of generated legal positions and their colour-flipped twins (all game stages the generators reach); all mate/stalemate positions among generated few-piece endgames x full-move numbers %s; go depth 1..3 on twins' % fulls)

def binary_session(app, commands, timeout=60):
    """drive the real engine binary over stdin/stdout; always ends with quit (the binary busy-loops on EOF)"""
    import subprocess, threading, queue, time
    p = subprocess.Popen([app], stdin=subprocess.PIPE, stdout=subprocess.PIPE, stderr=subprocess.DEVNULL, text=True, bufsize=1)
    q = queue.Queue()
    def reader():
        for line in p.stdout:
            q.put(line.rstrip('\n'))
        q.put(None)
    threading.Thread(target=reader, daemon=True).start()
    lines = []
    def drain(until=None, t=timeout):
        end = time.time() + t
        while time.time() < end:
            try:
                l = q.get(timeout=0.05 if until is None else max(0.05, end - time.time()))
            except queue.Empty:
                if until is None: return True
                continue
            if l is None: return False
            lines.append(l)
            if until and l.startswith(until): return True
        return until is None
    ok = True
    sent_go = [0]
    for c in commands:
        if c.startswith('@sleep'):
            time.sleep(int(c.split()[1]) / 1000.0); continue
        try:
            p.stdin.write(c + '\n'); p.stdin.flush()
        except BrokenPipeError:
            ok = False; break
        if c.startswith('go ') and not c.endswith(' x'):
            sent_go[0] += 1
        if c.startswith('go ') and 'infinite' not in c and not c.endswith(' x'):
            ok = drain('bestmove') and ok
        elif c == 'stop':
            # wait for the answer only if a search is still unanswered (a `go infinite` on a root without legal
            # move is answered at once, before the stop)
            if sum(1 for l in lines if l.startswith('bestmove')) < sent_go[0]:
                ok = drain('bestmove') and ok
            else:
                time.sleep(0.01); drain(None)
        elif c in ('isready',):
            ok = drain('readyok', 10) and ok
        elif c == 'uci':
            ok = drain('uciok', 10) and ok
        else:
            time.sleep(0.01); drain(None)
    try:
        p.stdin.write('quit\n'); p.stdin.flush()
    except Exception:
        pass
    try:
        p.wait(timeout=10)
    except Exception:
        p.kill(); ok = False
    drain(None)
    return lines, ok

# ------------------------------------------------------------------ C16
def c16(res, ctx):
    from common import esc
    rng = random.Random(res.seed)
    q = res.tier == 'quick'
    ps = small_positions(res, 40 if q else 1500)
    leg = legal_sets(ps)
    ps = [p for p in ps if leg.get(p) is not None]
    term = terminal_positions(res, 2000 if q else 20000)
    ps = ps + term[: max(4, len(ps) // 6)]
    cases, meta = [], []
    for tp in term[:10]:       # no iteration can complete on these roots: nothing may be carried over from the search before
        cases.append('\t'.join(['position startpos', 'go depth 3', 'position fen ' + tp, 'go depth 3', 'isready'])); meta.append(['rnbqkbnr/pppppppp/8/8/8/8/PPPPPPPP/RNBQKBNR w KQkq - 0 1', tp])
        cases.append('\t'.join(['position startpos', 'go depth 2', 'position startpos', 'go depth 2 searchmoves e2e5'])); meta.append(['rnbqkbnr/pppppppp/8/8/8/8/PPPPPPPP/RNBQKBNR w KQkq - 0 1'] * 2)
    # a search longer than one second: time must keep growing past 1000 ms
    cases.append('\t'.join(['position startpos', 'go movetime 1600'])); meta.append(['rnbqkbnr/pppppppp/8/8/8/8/PPPPPPPP/RNBQKBNR w KQkq - 0 1'])
    cases.append('\t'.join(['position fen r3k2r/p1ppqpb1/bn2pnp1/3PN3/1p2P3/2N2Q1p/PPPBBPPP/R3K2R w KQkq - 0 1', 'go infinite', '@sleep 1400', 'stop'])); meta.append(['r3k2r/p1ppqpb1/bn2pnp1/3PN3/1p2P3/2N2Q1p/PPPBBPPP/R3K2R w KQkq - 0 1'])
    for _ in range(40 if q else 1500):
        n = rng.randint(2, 8)
        fields = ['uci', 'isready']
        fens = []
        for _ in range(n):
            if rng.random() < 0.3: fields.append('ucinewgame')
            if rng.random() < 0.15: fields.append('debug on' if rng.random() < 0.5 else 'debug off')
            p = rng.choice(ps)
            fields.append('position fen ' + p)
            r = rng.random()
            if r < 0.6: fields.append('go depth %d' % rng.randint(1, 3)); fens.append(p)
            elif r < 0.8: fields.append('go movetime %d' % rng.choice([0, 1, 5, 20])); fens.append(p)
            else:
                fields += ['go infinite', '@sleep %d' % rng.choice([0, 2, 10]), 'stop']; fens.append(p)
            if rng.random() < 0.2: fields.append('isready')
        cases.append('\t'.join(fields)); meta.append(fens)
    obs = V.run_impl('session', cases)
    res.count('session', cases)
    all_lines, owner = [], []
    k = 0
    pvc = []
    for ci, (c, o, fens) in enumerate(zip(cases, obs, meta)):
        lines = [l for l in split_session(o) if not l.startswith('@')]
        for l in lines:
            all_lines.append(esc(l)); owner.append(ci)
        ss, _ = searches(lines)
        bad = None
        if len(ss) != len(fens): bad = 'expected %d bestmove answers, got %d' % (len(fens), len(ss))
        for (infos, bm), fen in zip(ss, fens):
            if bad: break
            last = {'depth': -1, 'nodes': -1, 'time': -1}
            lastpv = None
            for i in infos:
                d = parse_info(i)
                for key in last:
                    if key in d:
                        v = int(d[key][0])
                        if v < last[key]: bad = '%s decreased within one search (%d -> %d)' % (key, last[key], v)
                        last[key] = v
                if 'pv' in d:
                    lastpv = d['pv']; pvc.append((fen, d['pv'], ci))
            w = bm.split(' ')
            best = w[1]; ponder = w[3] if len(w) >= 4 and w[2] == 'ponder' else None
            if lastpv is not None:
                if best != lastpv[0]: bad = 'bestmove %s is not the first move of the last reported pv %s' % (best, ' '.join(lastpv))
                elif ponder != (lastpv[1] if len(lastpv) > 1 else None): bad = 'ponder %s is not the second move of the last reported pv %s' % (ponder, ' '.join(lastpv))
            elif ponder is not None: bad = 'ponder move without any reported pv'
        if bad:
            if k < MAXREP: res.violation('session', c, 'monotone depth/nodes/time; bestmove/ponder = first/second pv move', o[-700:], 'property', bad)
            k += 1
    pvo = V.run_impl('pvcheck', ['%s\t%s' % (f, ' '.join(pv)) for f, pv, _ in pvc])
    for (f, pv, ci), o in zip(pvc, pvo):
        m = re.match(r'legal=(\d+)', o)
        if m and int(m.group(1)) != len(pv):
            if k < MAXREP: res.violation('session', cases[ci], 'legal pv', ' '.join(pv) + ' from ' + f, 'property', 'reported pv is not a legal line from the searched position')
            k += 1
    # the real binary over stdin/stdout: every line after the start-up banner must be a valid engine-to-GUI message
    try:
        app = V.build_engine_app()
        bin_lines = []
        for si in range(6 if q else 80):
            cmds = ['uci', 'isready']
            for _ in range(rng.randint(1, 4)):
                if rng.random() < 0.3: cmds.append('ucinewgame')
                pth = rng.choice(ps)
                cmds.append('position fen ' + pth)
                r = rng.random()
                if r < 0.6: cmds.append('go depth %d' % rng.randint(1, 3))
                elif r < 0.8: cmds.append('go movetime %d' % rng.choice([0, 1, 10]))
                else: cmds += ['go infinite', '@sleep %d' % rng.choice([1, 5, 20]), 'stop']
            if rng.random() < 0.3: cmds += ['register later', 'isready', 'nonsense command', 'go depth x', 'position fen bad', 'debug off']
            out_lines, ok = binary_session(app, cmds)
            nbest = sum(1 for l in out_lines if l.startswith('bestmove'))
            ngo = sum(1 for c in cmds if c.startswith('go ') and c != 'go depth x')
            if not ok or nbest != ngo:
                if k < MAXREP: res.violation('binary-session', '\t'.join(cmds), '%d bestmove lines, clean exit on quit' % ngo, ' ;; '.join(out_lines)[-600:], 'property', 'the engine process hung, crashed or answered a wrong number of bestmoves')
                k += 1
            body = out_lines[1:] if out_lines and not out_lines[0].startswith(('id ', 'info', 'bestmove', 'uciok', 'readyok')) else out_lines
            bin_lines += [(l, '\t'.join(cmds)) for l in body]
        verdicts = V.run_model('spec-engineline', [esc(l) for l, _ in bin_lines])
        res.count('binary-session-lines', [esc(l) for l, _ in bin_lines])
        for (l, c), v in zip(bin_lines, verdicts):
            if v == 'bad':
                if k < MAXREP: res.violation('binary-session', c, 'a valid UCI engine-to-GUI line', l, 'spec', 'the engine process wrote a line outside the UCI output grammar')
                k += 1
    except V.BuildError as e:
        res.notes.append('engine_app could not be built: ' + e.log[-300:])
    # renderer: model vs the real ConsoleUciTx on generated messages; every rendering of a msg_ok message must be a valid line
    import gen_consoletx
    tx_cases = V.corpus('consoletx') + gen_consoletx.gen(rng, res.tier)
    ti, tm = diff(res, 'consoletx', tx_cases, nontrivial=getattr(gen_consoletx, 'nontrivial', None), level='tie')
    okflags = V.run_model('consoletx-ok', tx_cases)
    rendered = [(c, o) for c, o, f in zip(tx_cases, ti, okflags) if f == 'ok' and o not in ('NONE', 'PANIC', 'BADCASE')]
    verdict = V.run_model('spec-engineline', [o for _, o in rendered])
    for (c, o), v in zip(rendered, verdict):
        if v == 'bad':
            if k < MAXREP: res.violation('consoletx', c, 'a valid UCI engine-to-GUI line', o, 'spec', 'a message satisfying msg_ok was rendered to an invalid line')
            k += 1
    if True:
        so = V.run_model('spec-engineline', all_lines)
        res.count('spec-engineline', all_lines)
        for l, s, ci in zip(all_lines, so, owner):
            if s == 'bad':
                if k < MAXREP: res.violation('session', cases[ci], 'a valid UCI engine-to-GUI line', l, 'spec', 'engine wrote a line outside the UCI output grammar')
                k += 1
    else:
        rx = re.compile(r'^(id (name|author) .+|uciok|readyok|bestmove ([a-h][1-8][a-h][1-8][qrbn]?|0000)( ponder [a-h][1-8][a-h][1-8][qrbn]?)?|registration (checking|ok|error)|info( (depth|seldepth|time|nodes|multipv|currmovenumber|hashfull|nps|tbhits|sbhits|cpuload) \d+| pv( [a-h][1-8][a-h][1-8][qrbn]?)+| score (cp|mate) -?\d+( lowerbound| upperbound)?)+( string .*)?)$')
        for l, ci in zip(all_lines, owner):
            from common import unesc
            if not rx.match(unesc(l)):
                if k < MAXREP: res.violation('session', cases[ci], 'a valid UCI engine-to-GUI line', l, 'grammar', 'engine wrote a line outside the UCI output grammar')
                k += 1
    return dict(rule='sessions of 2-8 position/go cycles on one engine (ucinewgame, debug on/off, isready, depth/movetime/infinite+stop); every output line against the UCI output grammar; per search monotone depth/nodes/time, pv legality by replay, bestmove/ponder vs the last pv')

"""Case generators for families `uciparse` and `ucimove` (uci/src/uci/parser.rs, uci/src/uci.rs; property C15).

uciparse  case line = the command text, escaped (common.esc; leading/trailing spaces as `\\s`), one field
          observation: `ok <command rendering>` | `err <kind> ...` | PANIC   (coq/Driver/RunUci.v, harness/src/fam_uci.rs)
ucimove   case line = a move text, escaped;  observation `ok <move>` | `err` | PANIC

`gen(rng, tier)`        -> uciparse case lines (grammar-rendered commands with random layouts, every subset and
                           order of the `go` parameters, boundary numbers, token-level mutations, case changes,
                           White_Space and non-ASCII characters inside and around, random strings / bytes)
`gen_moves(rng, tier)`  -> ucimove case lines (all 64x64x7 move texts in thorough, a sample in quick, plus
                           malformed ones)
`nontrivial(line)`      -> the line's first word is a UCI command that takes parameters (or, for ucimove lines, the
                           text has 4 or 5 characters)
"""
import random

from common import esc, unesc

FILES = "abcdefgh"
RANKS = "12345678"
PROMO = ["", "q", "r", "b", "n", "k", "p"]

SIMPLE = ["uci", "isready", "ucinewgame", "stop", "ponderhit", "quit"]
COMMANDS = SIMPLE + ["go", "position", "register", "setoption", "debug"]
GO_DUR = ["wtime", "btime", "winc", "binc", "movetime"]
GO_NUM = ["movestogo", "depth", "nodes", "mate"]
GO_FLAG = ["ponder", "infinite"]
GO_TOKENS = ["searchmoves", "ponder", "wtime", "btime", "winc", "binc", "movestogo", "depth", "nodes", "mate",
             "movetime", "infinite"]
KEYWORDS = COMMANDS + GO_TOKENS + ["fen", "startpos", "moves", "name", "value", "code", "later", "on", "off"]

# char::is_whitespace (Unicode White_Space): trimmed by str::trim, but only U+0020 separates tokens
WS = ["\t", "\n", "\x0b", "\x0c", "\r", " ", "\x85", "\xa0", "\u1680", "\u2000", "\u2003", "\u200a", "\u2028",
      "\u2029", "\u202f", "\u205f", "\u3000"]
# look like blanks but are not White_Space
NOT_WS = ["\u200b", "\u180e", "\ufeff", "\x1f", "\x00", "\u2060"]
ODD = ["\xe9", "\xdf", "\u0131", "\u212a", "\uff11", "\u0661", "\U0001f600", "\u0430", "\uff45", "\x7f", "|", "\\"]

STARTPOS = "rnbqkbnr/pppppppp/8/8/8/8/PPPPPPPP/RNBQKBNR w KQkq - 0 1"
FENS = [
    STARTPOS,
    "rnbqkbnr/pp1ppppp/8/2p5/4P3/5N2/PPPP1PPP/RNBQKB1R b - - 1 2",
    "r3k2r/p1ppqpb1/bn2pnp1/3PN3/1p2P3/2N2Q1p/PPPBBPPP/R3K2R w KQkq - 0 1",
    "8/2p5/3p4/KP5r/1R3p1k/8/4P1P1/8 w - - 0 1",
    "rnbqkbnr/pppppppp/8/8/4P3/8/PPPP1PPP/RNBQKBNR b KQkq e3 0 1",
    "8/8/8/8/8/8/8/8 w - -",
    "4k3/8/8/8/8/8/8/4K3 b - - 4294967295 4294967295",
    "4k3/8/8/8/8/8/8/4K3 w Kq a6 007 00",
    "startpos",
]
BAD_FENS = [
    "rnbqkbnr/pp1ppppp/8/44/4P3/5N2/PPPP1PPP/RNBQKB1R b - - 1 2",
    "rnbqkbnr/pppppppp/8/8/8/8/PPPPPPPP w KQkq - 0 1",
    "rnbqkbnr/pppppppp/9/8/8/8/PPPPPPPP/RNBQKBNR w KQkq - 0 1",
    "rnbqkbnr/pppppppp/8/8/8/8/PPPPPPPP/RNBQKBNR x KQkq - 0 1",
    "rnbqkbnr/pppppppp/8/8/8/8/PPPPPPPP/RNBQKBNR w qK - 0 1",
    "rnbqkbnr/pppppppp/8/8/8/8/PPPPPPPP/RNBQKBNR w KQkq e9 0 1",
    "rnbqkbnr/pppppppp/8/8/8/8/PPPPPPPP/RNBQKBNR w KQkq - 0",
    "rnbqkbnr/pppppppp/8/8/8/8/PPPPPPPP/RNBQKBNR w KQkq - -1 1",
    "rnbqkbnr/pppppppp/8/8/8/8/PPPPPPPP/RNBQKBNR w KQkq - 0 4294967296",
    "rnbqkbnr/pppppppp/7/8/8/8/PPPPPPPP/RNBQKBNR w KQkq - 0 1",
    "rnbqkbnr/pppppppp/8/8/8/8/PPPPPPPP/RNBQKBNR w KQkq - 0 1 extra",
    "8/8/8/8/8/8/8/8", "w", "moves", "fen", "STARTPOS",
]

NUM_SPECIAL = ["0", "1", "5", "+5", "-5", "-0", "+0", "007", "000", "10", "60000", "-60000", "4294967295", "4294967296",
               "9223372036854775807", "9223372036854775808", "+9223372036854775807", "-9223372036854775808",
               "-9223372036854775809", "18446744073709551615", "18446744073709551616", "+18446744073709551615",
               "00000000000000000000000000018446744073709551615", "99999999999999999999999999"]
NUM_BAD = ["", "x", "1x", "x1", "+", "-", "--1", "++1", "+-1", "1.5", "1e3", "0x10", "\uff11", "\u0661", "1_000", "1,000",
           "\u22121", "1\t", "\t1", "1\xa0", "one", "depth", "infinite"]
MOVE_BAD = ["A1a2", "1234", "a1a2qq", "e2e", "e2", "e", "\xe92e4", "e2e9", "e0e4", "i2e4", "e2i4", "a1a2x", "a1a2Q",
            "h7h8K", "a1a2 ", "e2-e4", "e2e4+", "0000", "(none)", "a1\xe92", "`1a2", "a:a2", "a/a2", "h9h1", "a1a2\xe9",
            "\uff451e2", "a\uff11a2", "a\u0661a2", "E2E4", "e2E4", "a1a2qk", "mate", "wtime"]


def rand_move(rng):
    return (rng.choice(FILES) + rng.choice(RANKS) + rng.choice(FILES) + rng.choice(RANKS)
            + (rng.choice(PROMO) if rng.random() < 0.3 else ""))


def odd_move(rng):
    r = rng.random()
    if r < 0.5:
        return rng.choice(MOVE_BAD)
    m = rand_move(rng)
    if r < 0.65:
        return m[:4] + rng.choice("QRBNKP")
    if r < 0.8:
        i = rng.randrange(len(m))
        return m[:i] + rng.choice("`ai09:/AH@hI" + "".join(ODD)) + m[i + 1:]
    if r < 0.9:
        return m + rng.choice("qx1 \t")
    return m[:rng.randrange(len(m))]


def rand_moves(rng, bad=0.0):
    n = rng.choice([0, 1, 1, 2, 3, 5, 8])
    return [odd_move(rng) if rng.random() < bad else rand_move(rng) for _ in range(n)]


def rand_num(rng, bad=0.0):
    r = rng.random()
    if r < bad:
        return rng.choice(NUM_BAD)
    if r < bad + 0.35:
        return rng.choice(NUM_SPECIAL)
    if r < bad + 0.45:
        return str(rng.randint(-(1 << 64), 1 << 65))
    if r < bad + 0.5:
        return rng.choice(["+", "-", "00"]) + str(rng.randint(0, 1 << 63))
    return str(rng.randint(0, 100000))


def rand_word(rng):
    r = rng.random()
    if r < 0.55:
        return "".join(rng.choice("abcdefghijklmnopqrstuvwxyzABCXYZ0123456789_-./:") for _ in range(rng.randint(1, 8)))
    if r < 0.7:
        return rng.choice(KEYWORDS)
    if r < 0.8:
        return rng.choice(KEYWORDS).upper()
    if r < 0.9:
        w = rand_word(rng)
        i = rng.randrange(len(w) + 1)
        return w[:i] + rng.choice(ODD + NOT_WS + WS[:5] + WS[6:]) + w[i:]
    return "".join(chr(rng.randint(33, 126)) for _ in range(rng.randint(1, 6)))


def rand_text(rng, stop):
    """free text of a name / value / code field; sometimes contains the stop keyword of the field"""
    ws = [rand_word(rng) for _ in range(rng.choice([1, 1, 1, 2, 2, 3, 4]))]
    if rng.random() < 0.12:
        ws.insert(rng.randrange(len(ws) + 1), stop)
    return ws


def go_tokens(rng, bad=0.0):
    """every subset and order of the parameters"""
    r = rng.random()
    if r < 0.1:
        keys = list(GO_TOKENS)
    elif r < 0.15:
        keys = []
    else:
        keys = [k for k in GO_TOKENS if rng.random() < rng.choice([0.15, 0.3, 0.5, 0.8])]
    if rng.random() < 0.85:
        rng.shuffle(keys)
    if rng.random() < bad:                         # duplicated parameter
        if keys:
            keys.insert(rng.randrange(len(keys) + 1), rng.choice(keys))
    toks = []
    for k in keys:
        toks.append(k)
        if k == "searchmoves":
            toks += rand_moves(rng, bad * 0.5)
        elif k in GO_DUR or k in GO_NUM:
            if rng.random() >= bad * 0.3:          # else: missing value
                toks.append(rand_num(rng, bad))
    return toks


def position_tokens(rng, bad=0.0):
    toks = []
    r = rng.random()
    if r < 0.4:
        toks.append("startpos")
    elif r < 0.95:
        toks.append("fen")
        f = rng.choice(BAD_FENS) if rng.random() < bad else rng.choice(FENS)
        if rng.random() < bad * 0.5:
            i = rng.randrange(len(f))
            f = f[:i] + rng.choice("9xK/ -0w") + f[i + 1:]
        toks += f.split(" ")
    elif r < 0.98:
        toks.append(rng.choice(["fen", "startpos", "moves", rand_word(rng)]))
    if rng.random() < 0.75:
        toks.append("moves")
        toks += rand_moves(rng, bad)
    elif rng.random() < bad:
        toks += rand_moves(rng, bad) or [rand_word(rng)]
    return toks


def command_tokens(rng, bad=0.0):
    r = rng.random()
    if r < 0.12:
        toks = [rng.choice(SIMPLE)]
        if rng.random() < 0.25:
            toks.append(rand_word(rng))
        return toks
    if r < 0.2:
        return ["debug"] + ([rng.choice(["on", "off"])] if rng.random() < 0.8 else
                            rng.choice([[], ["maybe"], ["ON"], ["on", "off"], [rand_word(rng)]]))
    if r < 0.3:
        toks = ["setoption"]
        if rng.random() < 0.92:
            toks.append("name")
            if rng.random() < 0.95:
                toks += rand_text(rng, "value")
            if rng.random() < 0.6:
                toks.append("value")
                if rng.random() < 0.9:
                    toks += rand_text(rng, "value")
        else:
            toks += rng.choice([[], ["value", "x"], [rand_word(rng)], ["Name", "x"]])
        return toks
    if r < 0.4:
        toks = ["register"]
        q = rng.random()
        if q < 0.25:
            toks.append("later")
            if rng.random() < 0.3:
                toks.append(rand_word(rng))
        elif q < 0.9:
            toks.append("name")
            if rng.random() < 0.95:
                toks += rand_text(rng, "code")
            if rng.random() < 0.9:
                toks.append("code")
                if rng.random() < 0.9:
                    toks += rand_text(rng, "code")
        else:
            toks += rng.choice([[], ["code", "x"], [rand_word(rng)], ["Later"], ["name"]])
        return toks
    if r < 0.65:
        return ["position"] + position_tokens(rng, bad)
    return ["go"] + go_tokens(rng, bad)


NEAR = {}
for _k in KEYWORDS:
    NEAR[_k] = [_k.upper(), _k.capitalize(), _k + "s", _k[:-1], _k + "\t", "\t" + _k, _k + "\xa0", _k[0] + _k, "\u200b" + _k]
NEAR["wtime"] += ["btime", "wtim", "w_time"]
NEAR["moves"] += ["move", "searchmoves"]
NEAR["searchmoves"] += ["moves", "searchmove"]
NEAR["startpos"] += ["startposition", "start"]
NEAR["uci"] += ["ucinewgame", "uc", "ucii"]


def mutate(rng, toks):
    toks = list(toks)
    if not toks:
        return [rand_word(rng)]
    k = rng.randrange(10)
    i = rng.randrange(len(toks))
    if k == 0:
        del toks[i]
    elif k == 1:
        toks.insert(i, toks[i])
    elif k == 2:
        j = rng.randrange(len(toks))
        toks[i], toks[j] = toks[j], toks[i]
    elif k == 3:
        kw = [x for x in range(len(toks)) if toks[x] in NEAR]
        if kw:
            i = rng.choice(kw)
            toks[i] = rng.choice(NEAR[toks[i]])
    elif k == 4:
        toks[i] = rng.choice(NUM_BAD + NUM_SPECIAL)
    elif k == 5:
        toks[i] = odd_move(rng)
    elif k == 6:
        toks[i] = rng.choice(KEYWORDS)
    elif k == 7:
        t = toks[i]
        toks[i] = "".join(c.upper() if rng.random() < 0.5 else c for c in t)
    elif k == 8:
        t = toks[i]
        p = rng.randrange(len(t) + 1)
        toks[i] = t[:p] + rng.choice(ODD + NOT_WS + WS[:5] + WS[6:]) + t[p:]
    else:
        toks.insert(i, rand_word(rng))
    return [t for t in toks if t != ""] if rng.random() < 0.9 else toks


def layout(rng, toks, wild=False):
    """join the tokens with >= 1 spaces, surround with White_Space; `wild`: also TABs etc. in place of a space"""
    out = []
    for n, t in enumerate(toks):
        if n:
            if wild and rng.random() < 0.08:
                out.append(rng.choice(WS + NOT_WS))
            else:
                out.append(" " * rng.choice([1, 1, 1, 1, 2, 3, 7]))
        out.append(t)
    lead = "".join(rng.choice(WS if rng.random() < 0.5 else [" "]) for _ in range(rng.choice([0, 0, 0, 1, 2, 4])))
    trail = "".join(rng.choice(WS if rng.random() < 0.5 else [" "]) for _ in range(rng.choice([0, 0, 0, 1, 2, 4])))
    if wild and rng.random() < 0.05:
        lead += rng.choice(NOT_WS)
    if wild and rng.random() < 0.05:
        trail = rng.choice(NOT_WS) + trail
    return lead + "".join(out) + trail


def case(text):
    """escape a command text into a one-field case line; outer spaces are written `\\s` so that they survive"""
    e = esc(text)
    n = len(e) - len(e.lstrip(" "))
    e = "\\s" * n + e[n:]
    m = len(e) - len(e.rstrip(" "))
    if m:
        e = e[:len(e) - m] + "\\s" * m
    return e


def random_string(rng):
    r = rng.random()
    n = rng.choice([0, 1, 2, 3, 5, 8, 13, 21, 40])
    if r < 0.3:
        return "".join(chr(rng.randint(32, 126)) for _ in range(n))
    if r < 0.5:                                   # random bytes read as latin-1
        return "".join(chr(rng.randint(0, 255)) for _ in range(n))
    if r < 0.7:
        return " ".join(rng.choice(KEYWORDS + NUM_SPECIAL[:6] + ["e2e4", "a7a8q"]) for _ in range(n % 9))
    if r < 0.85:
        pool = WS + NOT_WS + ODD + list("abz09 ")
        return "".join(rng.choice(pool) for _ in range(n))
    cp = []
    for _ in range(n):
        c = rng.randint(0, 0x10ffff)
        if 0xd800 <= c <= 0xdfff:
            c = 0x2603
        cp.append(chr(c))
    return "".join(cp)


FIXED = [
    "", " ", "   ", "\t", "uci", " uci", "uci ", "uci something", "UCI", "Uci", "uci\t", "\tuci", "uci\tx", "\xa0uci\u3000",
    "\u200buci", "go", "go infinite", "go\tinfinite", "go infinite\t", "go ponder ponder", "go depth 3 depth 4",
    "go depth x", "go depth", "go wtime", "go wtime -5", "go wtime +5", "go wtime -9223372036854775808",
    "go wtime -9223372036854775809", "go wtime 9223372036854775807", "go wtime 9223372036854775808",
    "go nodes 18446744073709551615", "go nodes 18446744073709551616", "go nodes -0", "go nodes -1", "go nodes +7",
    "go searchmoves", "go searchmoves infinite", "go searchmoves e2e4 infinite e7e5", "go searchmoves e2e4 searchmoves",
    "go searchmoves mate", "go searchmoves e2e4 mate 3", "go mate mate", "go infinite searchmoves e2e4 d2d4",
    "go something", "go Depth 3", "go depth 3 something",
    "position", "position startpos", "position startpos moves", "position startpos moves e2e4 e7e5",
    "position startpos moves A1a2", "position startpos moves a1a2qq", "position startpos moves e2e9",
    "position startpos e2e4", "position startpos moves moves", "position fen", "position fen moves",
    "position fen startpos", "position fen startpos moves e2e4", "position fen " + STARTPOS,
    "position  fen  " + STARTPOS.replace(" ", "   ") + "   moves   e2e4", "position fen " + STARTPOS + " moves",
    "position fen " + FENS[5], "position fen " + BAD_FENS[0] + " moves h4h6q a1a9", "position moves e2e4",
    "position startpos fen " + STARTPOS, "position fen " + STARTPOS + " startpos",
    "debug", "debug on", "debug off", "debug maybe", "debug on off", "debug ON",
    "setoption", "setoption name", "setoption name foo", "setoption name foo value", "setoption name foo value 1 2 3",
    "setoption name value", "setoption name value value", "setoption name value value 3", "setoption name a value b value c",
    "setoption value 3", "setoption something foo", "setoption name foo\tvalue 3", "setoption name foo\t", "setoption name \xe9 value \U0001f600",
    "register", "register later", "register later something", "register name", "register name a", "register name a code",
    "register name a code b", "register name Stefan MK code 43598 74324 something", "register name code code x",
    "register name later code x", "register code x", "register something", "register name a b code code",
    "isready", "ucinewgame", "stop", "ponderhit", "quit", "quit now", "ucinewgame\n", "stop\r\n", "isready\r",
    "something", "go\xa0infinite", "position\tstartpos",
]


def gen(rng, tier):
    n = 6000 if tier == "quick" else 300000
    out = [case(x) for x in FIXED]
    # every go parameter alone, every ordered pair, with boundary values
    for a in GO_TOKENS:
        for b in [None] + GO_TOKENS:
            toks = ["go"]
            for k in ([a] if b is None else [a, b]):
                toks.append(k)
                if k == "searchmoves":
                    toks += rand_moves(rng)
                elif k not in GO_FLAG:
                    toks.append(rand_num(rng))
            out.append(case(layout(rng, toks)))
    while len(out) < n:
        r = rng.random()
        if r < 0.40:                                # well-formed (mostly) with a random layout
            out.append(case(layout(rng, command_tokens(rng, 0.0))))
        elif r < 0.55:                              # ill-typed / missing / duplicated parameters
            out.append(case(layout(rng, command_tokens(rng, 0.35))))
        elif r < 0.80:                              # token-level mutations of a well-formed line
            toks = command_tokens(rng, 0.05)
            for _ in range(rng.choice([1, 1, 1, 2, 3])):
                toks = mutate(rng, toks)
            out.append(case(layout(rng, toks, wild=rng.random() < 0.5)))
        elif r < 0.90:                              # wild layout: TAB / NBSP / ZWSP in place of a separating space
            out.append(case(layout(rng, command_tokens(rng, 0.1), wild=True)))
        else:
            out.append(case(random_string(rng)))
    return out


def all_moves():
    for a in FILES:
        for b in RANKS:
            for c in FILES:
                for d in RANKS:
                    for p in PROMO:
                        yield a + b + c + d + p


def gen_moves(rng, tier):
    out = [case(x) for x in MOVE_BAD + ["", " ", "e2e4", "a7a8q", "h1a1k", "h1a1p", "a1a1", "h8h8n"]]
    every = list(all_moves())
    if tier == "quick":
        out += [case(m) for m in rng.sample(every, 3000)]
        extra = 3000
    else:
        out += [case(m) for m in every]
        extra = 270000
    for _ in range(extra):
        r = rng.random()
        if r < 0.55:
            out.append(case(odd_move(rng)))
        elif r < 0.7:
            m = rand_move(rng)
            out.append(case("".join(c.upper() if rng.random() < 0.4 else c for c in m)))
        elif r < 0.85:                             # every character position replaced by a neighbour of the valid range
            m = rng.choice(every)
            i = rng.randrange(len(m))
            out.append(case(m[:i] + chr(max(0, ord(m[i]) + rng.choice([-49, -32, -17, -1, 1, 8, 9, 32, 0xfee0]))) + m[i + 1:]))
        else:
            out.append(case(random_string(rng)[:rng.choice([3, 4, 5, 6])]))
    # integer-width aliasing: a character whose code point equals a valid one modulo 2^8 / 2^16 (e.g. U+0165 for 'e',
    # U+0132 for '2') must not be read as that character; every position of a valid move text, several offsets
    offs = [0x100, 0x200, 0x500, 0x1000, 0x10000, 0x20000] if tier != "quick" else [0x100, 0x500, 0x10000]
    for m in rng.sample(every, 60 if tier == "quick" else 1500):
        for i in range(len(m)):
            for o in offs:
                out.append(case(m[:i] + chr(ord(m[i]) + o) + m[i + 1:]))
    return out


def nontrivial(line):
    text = unesc(line)
    ws = [w for w in text.strip().split(" ") if w]
    if ws and ws[0] in ("go", "position", "register", "setoption", "debug") and len(ws) > 1:
        return True
    return len(ws) == 1 and len(ws[0]) in (4, 5) and ws[0][0] in FILES


if __name__ == "__main__":
    import collections
    import sys
    for tier in ("quick", "thorough") if len(sys.argv) < 2 else (sys.argv[1],):
        cs = gen(random.Random(1), tier)
        ms = gen_moves(random.Random(1), tier)
        first = collections.Counter((unesc(c).strip().split(" ") or [""])[0] if unesc(c).strip().split(" ")[0] in COMMANDS else "?" for c in cs)
        print(tier, "uciparse", len(cs), "distinct", len(set(cs)), "nontrivial", sum(1 for c in cs if nontrivial(c)), dict(first))
        print(tier, "ucimove", len(ms), "distinct", len(set(ms)), "nontrivial", sum(1 for c in ms if nontrivial(c)))

"""Case generator for family `consoletx` (uci/src/uci/console.rs `ConsoleUciTx`, property C16, output side).

Case line: TAB separated fields, every field escaped on its own; field 1 is the `UciTx` method
    idname <text> | idauthor <text> | uciok | readyok | debug <text>
    bestmove <move|-> <move|->
    copyprotection|registration <checking|ok|error>
    info <key>=<value> ...      keys depth seldepth time nodes pv multipv score currmove currmovenumber hashfull nps
                                tbhits sbhits cpuload string refutation currline (any subset / order, each once)
    optioncheck <name> <true|false> | optionspin <name> <i32> <i32> <i32> | optioncombo <name> <default> <var>*
    optionbutton <name> | optionstring <name> <default>
Observation: the rendered line (escaped) | NONE | PANIC | BADCASE
(see coq/Driver/RunUciOut.v `run_consoletx`, harness/src/fam_consoletx.rs).

The same cases are fed to the model-only family `consoletx-ok` (msg_ok) and every rendered line to `spec-engineline`:
a message with msg_ok must render to a line the grammar accepts.

`gen(rng, tier)` -> list of case lines; `nontrivial(line)` -> bool.
"""
import itertools
import random

try:
    from common import esc
except ImportError:                                  # imported as checks.gen_consoletx
    from .common import esc

U32 = (1 << 32) - 1
U64 = (1 << 64) - 1
I32MIN, I32MAX = -(1 << 31), (1 << 31) - 1

KEYS = ["depth", "seldepth", "time", "nodes", "pv", "multipv", "score", "currmove", "currmovenumber", "hashfull",
        "nps", "tbhits", "sbhits", "cpuload", "string", "refutation", "currline"]
U32KEYS = {"depth", "seldepth", "multipv", "currmovenumber", "hashfull", "tbhits", "sbhits", "cpuload"}
U64KEYS = {"time", "nodes", "nps"}


def field(s):
    """one protocol field; leading / trailing spaces are written as \\s so that no tool can strip them"""
    e = esc(s)
    if e.startswith(' '):
        e = '\\s' + e[1:]
    if e.endswith(' ') and len(e) > 0:
        e = e[:-1] + '\\s'
    return e


def sq(rng):
    return rng.choice("abcdefgh") + rng.choice("12345678")


def move(rng, wild=True):
    r = rng.random()
    m = sq(rng) + sq(rng)
    if r < 0.25:
        m += rng.choice("qrbn")
    elif wild and r < 0.32:
        m += rng.choice("kp")                       # representable in UciMove, not a UCI move
    return m


def moves(rng, wild=True):
    r = rng.random()
    if wild and r < 0.12:
        n = 0                                       # Some(vec![])
    elif r < 0.45:
        n = 1
    elif r < 0.9:
        n = rng.randint(2, 6)
    else:
        n = rng.randint(7, 40)
    return ",".join(move(rng, wild) for _ in range(n))


def u(rng, top):
    r = rng.random()
    if r < 0.35:
        return rng.randint(0, 30)
    if r < 0.5:
        return rng.choice([0, 1, 9, 10, 99, 100, 999, 1000, 1001, 65535, 65536, top - 1, top])
    if r < 0.8:
        return rng.randint(0, 10 ** rng.randint(1, 9))
    return rng.randint(0, top)


def i32(rng):
    r = rng.random()
    if r < 0.3:
        return rng.randint(-300, 300)
    if r < 0.45:
        return rng.choice([0, -1, 1, I32MIN, I32MAX, -10, 10, -99999, 100000, -2147483647])
    if r < 0.8:
        return rng.randint(-100000, 100000)
    return rng.randint(I32MIN, I32MAX)


WORDS = ["hello", "world", "Inkayaku", "Marvin", "Kuhnke", "(see", "https://github.com/marvk/rust-chess)", "tphitrate",
         "0.25", "NaN", "nrate", "Hash", "Clear", "Style", "Normal", "c:\\path\\", "x=y", "a,b", "-", "0000", "e2e4",
         "type", "name", "default", "min", "max", "var", "string", "depth", "pv", "info", "score", "cp", "ponder",
         "bestmove", "\u00e4\u00f6", "\u2603", "<empty>", "true", "false", "12", "-3"]
ODD = ["", " ", "  ", "\t", "\n", "\r\n", "\u00a0", "\u2003", "\u3000", "\u0085", "\x0b", "\\", "\\s", "\x00", "\x7f"]


def text(rng, wild=True):
    r = rng.random()
    if wild and r < 0.06:
        return ""
    if wild and r < 0.12:
        return rng.choice(ODD)
    n = rng.choice([1, 1, 1, 2, 2, 3, 4, 6])
    ws = [rng.choice(WORDS) for _ in range(n)]
    sep = " "
    s = sep.join(ws)
    if wild:
        r = rng.random()
        if r < 0.06:
            s = " " + s
        elif r < 0.12:
            s = s + " "
        elif r < 0.16:
            s = s.replace(" ", "  ", 1)
        elif r < 0.20:
            s = s + rng.choice(ODD)
        elif r < 0.24:
            s = rng.choice(ODD) + s
        elif r < 0.28:
            k = rng.randint(0, len(s))
            s = s[:k] + rng.choice(ODD) + s[k:]
    return s


def score(rng):
    k = rng.choice(["cp", "cp", "cp", "cpl", "cpu", "mate", "mate"])
    return "%s:%d" % (k, i32(rng))


def value(rng, key, wild=True):
    if key in U32KEYS:
        if key == "hashfull" and not wild:
            return str(rng.randint(0, 1000))
        return str(u(rng, U32))
    if key in U64KEYS:
        return str(u(rng, U64))
    if key in ("pv", "refutation"):
        return moves(rng, wild)
    if key == "currmove":
        return move(rng, wild)
    if key == "score":
        return score(rng)
    if key == "currline":
        return "%d:%s" % (u(rng, U32), moves(rng, wild))
    if key == "string":
        return text(rng, wild)
    raise KeyError(key)


def info_case(rng, keys, wild=True, shuffle=True):
    keys = list(keys)
    if shuffle and rng.random() < 0.5:
        rng.shuffle(keys)
    return "\t".join(["info"] + ["%s=%s" % (k, field(value(rng, k, wild))) for k in keys])


def engine_info(rng):
    """the shapes search.rs sends: iteration report and periodic report"""
    if rng.random() < 0.3:
        keys = ["time", "nodes", "hashfull", "nps"]
    else:
        keys = ["depth", "time", "nodes", "hashfull", "nps"]
        if rng.random() < 0.85:
            keys += ["pv", "score"]
        if rng.random() < 0.3:
            keys += ["string"]
    return info_case(rng, keys, wild=False)


def subset(rng):
    r = rng.random()
    if r < 0.2:
        p = 0.15
    elif r < 0.6:
        p = 0.5
    else:
        p = 0.85
    return [k for k in KEYS if rng.random() < p]


def other_case(rng):
    r = rng.randrange(13)
    wild = rng.random() < 0.5
    if r == 0:
        return "idname\t" + field(text(rng, wild))
    if r == 1:
        return "idauthor\t" + field(text(rng, wild))
    if r == 2:
        return rng.choice(["uciok", "readyok"])
    if r == 3:
        return "debug\t" + field(text(rng))
    if r in (4, 5):
        b = "-" if rng.random() < 0.25 else move(rng, wild)
        p = "-" if rng.random() < 0.4 else move(rng, wild)
        return "bestmove\t%s\t%s" % (b, p)
    if r == 6:
        return "%s\t%s" % (rng.choice(["copyprotection", "registration"]), rng.choice(["checking", "ok", "error"]))
    if r == 7:
        return "optioncheck\t%s\t%s" % (field(text(rng, wild)), rng.choice(["true", "false"]))
    if r == 8:
        return "optionspin\t%s\t%d\t%d\t%d" % (field(text(rng, wild)), i32(rng), i32(rng), i32(rng))
    if r == 9:
        n = rng.choice([0, 1, 2, 3, 5])
        return "\t".join(["optioncombo", field(text(rng, wild)), field(text(rng, wild))] + [field(text(rng, wild)) for _ in range(n)])
    if r == 10:
        return "optionbutton\t" + field(text(rng, wild))
    if r == 11:
        return "optionstring\t%s\t%s" % (field(text(rng, wild)), field(text(rng, wild)))
    return "idname\t" + field(rng.choice(["Inkayaku", "Marvin Kuhnke (see https://github.com/marvk/rust-chess)"]))


def fixed_cases():
    out = ["uciok", "readyok", "info",
           "idname\tInkayaku", "idauthor\tMarvin Kuhnke (see https://github.com/marvk/rust-chess)",
           "idname\t", "idauthor\t", "idname\t\\s", "idname\t\\n", "idname\ta\\nb",
           "registration\tchecking", "registration\tok", "registration\terror",
           "copyprotection\tchecking", "copyprotection\tok", "copyprotection\terror",
           "bestmove\t-\t-", "bestmove\te2e4\t-", "bestmove\te2e4\te7e5", "bestmove\t-\te7e5", "bestmove\ta7a8q\tb2b1n",
           "bestmove\ta7a8k\t-", "bestmove\ta7a8p\ta2a1k", "bestmove\ta1h8\th1a8",
           "info\tpv=", "info\trefutation=", "info\tcurrline=0:", "info\tcurrline=3:e2e4", "info\tstring=",
           "info\tstring=\\s", "info\tstring=a\\nb", "info\tstring=depth 3 pv e2e4", "info\tdepth=1\tstring=string string",
           "info\thashfull=1000", "info\thashfull=1001", "info\thashfull=%d" % U32, "info\tcurrmove=e7e8k",
           "info\tscore=mate:-%d" % (1 << 31), "info\tscore=cpl:%d" % I32MAX, "info\tscore=cpu:0", "info\tscore=cp:-0",
           "info\tnodes=%d\tnps=%d\ttime=%d" % (U64, U64, U64), "info\tdepth=%d" % U32, "info\tdepth=007",
           "debug\thello", "debug\t",
           "optionbutton\tClear Hash", "optionbutton\t", "optionbutton\t\\s", "optionbutton\tmy type",
           "optioncheck\tNullmove\ttrue", "optioncheck\tNullmove\tfalse", "optionspin\tSelectivity\t2\t0\t4",
           "optionspin\tHash\t-1\t-%d\t%d" % (1 << 31, I32MAX),
           "optioncombo\tStyle\tNormal\tSolid\tNormal\tRisky", "optioncombo\tStyle\tNormal", "optioncombo\tStyle\t",
           "optioncombo\tStyle\tNormal\t\tx", "optioncombo\tStyle\tNormal\tvar\tx y",
           "optionstring\tNalimovPath\tc:\\\\", "optionstring\tNalimovPath\t", "optionstring\tNalimovPath\t<empty>",
           "optionstring\tP\tx\\u{a0}", "optionstring\tP\tx\\t", "optionstring\t\\u{3000}P\tx", "optionstring\tP\tmin 3"]
    # every single key, with a plain value and with its edge values
    rng = random.Random(16)
    for k in KEYS:
        out.append(info_case(rng, [k], wild=False))
    # every pair of keys in both orders (the model emits in the coded order whatever the case order is)
    for a, b in itertools.permutations(KEYS, 2):
        out.append(info_case(rng, [a, b], wild=False, shuffle=False))
    # all seventeen
    out.append(info_case(rng, KEYS, wild=False, shuffle=False))
    out.append(info_case(rng, list(reversed(KEYS)), wild=False, shuffle=False))
    return out


def all_subsets(rng):
    out = []
    for mask in range(1 << len(KEYS)):
        keys = [k for i, k in enumerate(KEYS) if mask >> i & 1]
        out.append(info_case(rng, keys, wild=False, shuffle=False))
    return out


def gen(rng, tier):
    quick = tier != "thorough"
    out = fixed_cases()                                             # ~ 360
    n_info, n_ok, n_engine, n_other = (1500, 700, 400, 900) if quick else (60000, 20000, 8000, 30000)
    for _ in range(n_info):
        out.append(info_case(rng, subset(rng), wild=True))
    for _ in range(n_ok):
        out.append(info_case(rng, subset(rng), wild=False))
    for _ in range(n_engine):
        out.append(engine_info(rng))
    for _ in range(n_other):
        out.append(other_case(rng))
    if not quick:
        out += all_subsets(rng)                                     # 131072: every subset of the info fields
    return out


def nontrivial(case):
    """the call carries data: anything but the constant messages"""
    f = case.split("\t")
    return f[0] not in ("uciok", "readyok", "copyprotection", "registration") and len(f) >= 2


if __name__ == "__main__":
    import collections
    for tier in ("quick", "thorough"):
        cases = gen(random.Random(1), tier)
        c = collections.Counter(x.split("\t")[0] for x in cases)
        print(tier, len(cases), "nontrivial", sum(1 for x in cases if nontrivial(x)), dict(c))

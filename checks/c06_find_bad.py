#!/usr/bin/env python3
"""C06 failing-input search for the regenerated obligation `C06_keys_ok_gen`
(Properties/C06.v:  keys_ok tables = true /\\ keys_rows_ok tables = true /\\ gen_masks_ok tables = true).

    c06_find_bad.py [/verif/_build/tables.dump]

Reads the table dump (lines `zob_ps <row> <64 values>`, `zob_ep <8 values>`, `zob_misc wq wk bq bk side`,
`castle_empty wq wk bq bk`, `ranks r1 .. r8`; decimal u64) and prints ONE JSON value on stdout:

  null                               all conditions hold
  {"condition": ..., "detail": ..., "witness": ...}   the first violated condition, in the order
        1. shape        14 rows x 64, 8 e.p. keys, 5 misc keys               (keys_rows_ok, shape part)
        2. keys_ok      the 781 keys (rows 1-6 and 8-13, e.p. files, wq wk bq bk, side) are non-zero and
                        pairwise distinct; same enumeration order as `all_tags` in Proofs/ZobristProofs.v
        3. nopiece_rows rows 0 and 7 are all zero                            (keys_rows_ok, zero part)
        4. gen_masks    castling EMPTY masks contain d1 / f1 / d8 / f8, RANK_8 contains a8

For keys_ok the witness is a pair of FENs that differ exactly in the component(s) named by the offending key(s) and
therefore have the same `calculate_zobrist_hash` (the script re-computes both hashes from the dump and reports the
common value).  For the other conditions the witness is a FEN and a move for which the incrementally updated hash
differs from the recomputed one.  Witness positions are meant for hashing / make_move only; `well_formed` says
whether they have exactly one king per side and no pawn on a back rank (never run move generation on the others).
Squares: 0 = a8 ... 7 = h8, 56 = a1 ... 63 = h1 (file = sq % 8, rank = 8 - sq // 8)."""
import json
import sys

PIECE_LETTER = {1: 'p', 2: 'n', 3: 'b', 4: 'r', 5: 'q', 6: 'k'}
PIECE_NAME = {1: 'pawn', 2: 'knight', 3: 'bishop', 4: 'rook', 5: 'queen', 6: 'king'}
MISC = ['wq', 'wk', 'bq', 'bk', 'side']


def sq_name(sq):
    return 'abcdefgh'[sq % 8] + str(8 - sq // 8)


def load(path):
    d = {'zob_ps': {}, 'zob_ep': None, 'zob_misc': None, 'castle_empty': None, 'ranks': None}
    for line in open(path):
        f = line.split()
        if not f:
            continue
        if f[0] == 'zob_ps':
            d['zob_ps'][int(f[1])] = [int(x) for x in f[2:]]
        elif f[0] in ('zob_ep', 'zob_misc', 'castle_empty', 'ranks'):
            d[f[0]] = [int(x) for x in f[1:]]
    return d


# ---------------------------------------------------------------- positions, FEN, hash (mirror of _zobrist_hash)
def new_pos():
    return {'pieces': {}, 'turn': 1, 'rights': set(), 'ep': 0}


def fen_of(pos):
    rows = []
    for r in range(8):
        row, empty = '', 0
        for f in range(8):
            pc = pos['pieces'].get(8 * r + f)
            if pc is None:
                empty += 1
            else:
                if empty:
                    row += str(empty)
                    empty = 0
                ch = PIECE_LETTER[pc[0]]
                row += ch.upper() if pc[1] == 0 else ch
        if empty:
            row += str(empty)
        rows.append(row)
    castle = ''.join(ch for ch, key in (('K', 'wk'), ('Q', 'wq'), ('k', 'bk'), ('q', 'bq')) if key in pos['rights'])
    return '%s %s %s %s 0 1' % ('/'.join(rows), 'w' if pos['turn'] == 0 else 'b', castle or '-',
                                sq_name(pos['ep']) if pos['ep'] else '-')


def hash_of(d, pos):
    h = 0
    for sq, (p, c) in pos['pieces'].items():
        h ^= d['zob_ps'][p + 7 * c][sq]
    for i, key in enumerate(MISC[:4]):
        if key in pos['rights']:
            h ^= d['zob_misc'][i]
    h ^= d['zob_misc'][4] * (1 - pos['turn'])
    if pos['ep']:
        h ^= d['zob_ep'][pos['ep'] % 8]
    return h


def well_formed(pos):
    kings = [sum(1 for (p, c) in pos['pieces'].values() if p == 6 and c == col) for col in (0, 1)]
    back_pawn = any(p == 1 and (sq < 8 or sq >= 56) for sq, (p, c) in pos['pieces'].items())
    return kings == [1, 1] and not back_pawn


# ---------------------------------------------------------------- the key universe, in the order of `all_tags`
def all_keys(d):
    out = []
    for c in (0, 1):
        for p in range(1, 7):
            for s in range(64):
                out.append((('ps', p, c, s), d['zob_ps'][p + 7 * c][s]))
    for f in range(8):
        out.append((('ep', f), d['zob_ep'][f]))
    for i, name in enumerate(MISC):
        out.append(((name,), d['zob_misc'][i]))
    return out


def describe(tag):
    if tag[0] == 'ps':
        return {'kind': 'piece_square', 'piece': PIECE_NAME[tag[1]], 'colour': 'white' if tag[2] == 0 else 'black',
                'square': sq_name(tag[3]), 'row': tag[1] + 7 * tag[2], 'index': tag[3]}
    if tag[0] == 'ep':
        return {'kind': 'en_passant_file', 'file': 'abcdefgh'[tag[1]], 'index': tag[1]}
    return {'kind': {'wq': 'white_queen_side_right', 'wk': 'white_king_side_right', 'bq': 'black_queen_side_right',
                     'bk': 'black_king_side_right', 'side': 'side_to_move'}[tag[0]]}


def adjacent(a, b):
    return abs(a % 8 - b % 8) <= 1 and abs(a // 8 - b // 8) <= 1


def witness_for_keys(d, t1, t2):
    """Two positions A = P0 + t1 and B = P0 + t2 (B = P0 when t2 is None, i.e. key(t1) = 0)."""
    tags = [t for t in (t1, t2) if t is not None]
    need_castle = any(t[0] in ('wq', 'wk', 'bq', 'bk') for t in tags)
    reserved = set(t[3] for t in tags if t[0] == 'ps')
    p0 = new_pos()                                    # black to move, no rights, no e.p.
    for t in tags:                                    # the pawn an e.p. square needs (black to move: white pawn on rank 4)
        if t[0] == 'ep':
            psq = 32 + t[1]
            if psq in reserved:
                return None, 'the e.p. pawn square %s is needed by the other key' % sq_name(psq)
            p0['pieces'][psq] = (1, 0)
            reserved.add(psq)
            reserved.add(40 + t[1])
    king_tag_colours = [set(t[2] for t in (x,) if x is not None and x[0] == 'ps' and x[1] == 6) for x in (t1, t2)]
    if need_castle:
        fixed = {60: (6, 0), 4: (6, 1), 56: (4, 0), 63: (4, 0), 0: (4, 1), 7: (4, 1)}
        if reserved & set(fixed) or king_tag_colours[0] or king_tag_colours[1]:
            return None, 'a castling key collides with a key on a home square or a king key: no position pair isolates it'
        p0['pieces'].update(fixed)
    else:
        placed = []
        for col, cands in ((0, [56, 63, 58, 61, 48, 55]), (1, [7, 0, 5, 2, 15, 8])):
            if col in king_tag_colours[0] or col in king_tag_colours[1]:
                continue                                # the key itself supplies this king
            for k in cands:
                if k not in reserved and all(not adjacent(k, o) for o in placed) and \
                        all(not (t[0] == 'ps' and t[1] == 6 and adjacent(k, t[3])) for t in tags):
                    p0['pieces'][k] = (6, col)
                    placed.append(k)
                    reserved.add(k)
                    break

    def apply(tag):
        pos = {'pieces': dict(p0['pieces']), 'turn': p0['turn'], 'rights': set(p0['rights']), 'ep': p0['ep']}
        if tag is None:
            return pos
        if tag[0] == 'ps':
            pos['pieces'][tag[3]] = (tag[1], tag[2])
        elif tag[0] == 'ep':
            pos['ep'] = 40 + tag[1]
        elif tag[0] == 'side':
            pos['turn'] = 0
        else:
            pos['rights'].add(tag[0])
        return pos

    a, b = apply(t1), apply(t2)
    ha, hb = hash_of(d, a), hash_of(d, b)
    single = t2 is None or (t1[0] == 'ps' and t2[0] == 'ps' and t1[3] == t2[3]) or (t1[0] == 'ep' and t2[0] == 'ep')
    return {'fen_a': fen_of(a), 'fen_b': fen_of(b), 'hash_a': ha, 'hash_b': hb, 'collide': ha == hb,
            'differ_in': 'exactly one component' if single else 'two components (one per key)',
            'well_formed': well_formed(a) and well_formed(b)}, None


def quiet_king_move_witness(d, row, s):
    """rows 0 / 7: the key of "no captured piece" on the target square of a quiet move must be zero."""
    mover = 1 if row == 0 else 0                       # row = NO_PIECE + 7 * opponent colour
    n = next(x for x in range(64) if x != s and adjacent(x, s))
    other = next(x for x in (7, 56, 0, 63, 28, 35) if not adjacent(x, s) and not adjacent(x, n) and x not in (s, n))
    pos = new_pos()
    pos['turn'] = mover
    pos['pieces'] = {n: (6, mover), other: (6, 1 - mover)}
    after = {'pieces': {s: (6, mover), other: (6, 1 - mover)}, 'turn': 1 - mover, 'rights': set(), 'ep': 0}
    zp = d['zob_ps']
    dx = zp[6 + 7 * mover][n] ^ zp[6 + 7 * mover][s] ^ zp[7 * (1 - mover)][s] ^ d['zob_misc'][4]
    return {'fen': fen_of(pos), 'move': sq_name(n) + sq_name(s), 'incremental': hash_of(d, pos) ^ dx,
            'recomputed': hash_of(d, after), 'well_formed': True}


def find_bad(d):
    # 1. shape
    if sorted(d['zob_ps']) != list(range(14)) or any(len(d['zob_ps'][r]) != 64 for r in d['zob_ps']):
        return {'condition': 'shape', 'detail': {'table': 'zob_ps', 'expected': '14 rows x 64'}, 'witness': None}
    if d['zob_ep'] is None or len(d['zob_ep']) != 8:
        return {'condition': 'shape', 'detail': {'table': 'zob_ep', 'expected': '8 values'}, 'witness': None}
    if d['zob_misc'] is None or len(d['zob_misc']) != 5:
        return {'condition': 'shape', 'detail': {'table': 'zob_misc', 'expected': 'wq wk bq bk side'}, 'witness': None}
    # 2. keys_ok = nodupb (0 :: keys): the first element that re-occurs later
    keys = all_keys(d)
    for tag, v in keys:
        if v == 0:
            w, why = witness_for_keys(d, tag, None)
            return {'condition': 'keys_ok', 'detail': {'violation': 'zero_key', 'key': describe(tag)},
                    'witness': w, 'note': why}
    seen = {}
    first = None
    for i, (tag, v) in enumerate(keys):
        if v in seen:
            cand = (seen[v], i)
            if first is None or cand < first:
                first = cand
        else:
            seen[v] = i
    if first is not None:
        (t1, v), (t2, _) = keys[first[0]], keys[first[1]]
        w, why = witness_for_keys(d, t1, t2)
        return {'condition': 'keys_ok', 'detail': {'violation': 'equal_keys', 'value': v, 'key_a': describe(t1),
                                                    'key_b': describe(t2)}, 'witness': w, 'note': why}
    # 3. rows 0 and 7
    for row in (0, 7):
        for s, v in enumerate(d['zob_ps'][row]):
            if v != 0:
                return {'condition': 'nopiece_rows', 'detail': {'row': row, 'index': s, 'square': sq_name(s), 'value': v},
                        'witness': quiet_king_move_witness(d, row, s)}
    # 4. masks used by move generation
    if d['castle_empty'] is not None:
        for i, (name, sq, fen, mv) in enumerate((('wq_empty', 59, '4k3/8/8/8/8/8/8/R2RK3 w Q - 0 1', 'e1c1'),
                                                 ('wk_empty', 61, '4k3/8/8/8/8/8/8/4KR1R w K - 0 1', 'e1g1'),
                                                 ('bq_empty', 3, 'r2rk3/8/8/8/8/8/8/4K3 b q - 0 1', 'e8c8'),
                                                 ('bk_empty', 5, '4kr1r/8/8/8/8/8/8/4K3 b k - 0 1', 'e8g8'))):
            if not (d['castle_empty'][i] >> sq) & 1:
                return {'condition': 'gen_masks', 'detail': {'mask': name, 'missing_square': sq_name(sq)},
                        'witness': {'fen': fen, 'move': mv, 'well_formed': True,
                                    'expect': 'castling is generated onto the own rook; incremental hash != recomputed hash'}}
    if d['ranks'] is not None and len(d['ranks']) == 8 and not d['ranks'][7] & 1:
        return {'condition': 'gen_masks', 'detail': {'mask': 'RANK_8', 'missing_square': 'a8'},
                'witness': {'fen': 'n3k3/1P6/8/8/8/8/8/4K3 w - - 0 1', 'move': 'b7a8', 'well_formed': True,
                            'expect': 'bxa8 is generated as an e.p. capture (target == NO_SQUARE == a8); '
                                      'incremental hash != recomputed hash'}}
    return None


def main():
    path = sys.argv[1] if len(sys.argv) > 1 else '/verif/_build/tables.dump'
    print(json.dumps(find_bad(load(path)), indent=1, sort_keys=True))


if __name__ == '__main__':
    main()

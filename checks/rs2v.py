#!/usr/bin/env python3
"""rs2v.py - translate the serde-derived Lichess payload types of /repo/lichess_api/src/api into terms of the
schema universe of /verif/coq/Model/Serde.v (property C19).

    python3 /verif/checks/rs2v.py --repo /repo --out /verif/coq/Gen/LichessSchema.v

Reads bot_game_state_response.rs, bot_event_response.rs, response.rs; understands exactly this Rust subset:
  * `#[derive(.. Deserialize ..)]` enums (unit variants / struct variants) and structs with named fields,
  * field types String, u32, i32, u64, bool, Option<T>, a named derived type, and Vec<..> ONLY together with
    `deserialize_with = "from_space_sv"` (Vec<String>) or `"from_csv"` (Vec<ChallengeEventRule>),
  * serde attributes: container `rename_all` (camelCase|lowercase), `tag`; variant `rename_all`, `rename`;
    field `rename`, `default`, `flatten`, `deserialize_with`,
  * the two custom deserialisers and `impl FromStr for ChallengeEventRule`, whose token streams must equal the
    ones the Coq model (space_sv / csv_rules in Model/Serde.v) was written against.
Anything else is a hard error (exit status 2, message naming the construct): the model must never silently
drift from the code.  Wire names follow serde_derive's RenameRule (fields are snake_case in the source,
variants PascalCase)."""
import argparse, os, re, sys

FILES = ["bot_game_state_response.rs", "bot_event_response.rs", "response.rs"]
ROOTS = [("BotGameState", "BotGameState_schema"), ("BotEvent", "BotEvent_schema")]


class Unsupported(Exception):
    pass


def die(where, msg):
    raise Unsupported("%s: %s" % (where, msg))


# ------------------------------------------------------------------ lexer
TOKEN = re.compile(r'''
    (?P<ws>\s+) | (?P<lc>//[^\n]*) | (?P<bc>/\*.*?\*/) |
    (?P<str>"(?:[^"\\]|\\.)*") | (?P<chr>'(?:[^'\\]|\\.)') | (?P<life>'[A-Za-z_][A-Za-z0-9_]*) |
    (?P<id>[A-Za-z_][A-Za-z0-9_]*) | (?P<num>[0-9][0-9A-Za-z_]*) |
    (?P<op>::|->|=>|==|!=|<=|>=|&&|\|\||[#\[\]{}()<>,;:=.&|!?*+\-/%@^~$])
''', re.X | re.S)


def lex(text, fname):
    out, pos, line = [], 0, 1
    while pos < len(text):
        m = TOKEN.match(text, pos)
        if not m:
            die("%s:%d" % (fname, line), "cannot tokenise %r" % text[pos:pos + 20])
        kind = m.lastgroup
        if kind not in ("ws", "lc", "bc"):
            out.append((kind, m.group(), "%s:%d" % (fname, line)))
        line += m.group().count("\n")
        pos = m.end()
    return out


class Cur:
    def __init__(self, toks):
        self.t, self.i = toks, 0

    def peek(self, k=0):
        return self.t[self.i + k][1] if self.i + k < len(self.t) else None

    def kind(self):
        return self.t[self.i][0] if self.i < len(self.t) else None

    def loc(self):
        return self.t[min(self.i, len(self.t) - 1)][2]

    def next(self):
        v = self.t[self.i]
        self.i += 1
        return v[1]

    def expect(self, s):
        if self.peek() != s:
            die(self.loc(), "expected %r, found %r" % (s, self.peek()))
        return self.next()

    def ident(self):
        if self.kind() != "id":
            die(self.loc(), "expected an identifier, found %r" % self.peek())
        return self.next()

    def eof(self):
        return self.i >= len(self.t)

    def balanced(self, open_, close):
        """consume a balanced group starting at the current `open_`; returns the inner tokens"""
        self.expect(open_)
        depth, inner = 1, []
        pairs = {"(": ")", "[": "]", "{": "}"}
        stack = [close]
        while True:
            if self.eof():
                die(self.loc(), "unbalanced %r" % open_)
            k, v, l = self.t[self.i]
            self.i += 1
            if v in pairs and k == "op":
                stack.append(pairs[v])
            elif k == "op" and v in (")", "]", "}"):
                if v != stack[-1]:
                    die(l, "mismatched %r" % v)
                stack.pop()
                if not stack:
                    return inner
            inner.append((k, v, l))


# ------------------------------------------------------------------ parser
def parse_attr(c):
    """#[name] | #[name(...)] -> (name, inner tokens or None, loc)"""
    loc = c.loc()
    c.expect("#")
    inner = Cur(c.balanced("[", "]"))
    name = inner.ident()
    args = None
    if not inner.eof():
        args = inner.balanced("(", ")")
        if not inner.eof():
            die(loc, "unsupported attribute syntax after #[%s(..)]" % name)
    return name, args, loc


def serde_args(args, loc):
    """`k = "v", flag, ...` -> dict"""
    c, out = Cur(args), {}
    while not c.eof():
        k = c.ident()
        if c.peek() == "=":
            c.next()
            if c.kind() != "str":
                die(loc, "serde attribute %s: expected a string literal" % k)
            v = c.next()[1:-1]
            if "\\" in v:
                die(loc, "serde attribute %s: escapes in the literal are not supported" % k)
        else:
            v = True
        if k in out:
            die(loc, "serde attribute %s given twice" % k)
        out[k] = v
        if not c.eof():
            c.expect(",")
    return out


def split_attrs(attrs, allowed, what):
    """merge all #[serde(..)] of one item, reject unknown attributes"""
    serde, derive = {}, []
    for name, args, loc in attrs:
        if name == "serde":
            for k, v in serde_args(args or [], loc).items():
                if k not in allowed:
                    die(loc, "unsupported serde attribute `%s` on %s" % (k, what))
                if k in serde:
                    die(loc, "serde attribute %s given twice on %s" % (k, what))
                serde[k] = v
        elif name == "derive":
            derive += [v for k, v, _ in (args or []) if k == "id"]
        elif name in ("allow", "doc", "warn"):
            pass
        else:
            die(loc, "unsupported attribute #[%s] on %s" % (name, what))
    return serde, derive


def parse_type(c):
    loc = c.loc()
    name = c.ident()
    if c.peek() == "::":
        die(loc, "path types are not supported (%s::..)" % name)
    if c.peek() == "<":
        c.next()
        arg = parse_type(c)
        if c.peek() == ",":
            die(loc, "generic type %s with several arguments" % name)
        c.expect(">")
        return (name, arg)
    return (name, None)


def parse_fields(c, owner):
    """named fields up to the closing brace (cursor is inside the braces)"""
    fields = []
    while not c.eof():
        attrs = []
        while c.peek() == "#":
            attrs.append(parse_attr(c))
        loc = c.loc()
        if c.peek() == "pub":
            c.next()
            if c.peek() == "(":
                c.balanced("(", ")")
        name = c.ident()
        c.expect(":")
        ty = parse_type(c)
        serde, _ = split_attrs(attrs, {"rename", "default", "flatten", "deserialize_with"},
                               "field %s.%s" % (owner, name))
        fields.append(dict(name=name, ty=ty, serde=serde, loc=loc))
        if not c.eof():
            c.expect(",")
    return fields


def parse_items(toks, fname):
    c = Cur(toks)
    items, fns, impls = {}, {}, {}
    while not c.eof():
        attrs = []
        while c.peek() == "#":
            attrs.append(parse_attr(c))
        loc = c.loc()
        if c.peek() == "pub":
            c.next()
        kw = c.peek()
        if kw == "use":
            if attrs:
                die(loc, "attributes on a `use`")
            while c.next() != ";":
                pass
        elif kw in ("enum", "struct"):
            c.next()
            name = c.ident()
            if c.peek() == "<":
                die(loc, "generic %s %s" % (kw, name))
            serde, derive = split_attrs(attrs, {"rename_all", "tag"}, "%s %s" % (kw, name))
            if "Deserialize" not in derive:
                die(loc, "%s %s does not derive Deserialize" % (kw, name))
            if kw == "struct":
                if c.peek() != "{":
                    die(loc, "struct %s: only structs with named fields are supported" % name)
                if "tag" in serde:
                    die(loc, "struct %s: `tag` on a struct" % name)
                body = Cur(c.balanced("{", "}"))
                item = dict(kind="struct", name=name, serde=serde, fields=parse_fields(body, name), loc=loc)
            else:
                body = Cur(c.balanced("{", "}"))
                variants = []
                while not body.eof():
                    vattrs = []
                    while body.peek() == "#":
                        vattrs.append(parse_attr(body))
                    vloc = body.loc()
                    vname = body.ident()
                    vserde, _ = split_attrs(vattrs, {"rename_all", "rename"}, "variant %s::%s" % (name, vname))
                    vfields = None
                    if body.peek() == "{":
                        vfields = parse_fields(Cur(body.balanced("{", "}")), "%s::%s" % (name, vname))
                    elif body.peek() == "(":
                        die(vloc, "tuple variant %s::%s" % (name, vname))
                    elif body.peek() == "=":
                        die(vloc, "explicit discriminant on %s::%s" % (name, vname))
                    variants.append(dict(name=vname, serde=vserde, fields=vfields, loc=vloc))
                    if not body.eof():
                        body.expect(",")
                item = dict(kind="enum", name=name, serde=serde, variants=variants, loc=loc)
            if name in items:
                die(loc, "type %s defined twice" % name)
            items[name] = item
        elif kw == "fn":
            start = c.i
            c.next()
            name = c.ident()
            while c.peek() != "{":
                c.next()
            c.balanced("{", "}")
            fns[name] = [v for _, v, _ in c.t[start:c.i]]
        elif kw == "impl":
            start = c.i
            while c.peek() != "{":
                c.next()
            header = " ".join(v for _, v, _ in c.t[start:c.i])
            c.balanced("{", "}")
            impls[header] = [v for _, v, _ in c.t[start:c.i]]
        else:
            die(loc, "unsupported item starting with %r" % kw)
    return items, fns, impls


# ------------------------------------------------------------------ serde renaming rules
def rename_field(rule, name, loc):
    if rule is None or rule == "lowercase" or rule == "snake_case":
        return name
    if rule == "camelCase":
        parts = name.split("_")
        pascal = "".join(p[:1].upper() + p[1:] for p in parts if p != "")
        return pascal[:1].lower() + pascal[1:]
    die(loc, "unsupported rename_all = %r (fields)" % rule)


def rename_variant(rule, name, loc):
    if rule is None or rule == "PascalCase":
        return name
    if rule == "lowercase":
        return name.lower()
    if rule == "camelCase":
        return name[:1].lower() + name[1:]
    die(loc, "unsupported rename_all = %r (variants)" % rule)


# ------------------------------------------------------------------ the bodies the model was written against
EXPECT_SPACE_SV = """fn from_space_sv<'de, D>(deserializer: D) -> Result<Vec<String>, D::Error> where D: Deserializer<'de>
{ let string: &str = Deserialize::deserialize(deserializer)?;
  if string.trim().is_empty() { Ok(Vec::default()) }
  else { let result = string.split(' ').map(&str::to_string).collect(); Ok(result) } }"""
EXPECT_CSV = """fn from_csv<'de, D>(deserializer: D) -> Result<Vec<ChallengeEventRule>, D::Error> where D: Deserializer<'de>
{ let string: &str = Deserialize::deserialize(deserializer)?;
  let result = string.split(',').map(|s| ChallengeEventRule::from_str(s).unwrap()).collect(); Ok(result) }"""


def toks_of(text):
    return [v for _, v, _ in lex(text, "<expected>")]


def check_fn(fns, name, expected):
    if name not in fns:
        die("lichess_api", "custom deserialiser `%s` not found" % name)
    if fns[name] != toks_of(expected):
        die("fn " + name, "body differs from the one modelled in Model/Serde.v - re-model it, then update rs2v.py")


def csv_rule_table(impls, enum):
    key = "impl FromStr for ChallengeEventRule"
    if key not in impls:
        die("lichess_api", "`%s` not found" % key)
    t = impls[key]
    s = " ".join(t)
    m = re.search(r'match s \. to_lowercase \( \) \. as_str \( \) \{ (.*?) \} \} \}$', s)
    if not m or "fn from_str ( s : & str ) -> Result < Self , Self :: Err >" not in s:
        die(key, "unexpected shape (expected `match s.to_lowercase().as_str() { \"..\" => Ok(Self::V), .. _ => Err(()) }`)")
    arms = [a.strip() for a in m.group(1).split(" , ") if a.strip()]
    table = []
    for a in arms:
        am = re.fullmatch(r'"([a-z0-9]*)" => Ok \( Self :: ([A-Za-z0-9_]+) \)', a)
        if am:
            table.append((am.group(1), am.group(2)))
        elif re.fullmatch(r'_ => Err \( \( \) \)( ,)?', a):
            pass
        else:
            die(key, "unsupported match arm `%s`" % a)
    names = {v["name"] for v in enum["variants"]}
    for lit_, var in table:
        if var not in names:
            die(key, "arm for unknown variant %s" % var)
    return table


# ------------------------------------------------------------------ schema terms
def coq_str(s):
    if '"' in s or "\\" in s or any(ord(ch) < 32 or ord(ch) > 126 for ch in s):
        die("name", "wire name %r needs escaping" % s)
    return 'lit "%s"' % s


class Gen:
    def __init__(self, items, csv_table):
        self.items, self.csv_table = items, csv_table
        self.done, self.order, self.stack = {}, [], []

    def type_schema(self, ty, field, owner):
        name, arg = ty
        dw = field["serde"].get("deserialize_with") if field else None
        where = "%s.%s" % (owner, field["name"]) if field else owner
        if dw is not None:
            if dw == "from_space_sv" and ty == ("Vec", ("String", None)):
                return "SSpaceSV"
            if dw == "from_csv" and ty == ("Vec", ("ChallengeEventRule", None)):
                enum = self.items["ChallengeEventRule"]
                rule = enum["serde"].get("rename_all")
                pairs = []
                for lit_, var in self.csv_table:
                    v = [x for x in enum["variants"] if x["name"] == var][0]
                    wire = v["serde"].get("rename") or rename_variant(rule, var, v["loc"])
                    pairs.append("(%s, %s)" % (coq_str(lit_), coq_str(wire)))
                return "(SCsvRules [%s])" % "; ".join(pairs)
            die(where, "unsupported deserialize_with = %r on type %r" % (dw, ty))
        if arg is None:
            prim = {"String": "SStr", "u32": "SU32", "i32": "SI32", "u64": "SU64", "bool": "SBool"}
            if name in prim:
                return prim[name]
            if name in self.items:
                return self.named(name)
            die(where, "unsupported type %s" % name)
        if name == "Option":
            return "(SOpt %s)" % self.type_schema(arg, None, where)
        die(where, "unsupported type %s<..> (Vec needs a known deserialize_with)" % name)

    def fields_term(self, fields, rule, owner):
        out = []
        for f in fields:
            s = f["serde"]
            wire = s.get("rename") or rename_field(rule, f["name"], f["loc"])
            sch = self.type_schema(f["ty"], f, owner)
            flat = bool(s.get("flatten"))
            dflt = bool(s.get("default"))
            where = "%s.%s" % (owner, f["name"])
            if flat:
                tn = f["ty"][0]
                if f["ty"][1] is not None or tn not in self.items or self.items[tn]["kind"] != "struct":
                    die(where, "flatten is only supported on a field whose type is a derived struct")
                if dflt or "deserialize_with" in s or "rename" in s:
                    die(where, "flatten combined with other field attributes")
            if "deserialize_with" in s and not dflt:
                die(where, "deserialize_with without default (a missing field would be an error even for Option)")
            if dflt and not ("deserialize_with" in s or f["ty"][0] in ("Option", "String", "u32", "i32", "u64", "bool")):
                die(where, "default on a type whose Default the model does not know")
            out.append('F "%s" %s %s %s' % (wire, sch, "true" if dflt else "false", "true" if flat else "false"))
            coq_str(wire)
        return "[" + ";\n     ".join(out) + "]"

    def named(self, name):
        if name in self.done:
            return "T_" + name
        if name in self.stack:
            die(name, "recursive type")
        self.stack.append(name)
        it = self.items[name]
        rule = it["serde"].get("rename_all")
        if it["kind"] == "struct":
            term = "SStruct\n    %s" % self.fields_term(it["fields"], rule, name)
        else:
            tag = it["serde"].get("tag")
            unit_only = all(v["fields"] is None for v in it["variants"])
            if tag is None:
                if not unit_only:
                    die(name, "externally tagged enum with data-carrying variants")
                names = []
                for v in it["variants"]:
                    names.append(coq_str(v["serde"].get("rename") or rename_variant(rule, v["name"], v["loc"])))
                term = "SUnitEnum [%s]" % "; ".join(names)
            else:
                vs = []
                for v in it["variants"]:
                    wire = v["serde"].get("rename") or rename_variant(rule, v["name"], v["loc"])
                    fl = self.fields_term(v["fields"] or [], v["serde"].get("rename_all"), "%s::%s" % (name, v["name"]))
                    vs.append("(%s,\n    %s)" % (coq_str(wire), fl))
                term = "STagged (%s)\n   [%s]" % (coq_str(tag), ";\n    ".join(vs))
        self.stack.pop()
        self.done[name] = term
        self.order.append(name)
        return "T_" + name


def parse_repo(repo):
    """-> (items, csv_table): the parsed derive(Deserialize) types of the three files (dicts as built by
    parse_items) and the (lowercase literal, variant) table of ChallengeEventRule::from_str.  Also checks the two
    custom deserialisers against the modelled bodies.  Raises Unsupported."""
    items, fns, impls = {}, {}, {}
    for fn in FILES:
        path = os.path.join(repo, "lichess_api", "src", "api", fn)
        with open(path, encoding="utf-8") as fh:
            i, f, im = parse_items(lex(fh.read(), fn), fn)
        for k in i:
            if k in items:
                die(fn, "type %s defined in two files" % k)
        items.update(i)
        fns.update(f)
        impls.update(im)
    check_fn(fns, "from_space_sv", EXPECT_SPACE_SV)
    check_fn(fns, "from_csv", EXPECT_CSV)
    for extra in set(fns) - {"from_space_sv", "from_csv"}:
        die("fn " + extra, "unexpected free function")
    if "ChallengeEventRule" not in items:
        die("lichess_api", "enum ChallengeEventRule not found")
    table = csv_rule_table(impls, items["ChallengeEventRule"])
    for extra in set(impls) - {"impl FromStr for ChallengeEventRule"}:
        die(extra, "unexpected impl block")
    return items, table


def translate(repo):
    items, table = parse_repo(repo)
    g = Gen(items, table)
    roots = []
    for rust, coq in ROOTS:
        if rust not in items:
            die("lichess_api", "root type %s not found" % rust)
        roots.append((coq, g.named(rust)))
    out = ["(* GENERATED by /verif/checks/rs2v.py from /repo/lichess_api/src/api/{%s} - do not edit, never commit *)" % ",".join(FILES),
           "Require Import Ink.Lib.Str.", "Require Import List.", "Import ListNotations.",
           "Require Import Ink.Model.Json Ink.Model.Serde.", "",
           "Definition F (w : String.string) (s : schema) (d fl : bool) : field := mkField (lit w) s d fl.", ""]
    for name in g.order:
        out.append("Definition T_%s : schema :=\n  %s.\n" % (name, g.done[name]))
    for coq, term in roots:
        out.append("Definition %s : schema := %s." % (coq, term))
    unused = sorted(set(items) - set(g.order))
    out.append("")
    out.append("(* derived types not reachable from the two roots: %s *)" % (", ".join(unused) or "none"))
    return "\n".join(out) + "\n"


def main():
    ap = argparse.ArgumentParser()
    ap.add_argument("--repo", default="/repo")
    ap.add_argument("--out", default="/verif/coq/Gen/LichessSchema.v")
    a = ap.parse_args()
    try:
        text = translate(a.repo)
    except Unsupported as e:
        sys.stderr.write("rs2v: UNSUPPORTED CONSTRUCT: %s\n" % e)
        sys.exit(2)
    os.makedirs(os.path.dirname(a.out), exist_ok=True)
    with open(a.out, "w", encoding="utf-8") as fh:
        fh.write(text)
    sys.stderr.write("rs2v: wrote %s\n" % a.out)


if __name__ == "__main__":
    main()

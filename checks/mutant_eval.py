#!/usr/bin/env python3
"""Evaluate the checks against a seeded change WITHOUT touching /repo (other work may be building against it):
a private worktree of /repo and a private copy of /verif are used.
   mutant_eval.py <patch.diff> <Cxx> [<Cyy> ...]      ('all' = every registered check)
Prints, per check, exit code and VIOLATION lines."""
import os, subprocess, sys
MV = '/root/scratch/mv'
def sh(cmd, **kw):
    return subprocess.run(cmd, shell=True, text=True, stdout=subprocess.PIPE, stderr=subprocess.STDOUT, **kw)
def main():
    patch = os.path.abspath(sys.argv[1]); pids = sys.argv[2:]
    os.makedirs(MV, exist_ok=True)
    repo = os.path.join(MV, 'repo'); verif = os.path.join(MV, 'verif')
    if not os.path.exists(repo):
        print(sh('git -C /repo worktree add --detach %s HEAD' % repo).stdout)
    sh('git -C %s checkout -q --detach %s && git -C %s reset -q --hard && git -C %s clean -fdq -e target' % (repo, sh('git -C /repo rev-parse HEAD').stdout.strip(), repo, repo))
    r = sh('rsync -a --delete --exclude _build/target --exclude .git --exclude replays /verif/ %s/' % verif)
    sh("sed -i 's#\"/repo/#\"%s/#g' %s/harness/Cargo.toml" % (repo, verif))
    if os.path.getsize(patch) > 2:
        r = sh('git -C %s apply %s' % (repo, patch))
        if r.returncode != 0:
            print('PATCH DOES NOT APPLY:', r.stdout); return 2
    if pids == ['all']:
        import json
        pids = [c['property_id'] for c in json.load(open('/verif/MANIFEST.json'))['checks']]
    env = dict(os.environ, VERIF_REPO=repo)
    caught = []
    for pid in pids:
        r = subprocess.run(['./verify.py', 'check', pid, '--tier', os.environ.get('MUT_TIER', 'quick')], cwd=verif, env=env, text=True, stdout=subprocess.PIPE, stderr=subprocess.STDOUT)
        v = [l for l in r.stdout.split('\n') if l.startswith('VIOLATION') or l.startswith('KNOWN')]
        print('%s exit=%d %s' % (pid, r.returncode, ' | '.join(v[:3])), flush=True)
        if r.returncode == 1: caught.append(pid)
        for l in v[:1]:
            rp = l.split('replay=')[1].split(' ')[0] if 'replay=' in l else None
            if rp:
                try:
                    import json
                    d = json.load(open(os.path.join(verif, rp)))
                    print('   note:', str(d.get('note'))[:200]); print('   input:', str(d.get('input'))[:200])
                except Exception as e:
                    pass
    sh('git -C %s reset -q --hard' % repo)
    print('CAUGHT BY:', ' '.join(caught) if caught else 'nothing')
if __name__ == '__main__':
    sys.exit(main())

#!/usr/bin/env python3
"""C04 failing-input search: turn a failed Gen/Sweep*.v obligation into a concrete replay.
Reads the table dump of the current /repo tree (`ink_harness dump`, e.g. /verif/_build/tables.dump):
    magic  <kind 0=rook,1=bishop> <sq> <mask> <magic> <hash_mask> <shift> <n> <n attack values>
    leaper <kind 0=king,1=knight,2=wpawn,3=bpawn> <64 values>
recomputes the ray / step attacks geometrically (independently of the Coq development) for every reduced
configuration -- all sub-masks of (table mask | geometric relevant-blocker mask) of every square, and all 4x64
leaper entries -- and prints the FIRST failing input as one JSON object, or `null` when everything agrees:
    {"family": "magic", "kind": 0, "table": "rook", "sq": 27, "occ": 134217728, "index": 17,
     "expected": <ray attacks>, "got": <table value> | "OOR", "reason": "..."}
    {"family": "leaper", "kind": 1, "table": "knight", "sq": 5, "occ": null, "expected": .., "got": .. | "OOR", ...}
Squares: shift 0 = a8 .. 7 = h8, 56 = a1 .. 63 = h1; file = sq % 8, rank index = sq // 8; NORTH = (0,-1).
Exit status 0 = no failing input, 1 = failing input printed, 2 = usage / malformed dump.
Usage: c04_find_bad.py <dump file>"""
import json, sys

M64 = (1 << 64) - 1
N_, E_, S_, W_ = (0, -1), (1, 0), (0, 1), (-1, 0)
def plus(a, b): return (a[0] + b[0], a[1] + b[1])
NE, SE, SW, NW = plus(N_, E_), plus(S_, E_), plus(S_, W_), plus(N_, W_)
ORTH = [N_, E_, S_, W_]
DIAG = [NE, SE, SW, NW]
KING = ORTH + DIAG
KNIGHT = [plus(N_, NE), plus(E_, NE), plus(E_, SE), plus(S_, SE), plus(S_, SW), plus(W_, SW), plus(W_, NW), plus(N_, NW)]
WPAWN = [NW, NE]
BPAWN = [SW, SE]
MAGIC_KINDS = {0: ('rook', ORTH), 1: ('bishop', DIAG)}
LEAPER_KINDS = {0: ('king', KING), 1: ('knight', KNIGHT), 2: ('wpawn', WPAWN), 3: ('bpawn', BPAWN)}
MAX_BITS = 20          # a blocker mask with more bits than this cannot be enumerated (and is certainly wrong)

def translate(sq, d):
    f, r = sq % 8 + d[0], sq // 8 + d[1]
    return f + 8 * r if 0 <= f < 8 and 0 <= r < 8 else None

def rays(sq, dirs):
    """per direction: the list of squares from sq to the board edge"""
    out = []
    for d in dirs:
        line, s = [], translate(sq, d)
        while s is not None:
            line.append(s)
            s = translate(s, d)
        out.append(line)
    return out

def ray_attacks(lines, occ):
    a = 0
    for line in lines:
        for s in line:
            a |= 1 << s
            if occ >> s & 1:
                break
    return a

def relevant_mask(lines):
    m = 0
    for line in lines:
        for s in line[:-1]:
            m |= 1 << s
    return m

def step_attacks(sq, dirs):
    a = 0
    for d in dirs:
        t = translate(sq, d)
        if t is not None:
            a |= 1 << t
    return a

def check_magic(kind, sq, mask, magic, hmask, shift, att):
    name, dirs = MAGIC_KINDS[kind]
    lines = rays(sq, dirs)
    rel = relevant_mask(lines)
    base = {'family': 'magic', 'kind': kind, 'table': name, 'sq': sq}
    def bad(occ, reason):
        idx = ((((occ & mask) * magic) & M64) >> shift) & hmask
        got = att[idx] if idx < len(att) else 'OOR'
        return dict(base, occ=occ, index=idx, expected=ray_attacks(lines, occ), got=got, reason=reason)
    universe = mask | rel
    if mask > M64:
        return bad(0, 'mask does not fit in 64 bits')
    if bin(universe).count('1') > MAX_BITS:
        return bad(0, 'blocker mask has too many bits to enumerate')
    n = len(att)
    sub = 0
    while True:                                   # all sub-masks of `universe`, ascending
        idx = ((((sub & mask) * magic) & M64) >> shift) & hmask
        if idx >= n:
            return bad(sub, 'index outside the attack table')
        if att[idx] != ray_attacks(lines, sub):
            return bad(sub, 'mask misses a relevant blocker square' if rel & ~mask
                       else 'table value differs from the ray attacks')
        sub = (sub - universe) & universe
        if sub == 0:
            return None

def main():
    if len(sys.argv) != 2:
        sys.stderr.write(__doc__)
        return 2
    magics, leapers = {}, {}
    for line in open(sys.argv[1]):
        f = line.split()
        if not f:
            continue
        if f[0] == 'magic':
            kind, sq, mask, magic, hmask, shift, n = (int(x) for x in f[1:8])
            att = [int(x) for x in f[8:]]
            if len(att) != n:
                sys.stderr.write('c04_find_bad: magic table length mismatch in the dump\n')
                return 2
            magics[(kind, sq)] = (mask, magic, hmask, shift, att)
        elif f[0] == 'leaper':
            leapers[int(f[1])] = [int(x) for x in f[2:]]
    result = None
    for kind in (0, 1):
        for sq in range(64):
            if (kind, sq) not in magics:
                result = {'family': 'magic', 'kind': kind, 'table': MAGIC_KINDS[kind][0], 'sq': sq, 'occ': 0,
                          'index': None, 'expected': ray_attacks(rays(sq, MAGIC_KINDS[kind][1]), 0), 'got': 'OOR',
                          'reason': 'no configuration for this square'}
            else:
                result = check_magic(kind, sq, *magics[(kind, sq)])
            if result: break
        if result: break
    if not result:
        for kind in (0, 1, 2, 3):
            name, dirs = LEAPER_KINDS[kind]
            tbl = leapers.get(kind, [])
            for sq in range(64):
                exp = step_attacks(sq, dirs)
                got = tbl[sq] if sq < len(tbl) else 'OOR'
                if got != exp:
                    result = {'family': 'leaper', 'kind': kind, 'table': name, 'sq': sq, 'occ': None,
                              'expected': exp, 'got': got,
                              'reason': 'entry differs from the step attacks' if got != 'OOR' else 'table shorter than 64'}
                    break
            if not result and len(tbl) != 64:
                result = {'family': 'leaper', 'kind': kind, 'table': name, 'sq': 64, 'occ': None,
                          'expected': None, 'got': len(tbl), 'reason': 'table length is not 64'}
            if result: break
    print(json.dumps(result))
    return 1 if result else 0

if __name__ == '__main__':
    sys.exit(main())

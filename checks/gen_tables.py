#!/usr/bin/env python3
"""Translate the table dump of the current /repo tree (ink_harness dump) plus a few private constants parsed from the
source into Coq: coq/Gen/Magic{R,B}NN.v (one magic configuration per file), coq/Gen/Tables.v (the Tables.t record),
and the C04 sweep obligations coq/Gen/Sweep{R,B}NN.v (one exhaustive per-square check each), SweepLeapers.v, SweepAll.v.
Files are only rewritten when their content changes, so `make` re-checks exactly what changed.
Usage: gen_tables.py <dump file> <repo root> <coq/Gen dir>"""
import os, re, sys

def write_if_changed(path, text):
    try:
        if open(path).read() == text:
            return False
    except FileNotFoundError:
        pass
    with open(path, 'w') as f:
        f.write(text)
    return True

def nlist(vals):
    return '[' + '; '.join(str(v) for v in vals) + ']'

def zlist(vals):
    return '[' + '; '.join(('(%d)' % v) if v < 0 else str(v) for v in vals) + ']%Z'

def parse_source_consts(repo):
    """Private constants that no hook exposes: parsed from the source text (fails loudly if the shape changes)."""
    out = {}
    board = open(os.path.join(repo, 'board/src/board.rs')).read()
    m = re.search(r'const PIECE_VALUES: \[i32; 7\] = \[([^\]]*)\];', board)
    if not m: raise SystemExit('gen_tables: cannot find Bitboard::PIECE_VALUES in board.rs')
    out['mvv'] = [int(x) for x in m.group(1).replace('_', '').split(',') if x.strip()]
    simple = open(os.path.join(repo, 'engine_core/src/engine/heuristic/simple.rs')).read()
    for name in ['QUEEN', 'ROOK', 'BISHOP', 'KNIGHT', 'PAWN']:
        m = re.search(r'const %s_VALUE: u32 = ([0-9_]+);' % name, simple)
        if not m: raise SystemExit('gen_tables: cannot find %s_VALUE in simple.rs' % name)
        out[name] = int(m.group(1).replace('_', ''))
    hist = open(os.path.join(repo, 'engine_core/src/engine/zobrist_history.rs')).read()
    m = re.search(r'history: vec!\[0; ([0-9_]+)\]', hist) or re.search(r'history: \[ZobristHash; ([0-9_]+)\]', hist)
    if not m: raise SystemExit('gen_tables: cannot find the history length')
    out['history_len'] = int(m.group(1).replace('_', ''))
    search = open(os.path.join(repo, 'engine_core/src/engine/search.rs')).read()
    m = re.search(r'HashMapTranspositionTable::new\(([0-9_]+)\)', search)
    if not m: raise SystemExit('gen_tables: cannot find the transposition table capacity')
    out['tt_capacity'] = int(m.group(1).replace('_', ''))
    return out

def write_sweeps(gen_dir):
    """C04 obligations: every square's magic configuration is checked against the geometric ray attacks for all
    sub-masks of its blocker mask (Proofs/AttackProofs.v: sweep_ok / sweep_sound); one file per square so that
    `make -j` checks them in parallel and a change of one table re-checks one file."""
    hdr = '(* GENERATED from /repo by checks/gen_tables.py -- do not edit *)\n'
    changed = 0
    for letter, dirs in [('R', 'ORTH'), ('B', 'DIAG')]:
        for sq in range(64):
            text = (hdr +
                    'Require Import NArith. Require Import Ink.Gen.Magic%s%02d Ink.Spec.Attacks Ink.Proofs.AttackProofs.\n'
                    'Lemma ok : sweep_ok %s %d Ink.Gen.Magic%s%02d.cfg = true.\n'
                    'Proof. vm_compute. reflexivity. Qed.\n' % (letter, sq, dirs, sq, letter, sq))
            changed += write_if_changed(os.path.join(gen_dir, 'Sweep%s%02d.v' % (letter, sq)), text)
    text = (hdr +
            'Require Import NArith. Require Import Ink.Gen.Tables Ink.Proofs.AttackProofs.\n'
            'Lemma ok : leapers_ok Ink.Gen.Tables.tables = true.\n'
            'Proof. vm_compute. reflexivity. Qed.\n')
    changed += write_if_changed(os.path.join(gen_dir, 'SweepLeapers.v'), text)
    a = [hdr.rstrip('\n'),
         'Require Import NArith List. Import ListNotations.',
         'Require Import Ink.Model.Tables Ink.Spec.Attacks Ink.Proofs.AttackProofs Ink.Gen.Tables.']
    a += ['Require Ink.Gen.Sweep%s%02d.' % (l, s) for l in 'RB' for s in range(64)]
    a += ['Require Ink.Gen.SweepLeapers.', 'Open Scope N_scope.',
          'Lemma rook_len : length (rook_magics tables) = 64%nat. Proof. reflexivity. Qed.',
          'Lemma bishop_len : length (bishop_magics tables) = 64%nat. Proof. reflexivity. Qed.',
          'Lemma all_sweeps : forall sq, sq < 64 ->',
          '  sweep_ok ORTH sq (nthN (rook_magics tables) sq empty_cfg) = true /\\',
          '  sweep_ok DIAG sq (nthN (bishop_magics tables) sq empty_cfg) = true.',
          'Proof.', '  apply forall_lt64.']
    a += ['  constructor; [exact (conj Ink.Gen.SweepR%02d.ok Ink.Gen.SweepB%02d.ok)|].' % (s, s) for s in range(64)]
    a += ['  constructor.', 'Qed.',
          'Lemma leapers : leapers_ok tables = true. Proof. exact Ink.Gen.SweepLeapers.ok. Qed.',
          'Lemma tables_ok : tables_attacks_ok tables = true.',
          'Proof.',
          '  apply tables_attacks_ok_intro; [apply sliders_ok_intro; [exact rook_len|exact bishop_len|exact all_sweeps]|exact leapers].',
          'Qed.']
    changed += write_if_changed(os.path.join(gen_dir, 'SweepAll.v'), '\n'.join(a) + '\n')
    return changed

def main():
    dump_path, repo, gen_dir = sys.argv[1], sys.argv[2], sys.argv[3]
    os.makedirs(gen_dir, exist_ok=True)
    magics = {0: {}, 1: {}}
    leapers = {}
    zob_ps = {}
    pst = {'white': {}, 'black': {}}
    rec = {}
    for line in open(dump_path):
        f = line.split()
        if not f: continue
        k = f[0]
        if k == 'magic':
            kind, sq = int(f[1]), int(f[2])
            mask, magic, hmask, shift, n = (int(x) for x in f[3:8])
            att = [int(x) for x in f[8:]]
            if len(att) != n: raise SystemExit('gen_tables: magic table length mismatch')
            magics[kind][sq] = (mask, magic, hmask, shift, att)
        elif k == 'leaper': leapers[int(f[1])] = [int(x) for x in f[2:]]
        elif k == 'zob_ps': zob_ps[int(f[1])] = [int(x) for x in f[2:]]
        elif k == 'pst': pst[f[1]][(int(f[2]), int(f[3]))] = [int(x) for x in f[4:]]
        elif k == 'layout': rec['layout'] = [tuple(int(y) for y in x.split(':')) for x in f[1:]]
        else: rec[k] = [int(x) for x in f[1:]]
    src = parse_source_consts(repo)
    changed = 0
    names = []
    for kind, letter in [(0, 'R'), (1, 'B')]:
        for sq in range(64):
            mask, magic, hmask, shift, att = magics[kind][sq]
            name = 'Magic%s%02d' % (letter, sq)
            names.append(name)
            text = ('(* GENERATED from /repo by checks/gen_tables.py -- do not edit *)\n'
                    'Require Import NArith List. Import ListNotations. Require Import Ink.Model.Tables.\nOpen Scope N_scope.\n'
                    'Definition cfg : magic_cfg := {| mg_mask := %d; mg_magic := %d; mg_hash_mask := %d; mg_shift := %d;\n  mg_attacks := %s |}.\n'
                    % (mask, magic, hmask, shift, nlist(att)))
            changed += write_if_changed(os.path.join(gen_dir, name + '.v'), text)
    t = ['(* GENERATED from /repo by checks/gen_tables.py -- do not edit *)',
         'Require Import NArith ZArith List. Import ListNotations. Require Import Ink.Model.Tables.']
    t += ['Require Ink.Gen.%s.' % n for n in names]
    t.append('Open Scope N_scope.')
    t.append('Definition rook_cfgs : list magic_cfg := [' + '; '.join('Ink.Gen.MagicR%02d.cfg' % s for s in range(64)) + '].')
    t.append('Definition bishop_cfgs : list magic_cfg := [' + '; '.join('Ink.Gen.MagicB%02d.cfg' % s for s in range(64)) + '].')
    def stage_tables(side):
        return '[' + ';\n    '.join('[' + ';\n     '.join(zlist(pst[side][(st, p)]) for p in range(6)) + ']' for st in range(3)) + ']'
    c = rec['consts']; zm = rec['zob_misc']; ce = rec['castle_empty']; cc = rec['castle_check']
    t.append('Definition tables : Tables.t := {|\n'
             '  rook_magics := rook_cfgs; bishop_magics := bishop_cfgs;\n'
             '  king_tbl := %s;\n  knight_tbl := %s;\n  wpawn_tbl := %s;\n  bpawn_tbl := %s;\n'
             '  zob_ps := [%s];\n  zob_ep := %s;\n'
             '  zob_wq := %d; zob_wk := %d; zob_bq := %d; zob_bk := %d; zob_side := %d;\n'
             '  pst_white := %s;\n  pst_black := %s;\n'
             '  win_score := %d%%Z; draw_score := %d%%Z; max_full_moves := %d%%Z; max_half_moves := %d; contempt := %d%%Z;\n'
             '  mvv_values := %s;\n  val_p := %d; val_n := %d; val_b := %d; val_r := %d; val_q := %d;\n'
             '  wq_empty := %d; wk_empty := %d; bq_empty := %d; bk_empty := %d;\n'
             '  wq_check := %d; wk_check := %d; bq_check := %d; bk_check := %d;\n'
             '  rank_masks := %s;\n  file_masks := %s;\n  layout := [%s];\n'
             '  poll_period := %d; history_len := %d; tt_capacity := %d |}.'
             % (nlist(leapers[0]), nlist(leapers[1]), nlist(leapers[2]), nlist(leapers[3]),
                ';\n    '.join(nlist(zob_ps[r]) for r in range(14)), nlist(rec['zob_ep']),
                zm[0], zm[1], zm[2], zm[3], zm[4],
                stage_tables('white'), stage_tables('black'),
                c[0], c[1], c[2], c[3], c[4],
                zlist(src['mvv']), src['PAWN'], src['KNIGHT'], src['BISHOP'], src['ROOK'], src['QUEEN'],
                ce[0], ce[1], ce[2], ce[3], cc[0], cc[1], cc[2], cc[3],
                nlist(rec['ranks']), nlist(rec['files']), '; '.join('(%d, %d)' % ms for ms in rec['layout']),
                rec['poll_period'][0], src['history_len'], src['tt_capacity']))
    changed += write_if_changed(os.path.join(gen_dir, 'Tables.v'), '\n'.join(t) + '\n')
    changed += write_sweeps(gen_dir)
    # flat text form for the OCaml driver (no recompilation when data changes)
    flat = open(dump_path).read() + ('src_consts %s %d %d %d %d %d %d %d\n' % (' '.join(map(str, src['mvv'])), src['PAWN'], src['KNIGHT'], src['BISHOP'], src['ROOK'], src['QUEEN'], src['history_len'], src['tt_capacity']))
    write_if_changed(os.path.join(gen_dir, 'tables.txt'), flat)
    print('gen_tables: %d file(s) changed' % changed)

if __name__ == '__main__':
    main()

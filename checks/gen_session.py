"""Case generator for family `session` (engine_core search.rs + engine.rs through the UCI surface; properties C07, C09).

Case line:   TAB-separated fields; a field is a UCI command line or a harness directive
             (`@poll K`, `@abort N M`, `@noabort`, `@fen`, `@elapsed NANOS`), see harness/src/fam_engine.rs and
             coq/Driver/RunSearch.v.
Observation: the lines the engine wrote, joined by ` ;; `.  The implementation's observation has to be passed through
             `normalise()` before it is compared with the model's: `DEBUG:` lines are dropped, `time <n>` becomes
             `time T`, `nps <n>` becomes `nps X`, and the `debug on` statistics (` string ...` up to the end of the
             line) become ` string S`.

Only DETERMINISTIC sessions are generated: every `go` is bounded by `depth`, or by a time budget of zero
(`movetime 0`, `wtime W btime B winc 0 binc 0`, `wtime 0 btime 0`): with a zero budget "elapsed > budget" is true for
every real clock, and the model is told `@elapsed 1`.  No `go infinite`, no `stop` racing a search, no `@sleep`.
The abort points of C09 are driven through the cfg(inkayaku_verif) test point: `@poll K` + `@abort N M`.

`gen(rng, tier, positions)` -> list of case lines (`positions`: FENs of legal positions supplied by the caller);
`nontrivial(line)` -> bool;  `normalise(obs)` -> str.
"""
import random
import re

STARTPOS_FEN = "rnbqkbnr/pppppppp/8/8/8/8/PPPPPPPP/RNBQKBNR w KQkq - 0 1"

# well-known test positions (perft suite, mates in one/two, stalemates, few legal moves)
BUILTIN = [
    "r3k2r/p1ppqpb1/bn2pnp1/3PN3/1p2P3/2N2Q1p/PPPBBPPP/R3K2R w KQkq - 0 1",
    "8/2p5/3p4/KP5r/1R3p1k/8/4P1P1/8 w - - 0 1",
    "r3k2r/Pppp1ppp/1b3nbN/nP6/BBP1P3/q4N2/Pp1P2PP/R2Q1RK1 w kq - 0 1",
    "rnbq1k1r/pp1Pbppp/2p5/8/2B5/8/PPP1NnPP/RNBQK2R w KQ - 1 8",
    "r4rk1/1pp1qppp/p1np1n2/2b1p1B1/2B1P1b1/P1NP1N2/1PP1QPPP/R4RK1 w - - 0 10",
    "6k1/5ppp/8/8/8/8/8/R3K3 w Q - 0 1",                       # mate in one (Ra8)
    "7k/5K2/8/6Q1/8/8/8/8 w - - 0 1",                          # stalemate trap / mate in one
    "7k/5K2/8/6Q1/8/8/8/8 b - - 0 1",
    "7k/5Q2/6K1/8/8/8/8/8 b - - 0 1",                          # stalemate: no legal move, not in check
    "R6k/6pp/8/8/8/8/8/K7 b - - 0 1",                          # checkmated: no legal move, in check
    "k7/8/1K6/8/8/8/8/7R w - - 0 1",
    "8/8/8/8/8/5k2/7p/7K w - - 0 1",                           # one legal move
    "8/8/8/8/8/6k1/6p1/6K1 w - - 0 1",                         # stalemate
    "4k3/8/8/8/8/8/4P3/4K3 w - - 0 1",
    "8/P7/8/8/8/8/7p/K6k w - - 0 1",                           # promotions
    "r1bqkb1r/pppp1ppp/2n2n2/4p2Q/2B1P3/8/PPPP1PPP/RNB1K1NR w KQkq - 4 4",   # Qxf7#
    "rnb1kbnr/pppp1ppp/8/4p3/6Pq/5P2/PPPPP2P/RNBQKBNR w KQkq - 1 3",         # fool's mate delivered
    "8/8/8/3k4/8/3K4/8/8 w - - 99 80",
    "8/8/8/3k4/8/3K4/4P3/8 w - - 98 80",
    "8/8/8/3k4/8/3K4/4P3/8 w - - 100 80",
    "rnbqkbnr/ppp1p1pp/8/3pPp2/8/8/PPPP1PPP/RNBQKBNR w KQkq f6 0 3",         # en passant available
    "4k3/8/8/8/8/8/8/R3K2R w KQ - 0 1",
    "r3k2r/8/8/8/8/8/8/4K3 b kq - 0 1",
]

OPENINGS = [
    "e2e4 e7e5 g1f3 b8c6 f1b5 a7a6 b5a4 g8f6 e1g1 f8e7",
    "d2d4 d7d5 c2c4 e7e6 b1c3 g8f6 c1g5 f8e7",
    "e2e4 c7c5 g1f3 d7d6 d2d4 c5d4 f3d4 g8f6 b1c3 a7a6",
    "c2c4 e7e5 b1c3 g8f6",
    "e2e4 e7e6 d2d4 d7d5 e4e5 c7c5",
    "g1f3 g8f6 c2c4 g7g6",
    "e2e4 d7d5 e4d5 d8d5 b1c3 d5a5",
]

# (fen or None for startpos, prefix, shuffle of four plies returning to the same position)
SHUFFLES = [
    (None, "", "g1f3 g8f6 f3g1 f6g8"),
    (None, "", "b1c3 b8c6 c3b1 c6b8"),
    (None, "e2e4 e7e5", "g1f3 g8f6 f3g1 f6g8"),
    (None, "e2e4 e7e5", "b1c3 b8c6 c3b1 c6b8"),
    (None, "d2d4 d7d5", "g1f3 g8f6 f3g1 f6g8"),
    (None, "e2e4 c7c5", "b1c3 b8c6 c3b1 c6b8"),
    ("8/8/8/4k3/8/8/4K3/R7 w - - 0 1", "", "a1b1 e5e6 b1a1 e6e5"),
    ("7k/8/8/8/8/8/8/K5R1 w - - 10 40", "", "g1f1 h8h7 f1g1 h7h8"),
    ("5rk1/5r2/p7/2pNp1q1/2P1P2p/1P3P1P/P4RP1/5RK1 w - - 0 28", "", "d5b6 g5e3 b6d5 e3g5"),
    ("5r1k/5r2/p7/2pNp1q1/2P1P2p/1P3P1P/P4RP1/5RK1 b - - 0 28", "h8g8", "d5b6 g5e3 b6d5 e3g5"),
]

STARTPOS_MOVES = ["a2a3", "a2a4", "b2b3", "b2b4", "c2c3", "c2c4", "d2d3", "d2d4", "e2e3", "e2e4", "f2f3", "f2f4",
                  "g2g3", "g2g4", "h2h3", "h2h4", "b1a3", "b1c3", "g1f3", "g1h3"]

BAD_COMMANDS = ["go depth x", "go depth 1 depth 2", "position fen 8/8/8/8 w - - 0 1", "position startpos e2e4",
                "position startpos moves e2e9", "go wtime", "debug maybe", "hello", "go searchmoves e2e4 zz depth 1",
                "position fen rnbqkbnr/pppppppp/8/8/8/8/PPPPPPPP/RNBQKBNR w KQkq - 0 1 moves e2e4q1"]


def sq_name(f, r):
    return "abcdefgh"[f] + str(r + 1)


def plausible_moves(fen):
    """Pseudo-legal-looking moves of the side to move (no castling, no en passant, no legality test)."""
    parts = fen.split()
    board = {}
    for ri, row in enumerate(parts[0].split("/")):
        f = 0
        for ch in row:
            if ch.isdigit():
                f += int(ch)
            else:
                board[(f, 7 - ri)] = ch
                f += 1
    white = parts[1] == "w"
    own = (lambda c: c.isupper()) if white else (lambda c: c.islower())
    res = []
    for (f, r), ch in sorted(board.items()):
        if not own(ch):
            continue
        p = ch.lower()
        def add(tf, tr, promo=""):
            if 0 <= tf < 8 and 0 <= tr < 8 and not ((tf, tr) in board and own(board[(tf, tr)])):
                res.append(sq_name(f, r) + sq_name(tf, tr) + promo)
        if p == "n":
            for df, dr in [(1, 2), (2, 1), (-1, 2), (-2, 1), (1, -2), (2, -1), (-1, -2), (-2, -1)]:
                add(f + df, r + dr)
        elif p == "k":
            for df in (-1, 0, 1):
                for dr in (-1, 0, 1):
                    if df or dr:
                        add(f + df, r + dr)
        elif p == "p":
            d = 1 if white else -1
            last = 7 if white else 0
            promos = ["q", "n", "r", "b"] if r + d == last else [""]
            if (f, r + d) not in board:
                for pr in promos:
                    add(f, r + d, pr)
                if r == (1 if white else 6) and (f, r + 2 * d) not in board:
                    add(f, r + 2 * d)
            for df in (-1, 1):
                if (f + df, r + d) in board and not own(board[(f + df, r + d)]):
                    for pr in promos:
                        add(f + df, r + d, pr)
        else:
            dirs = []
            if p in "rq":
                dirs += [(1, 0), (-1, 0), (0, 1), (0, -1)]
            if p in "bq":
                dirs += [(1, 1), (1, -1), (-1, 1), (-1, -1)]
            for df, dr in dirs:
                tf, tr = f + df, r + dr
                while 0 <= tf < 8 and 0 <= tr < 8:
                    if (tf, tr) in board:
                        add(tf, tr)
                        break
                    add(tf, tr)
                    tf, tr = tf + df, tr + dr
    return res


def position_cmd(fen, moves=""):
    base = "position startpos" if fen is None else "position fen " + fen
    return base + (" moves " + moves if moves else "")


def pick_position(rng, positions):
    r = rng.random()
    if r < 0.15:
        return None
    if r < 0.40 or not positions:
        return rng.choice(BUILTIN)
    return rng.choice(positions)


def pick_depth(rng, tier, fen):
    small = fen is not None and sum(ch.isalpha() for ch in fen.split()[0]) <= 8
    if tier == "quick":
        return rng.choice([1, 1, 2, 2, 2, 3] if small else [1, 1, 2, 2, 2])
    return rng.choice([1, 2, 2, 3, 3, 4] if small else [1, 2, 2, 2, 3])


def searchmoves_clause(rng, fen):
    cands = STARTPOS_MOVES if fen is None else plausible_moves(fen)
    k = rng.choice([1, 1, 2, 3, 5])
    ms = [rng.choice(cands) for _ in range(k)] if cands else []
    if rng.random() < 0.2:
        ms.append(rng.choice(["a1a1", "h7h8q", "e1g1", "e8c8", "a2a1n", "e7e8k"]))
    rng.shuffle(ms)
    return " searchmoves " + " ".join(ms) if ms else ""


def go_cmd(rng, tier, fen, allow_time=True):
    """A deterministic go command (list of fields: optional @elapsed first)."""
    r = rng.random()
    d = pick_depth(rng, tier, fen)
    if r < 0.50 or not allow_time:
        sm = searchmoves_clause(rng, fen) if rng.random() < 0.3 else ""
        if rng.random() < 0.5:
            return ["go depth %d%s" % (d, sm)]
        return ["go%s depth %d" % (sm, d)]
    if r < 0.58:
        return ["go movetime 0" + (" depth %d" % d if rng.random() < 0.5 else "")]
    if r < 0.66:
        w = rng.choice([0, 1, 1000, 60000, 3599999])
        return ["go wtime %d btime %d winc 0 binc 0" % (w, rng.choice([w, 0, 1, 5000]))]
    if r < 0.70:
        return ["go wtime 0 btime 0"]
    if r < 0.78:
        return ["go wtime 1 btime 1 depth 1"]
    if r < 0.90:
        # generous budgets together with a depth limit: the budget is never reached
        w = rng.choice([60000, 300000, 19000, 9000, 2500])
        i = rng.choice([1000, 2000, 10000])
        return ["go wtime %d btime %d winc %d binc %d depth %d" % (w, w, i, i, min(d, 2))]
    if r < 0.95:
        return ["go movetime 600000 depth %d" % min(d, 2)]
    return ["go depth 0"]


def plain_session(rng, tier, positions):
    fen = pick_position(rng, positions)
    fields = []
    if rng.random() < 0.3:
        fields.append("ucinewgame")
    moves = ""
    if fen is None and rng.random() < 0.6:
        line = rng.choice(OPENINGS).split()
        moves = " ".join(line[: rng.randint(1, len(line))])
    fields.append(position_cmd(fen, moves))
    fields += go_cmd(rng, tier, None if moves else fen) if not moves else ["go depth %d" % pick_depth(rng, tier, None)]
    fields.append("@fen")
    return fields


def repetition_session(rng, tier):
    fen, prefix, shuffle = rng.choice(SHUFFLES)
    reps = rng.choice([1, 2, 2, 2, 3])
    plies = (shuffle.split() * reps)
    cut = rng.choice([0, 0, 1, 2, 3])
    if cut:
        plies = plies[:-cut]
    moves = (prefix + " " + " ".join(plies)).strip()
    fields = [position_cmd(fen, moves), "go depth %d" % rng.choice([1, 2, 2, 3] if tier != "quick" else [1, 2, 2]), "@fen"]
    return fields


def multi_session(rng, tier, positions):
    fields = []
    if rng.random() < 0.3:
        fields.append(rng.choice(["uci", "isready", "debug on", "debug off", "stop", "ponderhit"]))
    for _ in range(rng.randint(2, 4)):
        if rng.random() < 0.4:
            fields.append("ucinewgame")
        if rng.random() < 0.85:
            fen = pick_position(rng, positions)
            fields.append(position_cmd(fen))
        else:
            fen = None if not fields else STARTPOS_FEN
            fen = None
        d = rng.choice([1, 1, 2]) if tier == "quick" else rng.choice([1, 2, 2, 3])
        fields.append("go depth %d" % d)
        if rng.random() < 0.5:
            fields.append("@fen")
        if rng.random() < 0.15:
            fields.append(rng.choice(["isready", "stop", "debug on", "debug off"]))
    fields.append("@fen")
    return fields


def abort_session(rng, tier, positions):
    fen = pick_position(rng, positions)
    d = rng.choice([2, 2, 3]) if tier != "quick" else 2
    poll = rng.choice([1, 1, 1, 1, 2, 3, 5, 10])
    top = {1: 25, 2: 80, 3: 900, 4: 900}[d]
    n = rng.randint(1, max(1, top // poll)) * poll
    if rng.random() < 0.3:
        n = rng.randint(1, 12) * poll
    mode = rng.choice([0, 1])
    fields = ["@poll %d" % poll, "@abort %d %d" % (n, mode), position_cmd(fen), "go depth %d" % d, "@fen"]
    r = rng.random()
    if r < 0.5:
        fields += ["@noabort", "go depth 1", "@fen"]
    elif r < 0.8:
        # several interrupted searches in a row, then a clean one
        for _ in range(rng.randint(1, 3)):
            fields += ["@abort %d %d" % (rng.randint(1, max(1, top // poll)) * poll, rng.choice([0, 1])), "go depth %d" % d, "@fen"]
        fields += ["@noabort", "go depth 1", "@fen"]
    else:
        fields += ["@noabort", "@poll 100000", "go depth %d" % min(d, 2), "@fen"]
    return fields


def movetime_poll_session(rng, tier, positions):
    """The move time runs out at the first poll (budget 0, small poll period)."""
    fen = pick_position(rng, positions)
    poll = rng.choice([1, 2, 5, 20, 50])
    go = rng.choice(["go movetime 0 depth 3", "go movetime 0 depth 2", "go wtime 1000 btime 1000 winc 0 binc 0 depth 3"])
    return ["@elapsed %d" % rng.choice([1, 5, 1000000]), "@poll %d" % poll, position_cmd(fen), go, "@fen", "@poll 100000", "go depth 1", "@fen"]


def illegal_position_session(rng, tier, positions):
    fen = pick_position(rng, positions)
    bad = rng.choice(["e2e5", "a1a8", "e1g1", "h7h8q", "e2e4 e2e4", "e2e4 e7e5 e1e3"])
    return [position_cmd(fen), "go depth 1", "position startpos moves " + bad, "@fen", "go depth 1", "@fen"]


def misc_session(rng, tier, positions):
    r = rng.random()
    if r < 0.25:
        return ["go depth %d" % rng.choice([1, 2]), "@fen"]                       # go without any position
    if r < 0.5:
        return ["debug on", position_cmd(pick_position(rng, positions)), "go depth %d" % rng.choice([1, 2]), "debug off", "go depth 1", "@fen"]
    if r < 0.75:
        return [rng.choice(BAD_COMMANDS), position_cmd(pick_position(rng, positions)), rng.choice(BAD_COMMANDS), "go depth 1", "@fen"]
    return ["uci", "isready", "ucinewgame", position_cmd(pick_position(rng, positions)), "isready", "go depth 1", "stop", "@fen"]


KINDS = [(plain_session, 36), (repetition_session, 12), (multi_session, 14), (abort_session, 22),
         (movetime_poll_session, 5), (illegal_position_session, 4), (misc_session, 7)]


def gen(rng, tier, positions):
    n = 150 if tier == "quick" else 3000
    total = sum(w for _, w in KINDS)
    out = []
    for f, w in KINDS:
        k = max(1, n * w // total)
        for _ in range(k):
            fields = f(rng, tier) if f is repetition_session else f(rng, tier, positions)
            out.append("\t".join(fields))
    rng.shuffle(out)
    return out


def nontrivial(line):
    fs = line.split("\t")
    return any(f.startswith("go") for f in fs) and any(f == "@fen" for f in fs)


_TIME = re.compile(r"\btime \d+")
_NPS = re.compile(r"\bnps \d+")
_STRING = re.compile(r" string .*$")


def normalise(obs):
    out = []
    for l in obs.rstrip("\n").split(" ;; "):
        if l.startswith("DEBUG:"):
            continue
        l = _TIME.sub("time T", l)
        l = _NPS.sub("nps X", l)
        l = _STRING.sub(" string S", l)
        out.append(l)
    return " ;; ".join(out)


if __name__ == "__main__":
    import sys
    seed = int(sys.argv[1]) if len(sys.argv) > 1 else 1
    tier = sys.argv[2] if len(sys.argv) > 2 else "quick"
    positions = [l.strip() for l in open(sys.argv[3])] if len(sys.argv) > 3 else []
    lines = gen(random.Random(seed), tier, positions)
    assert all(nontrivial(l) for l in lines)
    for l in lines:
        print(l)

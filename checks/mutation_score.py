#!/usr/bin/env python3
"""Development aid: syntactic mutation sampling of the modelled source files (never touches /repo).
   mutation_score.py <n> <seed> [<out.jsonl>]
For each sampled mutant (one operator replaced on one line of non-test code): apply it in the private worktree used by
mutant_eval.py, discard it when the crate no longer compiles, otherwise run the quick checks of the properties that
depend on the file until one reports a violation.  Survivors are listed for manual review (equivalent mutant, code the
properties do not observe, or a blind spot)."""
import json, os, random, re, subprocess, sys, time

MV = '/root/scratch/mv'
REPO = os.path.join(MV, 'repo'); VERIF = os.path.join(MV, 'verif')
AREAS = [   # file, crate, last line of non-test code (None = whole file), properties in the order they are tried
    ('board/src/board.rs', 'inkayaku_board', 1700, ['C01', 'C02', 'C03', 'C05', 'C13', 'C14', 'C06', 'C12', 'C10']),
    ('board/src/board/zobrist.rs', 'inkayaku_board', 52, ['C06']),
    ('engine_core/src/engine/search.rs', 'inkayaku_engine_core', 737, ['C07', 'C08', 'C09', 'C10', 'C16']),
    ('engine_core/src/engine/heuristic/simple.rs', 'inkayaku_engine_core', 180, ['C11', 'C08', 'C10']),
    ('engine_core/src/engine/heuristic.rs', 'inkayaku_engine_core', None, ['C11', 'C08', 'C10', 'C07']),
    ('engine_core/src/engine/table.rs', 'inkayaku_engine_core', 49, ['C18', 'C08']),
    ('engine_core/src/engine/zobrist_history.rs', 'inkayaku_engine_core', 53, ['C10']),
    ('engine_core/src/engine/table/transposition.rs', 'inkayaku_engine_core', None, ['C08', 'C16', 'C18']),
    ('engine_core/src/engine/move_order.rs', 'inkayaku_engine_core', 34, ['C01', 'C08']),
    ('uci/src/uci/parser.rs', 'inkayaku_uci', 230, ['C15']),
    ('uci/src/uci/console.rs', 'inkayaku_uci', 190, ['C16']),
    ('pgn/src/reader.rs', 'inkayaku_pgn', None, ['C17']),
    ('core/src/fen.rs', 'inkayaku_core', 156, ['C12']),
    ('core/src/constants/square.rs', 'inkayaku_core', None, ['C15', 'C12', 'C01']),
]
WEIGHT = {'board/src/board.rs': 10, 'engine_core/src/engine/search.rs': 8, 'uci/src/uci/parser.rs': 3, 'pgn/src/reader.rs': 3}

OPS = [
    (r'<=', ['<']), (r'>=', ['>']), (r'(?<![<>=!-])<(?![<=])', ['<=']), (r'(?<![<>=!-])>(?![>=])', ['>=']),
    (r'==', ['!=']), (r'!=', ['==']), (r'&&', ['||']), (r'\|\|', ['&&']),
    (r'(?<![+\w])\+(?![+=])', ['-']), (r'(?<![-\w>])-(?![-=>])', ['+']),
    (r'\b(\d+)\b', ['INC', 'DEC']), (r'\btrue\b', ['false']), (r'\bfalse\b', ['true']),
    (r'<<', ['>>']), (r'>>', ['<<']), (r'(?<!&)&(?![&=])', ['|']), (r'(?<!\|)\|(?![|=])', ['&']),
]

def sh(cmd, **kw):
    return subprocess.run(cmd, shell=True, text=True, stdout=subprocess.PIPE, stderr=subprocess.STDOUT, **kw)

def candidate_lines(path, last):
    lines = open(path).read().split('\n')
    out = []
    skip_until = -1
    for i, l in enumerate(lines):
        if last is not None and i + 1 > last: break
        if 'inkayaku_verif' in l: skip_until = i + 14
        if i <= skip_until: continue
        s = l.strip()
        if not s or s.startswith('//') or s.startswith('#[') or s.startswith('use ') or 'panic!' in s or 'assert' in s or s.startswith('pub const') or s.startswith('const '):
            continue
        code = l.split('//')[0]
        if any(re.search(p, code) for p, _ in OPS):
            out.append(i)
    return lines, out

def mutate_line(line, rng):
    code, sep, comment = line.partition('//')
    sites = []
    for pat, reps in OPS:
        for m in re.finditer(pat, code):
            # do not touch generics / references / lifetimes / attributes
            if m.group(0) in ('<', '>', '&', '|') and re.search(r'(Vec|Option|Result|Box|impl|fn|Self|::|->|\bas\b|&mut|&self|&\w+\b\s*[,)])', code):
                continue
            for r in reps:
                sites.append((m, r))
    if not sites:
        return None
    m, r = rng.choice(sites)
    if r in ('INC', 'DEC'):
        v = int(m.group(1))
        if v > 4096: return None
        r = str(v + 1) if r == 'INC' else str(max(0, v - 1))
        if r == m.group(1): return None
    return code[:m.start()] + r + code[m.end():] + sep + comment

def main():
    n = int(sys.argv[1]); seed = int(sys.argv[2]); outp = sys.argv[3] if len(sys.argv) > 3 else '/root/scratch/mutscore.jsonl'
    rng = random.Random(seed)
    os.makedirs(MV, exist_ok=True)
    if not os.path.exists(REPO):
        print(sh('git -C /repo worktree add --detach %s HEAD' % REPO).stdout)
    head = sh('git -C /repo rev-parse HEAD').stdout.strip()
    sh('git -C %s checkout -q --detach %s && git -C %s reset -q --hard && git -C %s clean -fdq -e target' % (REPO, head, REPO, REPO))
    sh('rsync -a --delete --exclude _build/target --exclude .git --exclude replays /verif/ %s/' % VERIF)
    sh("sed -i 's#\"/repo/#\"%s/#g' %s/harness/Cargo.toml" % (REPO, VERIF))
    env = dict(os.environ, VERIF_REPO=REPO)
    cenv = dict(os.environ, CARGO_NET_OFFLINE='true', CARGO_TARGET_DIR=os.path.join(VERIF, '_build', 'target'), RUSTFLAGS='--cfg inkayaku_verif -A warnings')
    pool = [a for a in AREAS for _ in range(WEIGHT.get(a[0], 1))]
    done = tried = 0
    while done < n and tried < 20 * n:
        tried += 1
        f, crate, last, props = rng.choice(pool)
        path = os.path.join(REPO, f)
        lines, cands = candidate_lines(path, last)
        if not cands: continue
        i = rng.choice(cands)
        new = mutate_line(lines[i], rng)
        if new is None or new == lines[i]: continue
        mutated = list(lines); mutated[i] = new
        open(path, 'w').write('\n'.join(mutated))
        r = subprocess.run('cargo check -q --offline -p %s' % crate, shell=True, cwd=REPO, env=cenv, text=True, stdout=subprocess.PIPE, stderr=subprocess.STDOUT)
        if r.returncode != 0:
            sh('git -C %s reset -q --hard' % REPO); continue
        t0 = time.time()
        caught, detail = None, ''
        for pid in props:
            r = subprocess.run(['./verify.py', 'check', pid, '--tier', 'quick'], cwd=VERIF, env=env, text=True, stdout=subprocess.PIPE, stderr=subprocess.STDOUT)
            v = [l for l in r.stdout.split('\n') if l.startswith('VIOLATION')]
            if r.returncode != 0:
                caught = pid; detail = (v[0] if v else r.stdout[-300:])[:200]; break
        rec = {'n': done, 'file': f, 'line': i + 1, 'before': lines[i].strip()[:200], 'after': new.strip()[:200], 'caught_by': caught, 'detail': detail, 'secs': round(time.time() - t0)}
        open(outp, 'a').write(json.dumps(rec) + '\n')
        print(json.dumps(rec)[:400], flush=True)
        sh('git -C %s reset -q --hard' % REPO)
        done += 1
    sh('git -C %s reset -q --hard' % REPO)

if __name__ == '__main__':
    main()

"""Case generator for family `lichess` (property C19).

Case line:  kind TAB text      kind = game | event (text = JSON document) | uci (text = move text)
Two streams:
  * CONFORMING documents, generated from the documented Bot-API shapes (the same shapes as
    /verif/coq/Spec/LichessApi.v): every message kind, sampled subsets of the optional fields (absent / null /
    present), all enumerated keys, move lists of 0..400 tokens (castling e1g1, promotions a7a8q), free-text
    fields with JSON escapes, unknown extra fields, shuffled key order, optional insignificant whitespace.
    For these the expected observation is known (see `expected`), and model == implementation is compared.
  * MALFORMED / out-of-shape documents (missing required field, wrong / missing / duplicate / numeric tag,
    escaped move string, numbers out of range / negative / float / -0, duplicate keys, `rules` as comma
    string vs array, structs as arrays, enums as single-key maps, broken JSON text, deep nesting ...), for which
    only model == implementation is compared.
Restrictions (not modelled, see Model/Json.v): float literals stay far from the f64 overflow threshold.
All randomness comes from `rng`."""
import json
import random
import sys, os
sys.path.insert(0, os.path.dirname(os.path.abspath(__file__)))
from common import esc, unesc

STATUS = "created started aborted mate resign stalemate timeout draw outoftime cheat noStart unknownFinish variantEnd".split()
VARIANTS = "standard chess960 crazyhouse antichess atomic horde kingOfTheHill racingKings threeCheck fromPosition".split()
SPEEDS = "ultraBullet bullet blitz rapid classical correspondence".split()
COLORS = ["white", "black"]
SOURCES = "lobby friend ai api position import importlive simul relay pool swiss".split()
CH_STATUS = "created offline canceled declined accepted".split()
RULES = "noAbort noRematch noGiveTime noClaimWin noEarlyDraw".split()

# ---------------------------------------------------------------- shapes (documented wire names)
# leaf kinds: 'text' free text, 'id' plain ascii, 'u32', 'u64', 'i32', 'bool', ('enum', [...]), 'moves'
def O(*fields):
    """object shape: fields are (wire, shape, optional)"""
    return ("obj", list(fields))

def req(w, s): return (w, s, False)
def opt(w, s): return (w, s, True)

VARIANT_FULL = O(req("key", ("enum", VARIANTS)), req("name", "text"), req("short", "id"))
CLOCK = O(req("initial", "u32"), req("increment", "u32"))
PLAYER = O(opt("aiLevel", "u32"), req("id", "id"), opt("name", "text"), opt("title", "id"), opt("rating", "u32"),
           opt("provisional", "bool"))
STATE_FIELDS = [req("moves", "moves"), req("wtime", "u32"), req("btime", "u32"), req("winc", "u32"), req("binc", "u32"),
                req("status", ("enum", STATUS)), opt("winner", ("enum", COLORS)), opt("wdraw", "bool"),
                opt("bdraw", "bool"), opt("wtakeback", "bool"), opt("btakeback", "bool")]
GAME = {
    "gameFull": [req("id", "id"), req("variant", VARIANT_FULL), opt("clock", CLOCK), req("speed", ("enum", SPEEDS)),
                 req("perf", O(req("name", "text"))), req("rated", "bool"), req("createdAt", "u64"),
                 req("white", PLAYER), req("black", PLAYER), req("initialFen", "id"), req("state", O(*STATE_FIELDS)),
                 opt("daysPerTurn", "u32"), opt("tournamentId", "id")],
    "gameState": STATE_FIELDS,
    "chatLine": [req("room", ("enum", ["player", "spectator"])), req("username", "text"), req("text", "text")],
    "opponentGone": [req("gone", "bool"), opt("claimWinInSeconds", "u32")],
}
COMPAT = O(req("bot", "bool"), req("board", "bool"))
GAME_INFO = O(req("fullId", "id"), req("gameId", "id"), req("fen", "id"), req("color", ("enum", COLORS)),
              req("lastMove", "id"), req("source", ("enum", SOURCES)),
              req("status", O(req("id", "u32"), req("name", ("enum", STATUS)))),
              req("variant", O(req("key", ("enum", VARIANTS)), req("name", "text"))),
              req("speed", ("enum", SPEEDS)), req("rated", "bool"), req("hasMoved", "bool"),
              req("opponent", O(req("id", "id"), req("username", "text"), opt("rating", "u32"),
                                opt("ratingDiff", "i32"), opt("ai", "u32"))),
              opt("secondsLeft", "u32"), opt("tournamentId", "id"), opt("swissId", "id"),
              opt("winner", ("enum", COLORS)), opt("ratingDiff", "i32"), opt("compat", COMPAT),
              req("perf", ("enum", ["bullet", "blitz", "rapid", "classical", "correspondence", "ultraBullet"])))
CHALLENGER = O(req("id", "id"), req("name", "text"), opt("title", "id"), req("rating", "u32"), opt("provisional", "bool"),
               opt("patron", "bool"), opt("online", "bool"), opt("lag", "u32"))
TIME_CONTROL = ("tagged", {"clock": [req("limit", "u32"), req("increment", "u32"), req("show", "id")],
                           "correspondence": [req("daysPerTurn", "u32")], "unlimited": []})
CHALLENGE = O(req("id", "id"), req("url", "id"), req("status", ("enum", CH_STATUS)), opt("challenger", CHALLENGER),
              opt("destUser", CHALLENGER), req("variant", VARIANT_FULL), req("rated", "bool"),
              req("speed", ("enum", SPEEDS)), req("timeControl", TIME_CONTROL),
              req("color", ("enum", COLORS + ["random"])), req("finalColor", ("enum", COLORS)),
              req("perf", O(req("icon", "text"), req("name", "text"))), opt("direction", ("enum", ["in", "out"])),
              opt("initialFen", "id"), opt("rematchOf", "id"))
EVENT = {
    "gameStart": [req("game", GAME_INFO)],
    "gameFinish": [req("game", GAME_INFO)],
    "challenge": [req("challenge", CHALLENGE), opt("compat", COMPAT)],
    "challengeCanceled": [req("challenge", CHALLENGE)],
    "challengeDeclined": [req("challenge", CHALLENGE)],
}
# keys the implementation decodes although the Spec leaves them out: never used as "unknown extra" keys
RESERVED = {"rules", "rematch", "declineReason", "perf", "compat", "type"}
EXTRA_KEYS = ["isMyTurn", "expiration", "declineReasonKey", "flair", "x", "zz", "Type", "moves2", "é", "a b", ""]

# ---------------------------------------------------------------- a tiny JSON document AST with its own writer
# ("s", text) string  ("rs", raw) string given as raw JSON source  ("n", literal)  ("b", bool) ("z",) null
# ("a", [..]) array ("o", [(keynode, value)..]) object; keynode = ("s",..) | ("rs",..)
def js_escape(rng, s, p_escape):
    """JSON source of string s; with probability p_escape use (some) escapes even where not needed"""
    out = []
    for ch in s:
        c = ord(ch)
        if ch == '"': out.append('\\"')
        elif ch == '\\': out.append('\\\\')
        elif c < 32:
            out.append(rng.choice(['\\u%04x' % c, '\\u%04X' % c] + ({8: ['\\b'], 9: ['\\t'], 10: ['\\n'], 12: ['\\f'], 13: ['\\r']}.get(c, []))))
        elif rng.random() < p_escape:
            if c > 0xFFFF:
                v = c - 0x10000
                out.append('\\u%04x\\u%04x' % (0xD800 + (v >> 10), 0xDC00 + (v & 0x3FF)))
            elif ch == '/': out.append('\\/')
            else: out.append(rng.choice(['\\u%04x', '\\u%04X']) % c)
        else:
            out.append(ch)
    return '"' + ''.join(out) + '"'

def write(rng, node, ws=0.0, p_escape=0.0):
    def sp():
        return rng.choice([" ", "\n", "\t", "\r", "  "]) if rng.random() < ws else ""
    k = node[0]
    if k == "s": return js_escape(rng, node[1], p_escape)
    if k == "ps": return js_escape(rng, node[1], 0.0)              # plain: escapes only where required
    if k == "rs" or k == "n": return node[1]
    if k == "b": return "true" if node[1] else "false"
    if k == "z": return "null"
    if k == "a":
        return "[" + sp() + ("," + sp()).join(write(rng, x, ws, p_escape) + sp() for x in node[1]) + "]"
    if k == "o":
        return "{" + sp() + ("," + sp()).join(write(rng, kk, ws, p_escape) + sp() + ":" + sp() + write(rng, v, ws, p_escape) + sp()
                                            for kk, v in node[1]) + "}"
    raise ValueError(k)

# ---------------------------------------------------------------- values
FILES, RANKS = "abcdefgh", "12345678"
def rand_move(rng):
    r = rng.random()
    if r < 0.06: return rng.choice(["e1g1", "e1c1", "e8g8", "e8c8", "e1h1", "e8a8"])
    if r < 0.12:
        f = rng.choice(FILES); g = rng.choice(FILES)
        return (f + "7" + g + "8" if rng.random() < .5 else f + "2" + g + "1") + rng.choice("qrbn")
    return rng.choice(FILES) + rng.choice(RANKS) + rng.choice(FILES) + rng.choice(RANKS)

def rand_moves(rng, tier):
    r = rng.random()
    if r < 0.15: n = 0
    elif r < 0.55: n = rng.randint(1, 12)
    elif r < 0.9: n = rng.randint(13, 120)
    else: n = rng.randint(121, 400)
    return [rand_move(rng) for _ in range(n)]

TEXT_ALPHABET = ['a', 'b', 'Z', '0', ' ', ' ', '"', '\\', '/', '\n', '\t', '\u0001', '\u001f', '\u007f', '\u00e9', '\u00a0',
                 '\u2028', '\u20ac', '\ud7ff', '\ue000', '\uffff', '\U0001f600', '\U0010ffff', '{', '}', ',', ':', '[', ']', 'u', 'n']
def rand_text(rng):
    n = rng.choice([0, 1, 2, 3, 5, 8, 20])
    return ''.join(rng.choice(TEXT_ALPHABET) for _ in range(n))
def rand_id(rng):
    return ''.join(rng.choice("abcXYZ019-_/ +") for _ in range(rng.randint(0, 10)))

def rand_uint(rng, maxv):
    return rng.choice([0, 1, 2, 7, 60, 300, 1000, 60000, 2 ** 31 - 1, 2 ** 31, maxv - 1, maxv, rng.randint(0, maxv)])

def gen_leaf(rng, shape, tier):
    """-> (node, expected normal form as python value)"""
    if shape == "text":
        s = rand_text(rng); return ("s", s), s
    if shape == "id":
        s = rand_id(rng); return ("s", s), s
    if shape == "u32":
        v = rand_uint(rng, 2 ** 32 - 1); return ("n", str(v)), v
    if shape == "u64":
        v = rand_uint(rng, 2 ** 64 - 1); return ("n", str(v)), v
    if shape == "i32":
        v = rng.choice([0, -1, 1, -17, 2 ** 31 - 1, -2 ** 31, rng.randint(-2 ** 31, 2 ** 31 - 1)]); return ("n", str(v)), v
    if shape == "bool":
        v = rng.random() < .5; return ("b", v), v
    if shape == "moves":
        ms = rand_moves(rng, tier); return ("ps", ' '.join(ms)), ms
    if shape[0] == "enum":
        s = rng.choice(shape[1]); return ("s", s), s
    raise ValueError(shape)

def rand_junk(rng, depth=0):
    r = rng.random()
    if r < .2: return ("z",)
    if r < .3: return ("b", rng.random() < .5)
    if r < .5: return ("n", rng.choice(["0", "-1", "1.5", "1e3", "-0", "18446744073709551616", "-9223372036854775809",
                                         "2E-3", "123456789012345678901234567890", "-9223372036854775808", "0.0", "1e+10"]))
    if r < .7: return ("s", rand_text(rng))
    if depth > 3: return ("z",)
    if r < .85: return ("a", [rand_junk(rng, depth + 1) for _ in range(rng.randint(0, 3))])
    return ("o", [(("s", rng.choice(EXTRA_KEYS + ["type", "moves", "id"])), rand_junk(rng, depth + 1)) for _ in range(rng.randint(0, 3))])

def gen_fields(rng, fields, tier, cfg):
    """-> (list of (keynode, valuenode), expected dict in declaration order of `fields`)"""
    pairs, exp = [], {}
    for (w, shape, optional) in fields:
        if optional:
            r = rng.random()
            if r < cfg["p_absent"]:
                exp[w] = None; continue
            if r < cfg["p_absent"] + cfg["p_null"]:
                pairs.append((("s", w), ("z",))); exp[w] = None; continue
        node, e = gen_value(rng, shape, tier, cfg)
        pairs.append((("s", w), node)); exp[w] = e
    if rng.random() < cfg["p_extra"]:
        for _ in range(rng.randint(1, 3)):
            k = rng.choice(EXTRA_KEYS)
            if k not in RESERVED and all(k != f[0] for f in fields):
                pairs.append((("s", k), rand_junk(rng)))
    if rng.random() < cfg["p_shuffle"]:
        rng.shuffle(pairs)
    return pairs, exp

def gen_value(rng, shape, tier, cfg):
    if isinstance(shape, tuple) and shape[0] == "obj":
        pairs, exp = gen_fields(rng, shape[1], tier, cfg)
        return ("o", pairs), exp
    if isinstance(shape, tuple) and shape[0] == "tagged":
        name = rng.choice(sorted(shape[1]))
        pairs, exp = gen_fields(rng, shape[1][name], tier, cfg)
        pairs.insert(rng.randint(0, len(pairs)), (("s", "type"), ("s", name)))
        return ("o", pairs), dict([("type", name)] + list(exp.items()))
    return gen_leaf(rng, shape, tier)

def gen_message(rng, kind, name, tier, cfg):
    table = GAME if kind == "game" else EVENT
    pairs, exp = gen_fields(rng, table[name], tier, cfg)
    pairs.insert(rng.randint(0, len(pairs)) if rng.random() < cfg["p_shuffle"] else 0, (("s", "type"), ("s", name)))
    return ("o", pairs), dict([("type", name)] + list(exp.items()))

def conforming(rng, tier):
    kind = rng.choice(["game", "game", "event"])
    name = rng.choice(sorted(GAME if kind == "game" else EVENT))
    cfg = dict(p_absent=rng.choice([0, .3, .5, 1]), p_null=rng.choice([0, .2, .5]), p_extra=rng.choice([0, .3, .8]),
               p_shuffle=rng.choice([0, 1, 1]))
    node, exp = gen_message(rng, kind, name, tier, cfg)
    text = write(rng, node, ws=rng.choice([0, 0, .2]), p_escape=rng.choice([0, 0, .1, .5]))
    return kind, text, node

# ---------------------------------------------------------------- malformed / out-of-shape stream
def walk_objects(node, acc):
    if node[0] == "o":
        acc.append(node)
        for _, v in node[1]: walk_objects(v, acc)
    elif node[0] == "a":
        for v in node[1]: walk_objects(v, acc)
    return acc

BAD_NUMS = ["-1", "4294967296", "18446744073709551616", "1.0", "1e2", "-0", "0.5", "-2147483649", "2147483648",
            "9223372036854775808", "1E+2", "-9223372036854775808", "00", "01", "1.", ".5", "+1", "0x10", "1e", "--1", "NaN"]

def mutate(rng, kind, node, tier):
    """returns the JSON TEXT of a mutated document"""
    objs = walk_objects(node, [])
    o = rng.choice(objs)
    m = rng.randrange(22)
    def text(n=node, **kw): return write(rng, n, **kw)
    if m == 0 and o[1]:                                   # drop a field
        del o[1][rng.randrange(len(o[1]))]; return text()
    if m == 1 and o[1]:                                   # duplicate a field (same or different value)
        k, v = rng.choice(o[1]); o[1].insert(rng.randint(0, len(o[1])), (k, v if rng.random() < .5 else rand_junk(rng))); return text()
    if m == 2:                                            # tag games
        top = node[1]
        idx = [i for i, (k, _) in enumerate(top) if k[1] == "type"]
        r = rng.randrange(7)
        if idx and r == 0: del top[idx[0]]
        elif idx and r == 1: top[idx[0]] = (top[idx[0]][0], ("s", rng.choice(["GameFull", "gamefull", "", "game_state", "ping", "chatline"])))
        elif idx and r == 2: top[idx[0]] = (top[idx[0]][0], ("n", str(rng.randint(-1, 5))))
        elif idx and r == 3: top.append(top[idx[0]])
        elif idx and r == 4: top[idx[0]] = (top[idx[0]][0], ("z",))
        elif idx and r == 5: top[idx[0]] = (("rs", '"ty\\u0070e"'), ("rs", '"' + top[idx[0]][1][1][:1] + '\\u00' + '%02x' % ord(top[idx[0]][1][1][1:2] or 'a') + top[idx[0]][1][1][2:] + '"'))
        else: top.insert(0, (("s", "type"), ("s", rng.choice(sorted(GAME) + sorted(EVENT)))))
        return text()
    if m == 3:                                            # nested tag (timeControl) as index / bad
        for ob in objs:
            for i, (k, v) in enumerate(ob[1]):
                if k[1] == "type" and ob is not node:
                    ob[1][i] = (k, ("n", str(rng.randint(-1, 4))) if rng.random() < .7 else ("s", "Clock"))
        return text()
    if m == 4:                                            # moves written with escapes / odd spacing / wrong type
        for ob in objs:
            for i, (k, v) in enumerate(ob[1]):
                if k[1] == "moves":
                    ms = v[1] if v[0] in ("ps", "s") else "e2e4"
                    r = rng.randrange(8)
                    if r == 0: ob[1][i] = (k, ("rs", '"' + ms.replace(" ", "\\u0020", 1) + '"' if " " in ms else '"e2e4\\u0020e7e5"'))
                    elif r == 1: ob[1][i] = (k, ("ps", ms.replace(" ", "  ", 1) + " "))
                    elif r == 2: ob[1][i] = (k, ("ps", " " + ms))
                    elif r == 3: ob[1][i] = (k, ("ps", rng.choice(["", " ", "   ", " ", "\t", "  ", " e2e4", "e2e4 e7e5"])))
                    elif r == 4: ob[1][i] = (k, ("a", [("s", x) for x in ms.split(" ")]))
                    elif r == 5: ob[1][i] = (k, ("z",))
                    elif r == 6: ob[1][i] = (k, ("rs", '"e2e4\\/"'))
                    else: ob[1][i] = (k, ("ps", ms + " " + rng.choice(["x", "e2e9", "é", "e7e8k", "0000", "E2E4"])))
        return text()
    if m == 5:                                            # numbers out of range / float / garbage
        cand = [(ob, i) for ob in objs for i, (k, v) in enumerate(ob[1]) if v[0] == "n"]
        if cand:
            ob, i = rng.choice(cand); ob[1][i] = (ob[1][i][0], ("n", rng.choice(BAD_NUMS)))
        return text()
    if m == 6:                                            # rules: comma string / array / unknown / escaped
        for ob in objs:
            if any(k[1] == "finalColor" for k, _ in ob[1]):
                r = rng.randrange(9)
                names = rng.sample(RULES, rng.randint(1, 5))
                if r == 0: v = ("ps", ",".join(names))
                elif r == 1: v = ("a", [("s", x) for x in names])
                elif r == 2: v = ("ps", ",".join(x.upper() if rng.random() < .5 else x.lower() for x in names))
                elif r == 3: v = ("ps", rng.choice(["", ",", "noAbort,", "bogus", "noAbort, noRematch", "no abort", "noAbort,,noRematch"]))
                elif r == 4: v = ("rs", '"no\\u0041bort"')
                elif r == 5: v = ("z",)
                elif r == 6: v = ("ps", "noAbort"); ob[1].append((("s", "rated"), ("n", "1")))
                elif r == 7: v = ("ps", "bogus"); ob[1].insert(0, (("s", "id"), ("n", "1")))
                else: v = ("ps", "bogus"); ob[1].append((("s", "speed"), ("s", "warp")))
                ob[1].insert(rng.randint(0, len(ob[1])), (("s", "rules"), v))
        return text()
    if m == 7 and o[1]:                                   # struct as array (positional)
        arr = ("a", [v for _, v in o[1] if True])
        if o is node: return text(arr)
        for ob in objs:
            for i, (k, v) in enumerate(ob[1]):
                if v is o: ob[1][i] = (k, arr)
        return text()
    if m == 8:                                            # enum string as single-key map
        cand = [(ob, i) for ob in objs for i, (k, v) in enumerate(ob[1]) if v[0] == "s" and k[1] in
                ("status", "speed", "color", "finalColor", "winner", "room", "key", "source", "name", "direction")]
        if cand:
            ob, i = rng.choice(cand); k, v = ob[1][i]
            inner = rng.choice([("z",), ("o", []), ("n", "1"), ("a", [])])
            ob[1][i] = (k, ("o", [(("s", v[1]), inner)] + ([(("s", "x"), ("z",))] if rng.random() < .2 else [])))
        return text()
    if m == 9 and o[1]:                                   # wrong type for a field
        i = rng.randrange(len(o[1])); o[1][i] = (o[1][i][0], rand_junk(rng)); return text()
    if m == 10:                                           # broken JSON text
        t = text()
        r = rng.randrange(8)
        if r == 0: return t[:rng.randint(0, len(t))]
        if r == 1: return t + rng.choice(["x", "}", ",", "{}", " \n", "﻿", " "])
        if r == 2: return rng.choice(["﻿", " ", " ", "\n\t "]) + t
        if r == 3: return t.replace(",", ",,", 1)
        if r == 4: return t.replace(":", " ", 1)
        if r == 5: return t.replace('"', "'", 2)
        if r == 6: return t[:-1] + ",}"
        return t.replace("{", "[", 1)
    if m == 11:                                           # bad string escapes in an extra field
        bad = rng.choice(['"\\ud800"', '"\\udc00"', '"\\ud800\\u0041"', '"\\ud800x"', '"a\tb"', '"\\x"', '"\\u12"', '"\\u12G4"', '"\\uD83D\\uDE00"',
                          '"\\ud83d\\ude00"', '"\\u0000"', '"\x7f"', '"\\U0041"', '"unterminated'])
        o[1].insert(rng.randint(0, len(o[1])), (("s", "zz"), ("rs", bad))); return text()
    if m == 12:                                           # nesting depth around serde_json's limit
        d = rng.choice([100, 120, 124, 125, 126, 127, 128, 129, 200])
        br = rng.random() < .5
        deep = ("rs", ("[" * d + "]" * d) if br else ('{"a":' * d + "1" + "}" * d))
        o[1].insert(rng.randint(0, len(o[1])), (("s", "zz"), deep)); return text()
    if m == 13:                                           # top-level non-object
        return rng.choice(["null", "true", "0", '"gameState"', "[]", "{}", '["gameState"]', '["opponentGone",true,null]', '["opponentGone",true]',
                           '["chatLine","player","a","b"]', '["chatLine","player","a","b",1]', '[0,true,null]', '["unlimited"]', "", " "])
    if m == 14:                                           # optional field forms
        cand = [(ob, i) for ob in objs for i, (k, v) in enumerate(ob[1]) if v[0] == "z"]
        if cand:
            ob, i = rng.choice(cand); ob[1][i] = (ob[1][i][0], rng.choice([("o", []), ("a", []), ("s", ""), ("n", "0"), ("b", False)]))
        return text()
    if m == 15:                                           # keys written with escapes (still the same key)
        cand = [(ob, i) for ob in objs for i, (k, v) in enumerate(ob[1]) if k[0] == "s" and k[1] and k[1].isalnum()]
        if cand:
            ob, i = rng.choice(cand); k, v = ob[1][i]
            ob[1][i] = (("rs", '"\\u%04x%s"' % (ord(k[1][0]), k[1][1:])), v)
        return text()
    if m == 16:                                           # enum values: wrong case / unknown keys
        cand = [(ob, i) for ob in objs for i, (k, v) in enumerate(ob[1]) if v[0] == "s" and k[1] in
                ("status", "speed", "color", "finalColor", "winner", "room", "key", "source", "direction", "perf")]
        if cand:
            ob, i = rng.choice(cand); k, v = ob[1][i]
            ob[1][i] = (k, ("s", rng.choice([v[1].upper(), v[1].capitalize(), v[1] + " ", "tournament", "arena", "horde", "puzzle", "standard", "", "importLive"])))
        return text()
    if m == 17:                                           # reserved keys the implementation knows but the Spec leaves out
        k = rng.choice(["rematch", "declineReason", "perf", "compat", "rules"])
        v = rng.choice([("s", "abc"), ("s", "later"), ("s", "toofast"), ("s", "tooFast"), ("z",), ("s", "bullet"), ("s", "horde"),
                        ("o", [(("s", "bot"), ("b", True)), (("s", "board"), ("b", False))]), ("s", "I'm not accepting challenges at the moment."),
                        ("s", "noAbort,noClaimWin")])
        o[1].insert(rng.randint(0, len(o[1])), (("s", k), v)); return text()
    if m == 18:                                           # snake_case spelling of a camelCase key (D22 family)
        cand = [(ob, i) for ob in objs for i, (k, v) in enumerate(ob[1]) if k[0] == "s" and any(ch.isupper() for ch in k[1])]
        if cand:
            ob, i = rng.choice(cand); k, v = ob[1][i]
            ob[1][i] = (("s", ''.join('_' + ch.lower() if ch.isupper() else ch for ch in k[1])), v)
        return text()
    if m == 19:                                           # heavy whitespace / escapes everywhere (also in moves => error)
        return text(ws=.6, p_escape=.6)
    if m == 20:                                           # float literals of harmless size in unknown fields
        o[1].append((("s", "zz"), ("n", rng.choice(["1e10", "-1.5E-7", "0.000001", "123.456e2", "1e-200", "1E200", "-0.0", "0e0"])))); return text()
    # 21: several independent mutations
    t = mutate(rng, kind, node, tier)
    return t

def malformed(rng, tier):
    kind, _, node = conforming(rng, tier)
    return kind, mutate(rng, kind, node, tier)

UCI_ODD = ["", "e", "e2", "e2e", "e2e4", "e2e4q", "e2e4Q", "e2e4k", "e2e4p", "e2e4x", "e2e4qq", "e2e4 ", "i2e4", "e9e4", "e0e4", "a1h8n",
           "E2E4", "`2e4", "e2`4", "A1a1", "1e2e", "e2e4é", "éééé", "h8h8r", "a1a1", "e2e", "e2e4qzzzz", "e٢e4", "{2e4", "e2e4\t"]

def uci_case(rng):
    r = rng.random()
    if r < .4: return rand_move(rng)
    if r < .7: return rng.choice(UCI_ODD)
    s = list(rand_move(rng))
    i = rng.randrange(len(s)); s[i] = rng.choice("abcdefghi`A012345689qrbnkpQ xé")
    return ''.join(s)

def gen(rng, tier):
    n = 800 if tier == "quick" else 40000
    lines = []
    for i in range(n):
        r = rng.random()
        if r < .45:
            kind, text, _ = conforming(rng, tier)
        elif r < .93:
            kind, text = malformed(rng, tier)
        else:
            kind, text = "uci", uci_case(rng)
        lines.append(kind + "\t" + esc(text).replace(" ", "\\s") if False else kind + "\t" + esc(text))
    return lines

def nontrivial(line):
    """The text layer is passed and a documented message kind is selected: the observation depends on the
    struct / enum / option / custom-deserialiser rules, not only on JSON syntax."""
    try:
        kind, text = line.split("\t", 1)
    except ValueError:
        return False
    if kind == "uci":
        return len(unesc(text)) >= 4
    try:
        doc = json.loads(unesc(text))
    except Exception:
        return False
    table = GAME if kind == "game" else EVENT if kind == "event" else {}
    return isinstance(doc, dict) and isinstance(doc.get("type"), str) and doc.get("type") in table

if __name__ == "__main__":
    import collections
    tier = sys.argv[1] if len(sys.argv) > 1 else "quick"
    seed = int(os.environ.get("VERIF_SEED", "1"))
    cases = gen(random.Random(seed), tier)
    if len(sys.argv) > 2:
        with open(sys.argv[2], "w", encoding="utf-8") as fh:
            fh.write("\n".join(cases) + "\n")
    sys.stderr.write("%d cases, %d nontrivial, kinds %s\n" % (
        len(cases), sum(nontrivial(c) for c in cases), dict(collections.Counter(c.split("\t")[0] for c in cases))))

(* Runs the extracted Coq model/spec on line-oriented cases:  ink_model <tables.txt> <family>  < cases > observations
   Family-agnostic: a line is decoded from UTF-8 into code points (Coq N list), handed to Run.run, and the
   resulting code points are encoded back.  Tables are loaded at run time from the dump of the current tree. *)
open BinNums

let rec pos_of_int64 (x : int64) : positive =
  if Int64.equal x 1L then Coq_xH
  else if Int64.equal (Int64.logand x 1L) 0L then Coq_xO (pos_of_int64 (Int64.shift_right_logical x 1))
  else Coq_xI (pos_of_int64 (Int64.shift_right_logical x 1))
let n_of_int64 (x : int64) : coq_N = if Int64.equal x 0L then N0 else Npos (pos_of_int64 x)
let n_of_int (x : int) : coq_N = n_of_int64 (Int64.of_int x)
let n_of_string (s : string) : coq_N = n_of_int64 (Int64.of_string ("0u" ^ s))      (* unsigned 64-bit decimal *)
let z_of_string (s : string) : coq_Z =
  let v = Int64.of_string s in
  if Int64.equal v 0L then Z0 else if Int64.compare v 0L > 0 then Zpos (pos_of_int64 v) else Zneg (pos_of_int64 (Int64.neg v))

let rec int_of_pos (p : positive) : int = match p with Coq_xH -> 1 | Coq_xO q -> 2 * int_of_pos q | Coq_xI q -> 2 * int_of_pos q + 1
let int_of_n (n : coq_N) : int = match n with N0 -> 0 | Npos p -> int_of_pos p

(* UTF-8 <-> code points *)
let decode_utf8 (s : string) : coq_N list =
  let n = Stdlib.String.length s in
  let rec go i acc =
    if i >= n then Stdlib.List.rev acc else
    let c = Char.code (Stdlib.String.get s i) in
    let cont k = if i + k < n then Char.code (Stdlib.String.get s (i + k)) land 0x3f else 0 in
    if c < 0x80 then go (i + 1) (n_of_int c :: acc)
    else if c < 0xe0 then go (i + 2) (n_of_int (((c land 0x1f) lsl 6) lor cont 1) :: acc)
    else if c < 0xf0 then go (i + 3) (n_of_int (((c land 0x0f) lsl 12) lor (cont 1 lsl 6) lor cont 2) :: acc)
    else go (i + 4) (n_of_int (((c land 0x07) lsl 18) lor (cont 1 lsl 12) lor (cont 2 lsl 6) lor cont 3) :: acc)
  in go 0 []

let encode_utf8 (l : coq_N list) : string =
  let b = Buffer.create 256 in
  Stdlib.List.iter (fun n ->
    let c = int_of_n n in
    if c < 0x80 then Buffer.add_char b (Char.chr c)
    else if c < 0x800 then (Buffer.add_char b (Char.chr (0xc0 lor (c lsr 6))); Buffer.add_char b (Char.chr (0x80 lor (c land 0x3f))))
    else if c < 0x10000 then (Buffer.add_char b (Char.chr (0xe0 lor (c lsr 12))); Buffer.add_char b (Char.chr (0x80 lor ((c lsr 6) land 0x3f))); Buffer.add_char b (Char.chr (0x80 lor (c land 0x3f))))
    else (Buffer.add_char b (Char.chr (0xf0 lor (c lsr 18))); Buffer.add_char b (Char.chr (0x80 lor ((c lsr 12) land 0x3f))); Buffer.add_char b (Char.chr (0x80 lor ((c lsr 6) land 0x3f))); Buffer.add_char b (Char.chr (0x80 lor (c land 0x3f))))) l;
  Buffer.contents b

let words (s : string) : string list = Stdlib.List.filter (fun w -> w <> "") (Stdlib.String.split_on_char ' ' (Stdlib.String.trim s))

let load_tables (path : string) : Tables.t =
  let ic = open_in path in
  let magics = Array.make 128 Tables.empty_cfg in
  let leapers = Array.make 4 [] in
  let zob_ps = Array.make 14 [] in
  let pst = Hashtbl.create 64 in
  let recs = Hashtbl.create 32 in
  (try
    while true do
      let line = input_line ic in
      match words line with
      | "magic" :: kind :: sq :: mask :: magic :: hmask :: shift :: _n :: att ->
          magics.(64 * int_of_string kind + int_of_string sq) <-
            { Tables.mg_mask = n_of_string mask; mg_magic = n_of_string magic; mg_hash_mask = n_of_string hmask;
              mg_shift = n_of_string shift; mg_attacks = Stdlib.List.map n_of_string att }
      | "leaper" :: kind :: vals -> leapers.(int_of_string kind) <- Stdlib.List.map n_of_string vals
      | "zob_ps" :: row :: vals -> zob_ps.(int_of_string row) <- Stdlib.List.map n_of_string vals
      | "pst" :: side :: stage :: piece :: vals -> Hashtbl.replace pst (side, int_of_string stage, int_of_string piece) (Stdlib.List.map z_of_string vals)
      | key :: vals -> Hashtbl.replace recs key vals
      | [] -> ()
    done
  with End_of_file -> close_in ic);
  let rec_n key = Stdlib.List.map n_of_string (Hashtbl.find recs key) in
  let nth l i = Stdlib.List.nth l i in
  let stage_tables side = Stdlib.List.map (fun st -> Stdlib.List.map (fun p -> Hashtbl.find pst (side, st, p)) [0;1;2;3;4;5]) [0;1;2] in
  let consts = Hashtbl.find recs "consts" in
  let zm = rec_n "zob_misc" in let ce = rec_n "castle_empty" in let cc = rec_n "castle_check" in
  let src = Hashtbl.find recs "src_consts" in       (* 7 mvv values, P N B R Q, history_len, tt_capacity *)
  let layout = Stdlib.List.map (fun s -> match Stdlib.String.split_on_char ':' s with
                                         | [m; sh] -> (n_of_string m, n_of_string sh) | _ -> failwith "layout") (Hashtbl.find recs "layout") in
  { Tables.rook_magics = Array.to_list (Array.sub magics 0 64); bishop_magics = Array.to_list (Array.sub magics 64 64);
    king_tbl = leapers.(0); knight_tbl = leapers.(1); wpawn_tbl = leapers.(2); bpawn_tbl = leapers.(3);
    zob_ps = Array.to_list zob_ps; zob_ep = rec_n "zob_ep";
    zob_wq = nth zm 0; zob_wk = nth zm 1; zob_bq = nth zm 2; zob_bk = nth zm 3; zob_side = nth zm 4;
    pst_white = stage_tables "white"; pst_black = stage_tables "black";
    win_score = z_of_string (nth consts 0); draw_score = z_of_string (nth consts 1); max_full_moves = z_of_string (nth consts 2);
    max_half_moves = n_of_string (nth consts 3); contempt = z_of_string (nth consts 4);
    mvv_values = Stdlib.List.map z_of_string (Stdlib.List.filteri (fun i _ -> i < 7) src);
    val_p = n_of_string (nth src 7); val_n = n_of_string (nth src 8); val_b = n_of_string (nth src 9);
    val_r = n_of_string (nth src 10); val_q = n_of_string (nth src 11);
    wq_empty = nth ce 0; wk_empty = nth ce 1; bq_empty = nth ce 2; bk_empty = nth ce 3;
    wq_check = nth cc 0; wk_check = nth cc 1; bq_check = nth cc 2; bk_check = nth cc 3;
    rank_masks = rec_n "ranks"; file_masks = rec_n "files"; layout = layout;
    poll_period = n_of_string (nth (Hashtbl.find recs "poll_period") 0);
    history_len = n_of_string (nth src 12); tt_capacity = n_of_string (nth src 13) }

let () =
  let tables = load_tables Sys.argv.(1) in
  let family = decode_utf8 Sys.argv.(2) in
  (try
    while true do
      let line = input_line stdin in
      let obs = (try encode_utf8 (Run.run tables family (decode_utf8 line)) with Stack_overflow -> "STACKOVERFLOW") in
      print_string obs; print_char '\n'
    done
  with End_of_file -> ());
  flush stdout

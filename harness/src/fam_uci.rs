//! Families `uciparse` and `ucimove` (property C15): the GUI-to-engine command reader of the `uci` crate.
//!
//! uciparse  case line   = the command text, escaped (one field); the unescaped text goes to
//!                         `CommandParser::new(&text).parse()`
//!           observation = canonical rendering of the result (T = a TAB, <x> = escaped text):
//!             ok uci | ok isready | ok ucinewgame | ok stop | ok ponderhit | ok quit | ok registerlater
//!             ok debug on|off
//!             ok setoption <name>         ok setoptionvalue <name>T<value>        ok register <name>T<code>
//!             ok position <fen text> | m1 m2 ...
//!             ok go sm=[m1 m2 ...] ponder=0|1 wtime=N|- btime=N|- winc=N|- binc=N|- mtg=N|- depth=N|- nodes=N|-
//!                   mate=N|- movetime=N|- inf=0|1       (durations in milliseconds)
//!             err unknown <w> | err eoc | err token <actual> | err fen | err int | err dup <w> | err move <s>
//!             PANIC   (the parser panicked; the Coq model has no such outcome)
//! ucimove   case line   = a move text, escaped; observation = `ok <Display form>` | `err` | `PANIC`
//! (same text as coq/Driver/RunUci.v)

use std::str::FromStr;
use std::time::Duration;

use inkayaku_uci::parser::{CommandParser, ParserError};
use inkayaku_uci::{Go, ParseUciMoveError, UciCommand, UciMove};

use crate::util::{esc, guarded, unesc};

fn moves(ms: &[UciMove]) -> String {
    ms.iter().map(|m| m.to_string()).collect::<Vec<_>>().join(" ")
}

fn dur(d: &Option<Duration>) -> String {
    d.map_or_else(|| "-".to_string(), |d| d.as_millis().to_string())
}

fn num(n: &Option<u64>) -> String {
    n.map_or_else(|| "-".to_string(), |n| n.to_string())
}

fn flag(b: bool) -> &'static str {
    if b { "1" } else { "0" }
}

fn show_go(g: &Go) -> String {
    format!(
        "sm=[{}] ponder={} wtime={} btime={} winc={} binc={} mtg={} depth={} nodes={} mate={} movetime={} inf={}",
        moves(&g.search_moves), flag(g.ponder), dur(&g.white_time), dur(&g.black_time), dur(&g.white_increment),
        dur(&g.black_increment), num(&g.moves_to_go), num(&g.depth), num(&g.nodes), num(&g.mate), dur(&g.move_time),
        flag(g.infinite)
    )
}

fn show_command(c: &UciCommand) -> String {
    match c {
        UciCommand::Uci => "ok uci".to_string(),
        UciCommand::SetDebug { debug } => format!("ok debug {}", if *debug { "on" } else { "off" }),
        UciCommand::IsReady => "ok isready".to_string(),
        UciCommand::SetOption { name } => format!("ok setoption {}", esc(name)),
        UciCommand::SetOptionValue { name, value } => format!("ok setoptionvalue {}\t{}", esc(name), esc(value)),
        UciCommand::RegisterLater => "ok registerlater".to_string(),
        UciCommand::Register { name, code } => format!("ok register {}\t{}", esc(name), esc(code)),
        UciCommand::UciNewGame => "ok ucinewgame".to_string(),
        UciCommand::PositionFrom { fen, moves: ms } => format!("ok position {} | {}", esc(&fen.fen), moves(ms)),
        UciCommand::Go { go } => format!("ok go {}", show_go(go)),
        UciCommand::Stop => "ok stop".to_string(),
        UciCommand::PonderHit => "ok ponderhit".to_string(),
        UciCommand::Quit => "ok quit".to_string(),
    }
}

fn show_error(e: &ParserError) -> String {
    match e {
        ParserError::UnknownCommand(w) => format!("err unknown {}", esc(w)),
        ParserError::UnexpectedEndOfCommand => "err eoc".to_string(),
        ParserError::UnexpectedToken { actual, .. } => format!("err token {}", esc(actual)),
        ParserError::InvalidFen(_) => "err fen".to_string(),
        ParserError::InvalidInt(_) => "err int".to_string(),
        ParserError::DuplicatedToken(w) => format!("err dup {}", esc(w)),
        ParserError::InvalidUciMove(ParseUciMoveError::InvalidFormat(s)) => format!("err move {}", esc(s)),
    }
}

pub fn uciparse(line: &str) -> String {
    let text = unesc(line);
    guarded(move || match CommandParser::new(&text).parse() {
        Ok(c) => show_command(&c),
        Err(e) => show_error(&e),
    })
}

pub fn ucimove(line: &str) -> String {
    let text = unesc(line);
    guarded(move || match UciMove::from_str(&text) {
        Ok(m) => format!("ok {}", m),
        Err(_) => "err".to_string(),
    })
}

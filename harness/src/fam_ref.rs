//! Reference evaluator for C08/C10/C11: plain fail-soft alpha-beta negamax (full window at the root, per root move) with exhaustive
//! capture/promotion resolution and stand pat at the horizon (the executable reading of Spec/Minimax.v), built on the
//! implementation's own board primitives (verified separately by C01-C05) and on the engine's own static evaluation
//! through the cfg(inkayaku_verif) hook.  No transposition table, no ordering heuristics, no history.
use inkayaku_board::constants::WHITE;
use inkayaku_board::{Bitboard, Move};
use inkayaku_engine_core::verif;

use crate::fam_board::{fen_of, safe};
use crate::util::{guarded, unesc};

const INF: i32 = i32::MAX / 2;

fn factor(b: &Bitboard) -> i32 { if b.turn == WHITE { 1 } else { -1 } }

fn legal_moves(b: &mut Bitboard) -> Vec<Move> { b.generate_legal_moves() }

struct Budget { nodes: u64, limit: u64 }

/// exact value of the capture/promotion resolution (alpha-beta only as an optimisation: fail-soft, so with the
/// full window the returned value is the plain recursion max(stand pat, max -qs(child)))
fn qs(b: &mut Bitboard, mut alpha: i32, beta: i32, bud: &mut Budget) -> Option<i32> {
    bud.nodes += 1;
    if bud.nodes > bud.limit { return None; }
    let stand = factor(b) * verif::static_eval(b, true);
    let mut best = stand;
    if best >= beta { return Some(best); }
    if best > alpha { alpha = best; }
    let mut noisy: Vec<Move> = b.generate_pseudo_legal_non_quiescent_moves();
    noisy.sort_by_key(|m| std::cmp::Reverse(m.mvvlva));
    for m in noisy {
        b.make(m);
        if !b.is_valid() { b.unmake(m); continue; }
        let v = qs(b, -beta, -alpha, bud).map(|x| -x);
        b.unmake(m);
        let v = v?;
        if v > best { best = v; }
        if best >= beta { return Some(best); }
        if best > alpha { alpha = best; }
    }
    Some(best)
}

/// fail-soft alpha-beta without any table or heuristic state; with the full window the result is the exact
/// negamax value nm d (theorem C08_alpha_beta_sound); captures are tried first only to prune earlier.
fn nm(b: &mut Bitboard, d: usize, mut alpha: i32, beta: i32, bud: &mut Budget) -> Option<i32> {
    bud.nodes += 1;
    if bud.nodes > bud.limit { return None; }
    let mut legal = legal_moves(b);
    if legal.is_empty() { return Some(factor(b) * verif::static_eval(b, false)); }
    if d == 0 { return qs(b, alpha, beta, bud); }
    legal.sort_by_key(|m| std::cmp::Reverse(m.mvvlva));
    let mut best = -INF;
    for m in legal {
        b.make(m);
        let v = nm(b, d - 1, -beta, -alpha, bud).map(|x| -x);
        b.unmake(m);
        best = best.max(v?);
        if best >= beta { return Some(best); }
        if best > alpha { alpha = best; }
    }
    Some(best)
}

fn score_text(v: i32, b: &Bitboard) -> String {
    match verif::score_from_value(v, b) {
        inkayaku_uci::Score::Centipawn { score } => format!("cp {}", score),
        inkayaku_uci::Score::Mate { mate_in } => format!("mate {}", mate_in),
        inkayaku_uci::Score::CentipawnBounded { score, .. } => format!("cpb {}", score),
    }
}

/// case: <fen> TAB <depth>    obs: <value> | <score text> | <root moves attaining it, sorted> | <nodes>     or SKIP (budget)
pub fn refsearch(line: &str) -> String {
    let line = line.to_string();
    guarded(move || {
        let f: Vec<&str> = line.split('\t').collect();
        if f.len() != 2 { return "BADCASE".into(); }
        let Ok(mut b) = Bitboard::from_fen_string(&unesc(f[0])) else { return "BADFEN".into() };
        if !safe(&b) || !b.is_valid() { return "UNSAFE".into(); }
        let d: usize = f[1].parse().unwrap_or(1);
        let mut bud = Budget { nodes: 0, limit: 30_000_000 };
        let legal = legal_moves(&mut b);
        if legal.is_empty() {
            let v = factor(&b) * verif::static_eval(&b, false);
            return format!("{} | {} |  | 1", v, score_text(v, &b));
        }
        let mut vals = Vec::new();
        for m in &legal {
            b.make(*m);
            let v = nm(&mut b, d.saturating_sub(1), -INF, INF, &mut bud).map(|x| -x);
            b.unmake(*m);
            match v { Some(v) => vals.push((m.to_uci_string(), v)), None => return "SKIP".into() }
        }
        let best = vals.iter().map(|x| x.1).max().unwrap();
        let mut attaining: Vec<String> = vals.iter().filter(|x| x.1 == best).map(|x| x.0.clone()).collect();
        attaining.sort();
        format!("{} | {} | {} | {}", best, score_text(best, &b), attaining.join(","), bud.nodes)
    })
}


/// identity of a position for repetition purposes, as C06/C10 define it: placement, side, castling rights, e.p. FILE
fn rep_key(b: &Bitboard) -> String {
    let fen = fen_of(b);
    let f: Vec<&str> = fen.split(' ').collect();
    let ep = f[3].chars().next().unwrap_or('-');
    format!("{} {} {} {}", f[0], f[1], f[2], ep)
}

/// repetition-aware reference (C10): the value of a node at ply > 0 is the draw score (+/- the contempt offset by ply parity)
/// exactly when its position has then occurred at least three times among the reversible tail of game history + line.
/// `hist` holds (key, half-move clock) of every earlier position, oldest first, the current node excluded.
fn nm_hist(b: &mut Bitboard, d: usize, ply: usize, mut alpha: i32, beta: i32, hist: &mut Vec<String>, bud: &mut Budget) -> Option<i32> {
    bud.nodes += 1;
    if bud.nodes > bud.limit { return None; }
    let key = rep_key(b);
    if ply > 0 {
        let window = (b.halfmove_clock as usize).min(hist.len());
        let n = 1 + hist[hist.len() - window..].iter().filter(|k| **k == key).count();
        if n >= 3 {
            let (_, draw, _, _, contempt) = verif::constants();
            return Some(draw + if ply % 2 == 0 { contempt } else { -contempt });
        }
    }
    let mut legal = legal_moves(b);
    if legal.is_empty() { return Some(factor(b) * verif::static_eval(b, false)); }
    if d == 0 { return qs(b, alpha, beta, bud); }
    legal.sort_by_key(|m| std::cmp::Reverse(m.mvvlva));
    let mut best = -INF;
    hist.push(key);
    for m in legal {
        b.make(m);
        let v = nm_hist(b, d - 1, ply + 1, -beta, -alpha, hist, bud).map(|x| -x);
        b.unmake(m);
        let Some(v) = v else { hist.pop(); return None };
        best = best.max(v);
        if best >= beta { break; }
        if best > alpha { alpha = best; }
    }
    hist.pop();
    Some(best)
}

/// case: <fen> TAB <uci uci ...> TAB <depth>    obs: <value> | <score text> | <root moves attaining it> | <nodes>
pub fn refsearch_hist(line: &str) -> String {
    let line = line.to_string();
    guarded(move || {
        let f: Vec<&str> = line.split('\t').collect();
        if f.len() != 3 { return "BADCASE".into(); }
        let Ok(mut b) = Bitboard::from_fen_string(&unesc(f[0])) else { return "BADFEN".into() };
        if !safe(&b) || !b.is_valid() { return "UNSAFE".into(); }
        let mut hist: Vec<String> = Vec::new();
        for u in f[1].split(' ').filter(|s| !s.is_empty()) {
            hist.push(rep_key(&b));
            if b.make_uci(u).is_err() { return "BADMOVE".into(); }
        }
        let d: usize = f[2].parse().unwrap_or(1);
        let mut bud = Budget { nodes: 0, limit: 30_000_000 };
        let legal = legal_moves(&mut b);
        if legal.is_empty() {
            let v = factor(&b) * verif::static_eval(&b, false);
            return format!("{} | {} |  | 1", v, score_text(v, &b));
        }
        let root_key = rep_key(&b);
        let mut vals = Vec::new();
        hist.push(root_key);
        for m in &legal {
            b.make(*m);
            let v = nm_hist(&mut b, d.saturating_sub(1), 1, -INF, INF, &mut hist, &mut bud).map(|x| -x);
            b.unmake(*m);
            match v { Some(v) => vals.push((m.to_uci_string(), v)), None => return "SKIP".into() }
        }
        let best = vals.iter().map(|x| x.1).max().unwrap();
        let mut attaining: Vec<String> = vals.iter().filter(|x| x.1 == best).map(|x| x.0.clone()).collect();
        attaining.sort();
        format!("{} | {} | {} | {}", best, score_text(best, &b), attaining.join(","), bud.nodes)
    })
}

/// case: <fen> TAB <uci uci ...>   obs: legal=<number of leading legal moves> final=<fen> check=<0/1> nomoves=<0/1>
pub fn pvcheck(line: &str) -> String {
    let line = line.to_string();
    guarded(move || {
        let f: Vec<&str> = line.split('\t').collect();
        if f.len() != 2 { return "BADCASE".into(); }
        let Ok(mut b) = Bitboard::from_fen_string(&unesc(f[0])) else { return "BADFEN".into() };
        if !safe(&b) { return "UNSAFE".into(); }
        let mut k = 0;
        for u in f[1].split(' ').filter(|s| !s.is_empty()) {
            match b.find_uci(u) { Ok(m) => { b.make(m); k += 1; } Err(_) => break }
        }
        let nomoves = b.generate_legal_moves().is_empty();
        format!("legal={} final={} check={} nomoves={}", k, fen_of(&b).replace(' ', "_"), u8::from(b.is_current_in_check()), u8::from(nomoves))
    })
}

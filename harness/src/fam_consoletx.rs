//! Family `consoletx`: one call of a `UciTx` method on the real `ConsoleUciTx` (uci/src/uci/console.rs) with a
//! capturing consumer.  Same case / observation lines as coq/Driver/RunUciOut.v (`run_consoletx`).
//!
//! Case: TAB separated fields, every field escaped on its own; field 1 is the method:
//!   idname <text> | idauthor <text> | uciok | readyok | debug <text>
//!   bestmove <move|-> <move|->
//!   copyprotection <checking|ok|error> | registration <checking|ok|error>
//!   info <key>=<value> ...   any subset, any order, each key at most once:
//!       depth seldepth multipv currmovenumber hashfull tbhits sbhits cpuload   u32 decimal
//!       nodes nps  u64 decimal        time  u64 decimal (milliseconds, `Duration::from_millis`)
//!       pv refutation  moves separated by `,` (empty value = Some(vec![]))
//!       currmove  move        currline  <u32>:<moves>
//!       score  cp:<i32> | cpl:<i32> (LOWER) | cpu:<i32> (UPPER) | mate:<i32>
//!       string  text
//!   optioncheck <name> <true|false> | optionspin <name> <i32> <i32> <i32>
//!   optioncombo <name> <default> <var>* | optionbutton <name> | optionstring <name> <default>
//! move = [a-h][1-8][a-h][1-8][pnbrqk]?  decoded here (not with the parser of /repo) into `Square::VALUES[i]`,
//! `Piece::VALUES[i]`.
//! Observation: the line handed to the stdout consumer (escaped), `NONE` when the consumer was not called, `PANIC`,
//! `BADCASE` for a malformed case.  (More than one consumer call would be reported as the lines joined by ` ;; `.)
use std::sync::{Arc, Mutex};
use std::time::Duration;

use inkayaku_core::constants::{Piece, Square};
use inkayaku_uci::console::ConsoleUciTx;
use inkayaku_uci::{Bound, CurrentLine, Info, ProtectionMessage, Score, UciMove, UciTx};

use crate::util::{esc, unesc};

fn num(s: &str, max: u64) -> Option<u64> {
    if s.is_empty() || !s.bytes().all(|b| b.is_ascii_digit()) {
        return None;
    }
    let mut acc: u64 = 0;
    for b in s.bytes() {
        acc = acc.checked_mul(10)?.checked_add(u64::from(b - b'0'))?;
        if acc > max {
            return None;
        }
    }
    Some(acc)
}

fn u32v(s: &str) -> Option<u32> { num(s, u64::from(u32::MAX)).map(|v| v as u32) }
fn u64v(s: &str) -> Option<u64> { num(s, u64::MAX) }

fn int(s: &str) -> Option<i32> {
    if let Some(rest) = s.strip_prefix('-') {
        num(rest, 2_147_483_648).map(|v| (-(v as i64)) as i32)
    } else {
        num(s, 2_147_483_647).map(|v| v as i32)
    }
}

fn square(f: char, r: char) -> Option<Square> {
    if ('a'..='h').contains(&f) && ('1'..='8').contains(&r) {
        let idx = (f as usize - 'a' as usize) + 8 * ('8' as usize - r as usize);
        Some(Square::VALUES[idx])
    } else {
        None
    }
}

fn piece(c: char) -> Option<Piece> {
    "pnbrqk".chars().position(|x| x == c).map(|i| Piece::VALUES[i])
}

fn mv(s: &str) -> Option<UciMove> {
    let cs: Vec<char> = s.chars().collect();
    match cs.len() {
        4 => Some(UciMove::new(square(cs[0], cs[1])?, square(cs[2], cs[3])?)),
        5 => Some(UciMove::new_with_promotion(square(cs[0], cs[1])?, square(cs[2], cs[3])?, piece(cs[4])?)),
        _ => None,
    }
}

fn moves(s: &str) -> Option<Vec<UciMove>> {
    if s.is_empty() {
        return Some(Vec::new());
    }
    s.split(',').map(mv).collect()
}

fn opt_move(s: &str) -> Option<Option<UciMove>> {
    if s == "-" { Some(None) } else { mv(s).map(Some) }
}

fn score(s: &str) -> Option<Score> {
    let parts: Vec<&str> = s.split(':').collect();
    if parts.len() != 2 {
        return None;
    }
    let z = int(parts[1])?;
    match parts[0] {
        "cp" => Some(Score::Centipawn { score: z }),
        "cpl" => Some(Score::CentipawnBounded { score: z, bound: Bound::LOWER }),
        "cpu" => Some(Score::CentipawnBounded { score: z, bound: Bound::UPPER }),
        "mate" => Some(Score::Mate { mate_in: z }),
        _ => None,
    }
}

fn currline(s: &str) -> Option<CurrentLine> {
    let parts: Vec<&str> = s.split(':').collect();
    if parts.len() != 2 {
        return None;
    }
    Some(CurrentLine::new(u32v(parts[0])?, moves(parts[1])?))
}

fn protection(s: &str) -> Option<ProtectionMessage> {
    match s {
        "checking" => Some(ProtectionMessage::CHECKING),
        "ok" => Some(ProtectionMessage::OK),
        "error" => Some(ProtectionMessage::ERROR),
        _ => None,
    }
}

const KEYS: [&str; 17] = ["depth", "seldepth", "time", "nodes", "pv", "multipv", "score", "currmove", "currmovenumber",
    "hashfull", "nps", "tbhits", "sbhits", "cpuload", "string", "refutation", "currline"];

fn info(raw: &[&str]) -> Option<Info> {
    let mut info = Info::EMPTY;
    let mut seen: Vec<&str> = Vec::new();
    let mut kvs: Vec<(&str, String)> = Vec::new();
    // first pass: shape of every field, known and distinct keys (as in the Coq driver, before any value is looked at)
    for f in raw {
        let (k, v) = f.split_once('=')?;
        if !KEYS.contains(&k) || seen.contains(&k) {
            return None;
        }
        seen.push(k);
        kvs.push((k, unesc(v)));
    }
    for (k, v) in &kvs {
        let v = v.as_str();
        match *k {
            "depth" => info.depth = Some(u32v(v)?),
            "seldepth" => info.selective_depth = Some(u32v(v)?),
            "time" => info.time = Some(Duration::from_millis(u64v(v)?)),
            "nodes" => info.nodes = Some(u64v(v)?),
            "pv" => info.principal_variation = Some(moves(v)?),
            "multipv" => info.multi_pv = Some(u32v(v)?),
            "score" => info.score = Some(score(v)?),
            "currmove" => info.current_move = Some(mv(v)?),
            "currmovenumber" => info.current_move_number = Some(u32v(v)?),
            "hashfull" => info.hash_full = Some(u32v(v)?),
            "nps" => info.nps = Some(u64v(v)?),
            "tbhits" => info.table_hits = Some(u32v(v)?),
            "sbhits" => info.shredder_table_hits = Some(u32v(v)?),
            "cpuload" => info.cpu_load = Some(u32v(v)?),
            "string" => info.string = Some(v.to_string()),
            "refutation" => info.refutation = Some(moves(v)?),
            "currline" => info.current_line = Some(currline(v)?),
            _ => return None,
        }
    }
    Some(info)
}

enum Call {
    IdName(String),
    IdAuthor(String),
    UciOk,
    ReadyOk,
    BestMove(Option<UciMove>, Option<UciMove>),
    CopyProtection(ProtectionMessage),
    Registration(ProtectionMessage),
    Info(Info),
    OptionCheck(String, bool),
    OptionSpin(String, i32, i32, i32),
    OptionCombo(String, String, Vec<String>),
    OptionButton(String),
    OptionString(String, String),
    Debug(String),
}

fn parse(line: &str) -> Option<Call> {
    let raw: Vec<&str> = line.split('\t').collect();
    let method = *raw.first()?;
    let rest = &raw[1..];
    if method == "info" {
        return info(rest).map(Call::Info);
    }
    let args: Vec<String> = rest.iter().map(|s| unesc(s)).collect();
    let a: Vec<&str> = args.iter().map(|s| s.as_str()).collect();
    match (method, a.as_slice()) {
        ("idname", [t]) => Some(Call::IdName(t.to_string())),
        ("idauthor", [t]) => Some(Call::IdAuthor(t.to_string())),
        ("uciok", []) => Some(Call::UciOk),
        ("readyok", []) => Some(Call::ReadyOk),
        ("debug", [t]) => Some(Call::Debug(t.to_string())),
        ("bestmove", [b, p]) => Some(Call::BestMove(opt_move(b)?, opt_move(p)?)),
        ("copyprotection", [p]) => protection(p).map(Call::CopyProtection),
        ("registration", [p]) => protection(p).map(Call::Registration),
        ("optioncheck", [n, d]) => match *d {
            "true" => Some(Call::OptionCheck(n.to_string(), true)),
            "false" => Some(Call::OptionCheck(n.to_string(), false)),
            _ => None,
        },
        ("optionspin", [n, d, mn, mx]) => Some(Call::OptionSpin(n.to_string(), int(d)?, int(mn)?, int(mx)?)),
        ("optioncombo", [n, d, vars @ ..]) => Some(Call::OptionCombo(n.to_string(), d.to_string(), vars.iter().map(|s| s.to_string()).collect())),
        ("optionbutton", [n]) => Some(Call::OptionButton(n.to_string())),
        ("optionstring", [n, d]) => Some(Call::OptionString(n.to_string(), d.to_string())),
        _ => None,
    }
}

pub fn run(line: &str) -> String {
    let Some(call) = parse(line) else { return "BADCASE".to_string() };
    crate::util::guarded(move || {
        let out: Arc<Mutex<Vec<String>>> = Arc::new(Mutex::new(Vec::new()));
        let sink = Arc::clone(&out);
        {
            let tx = ConsoleUciTx::new(
                move |s: &str| sink.lock().unwrap().push(s.to_string()),
                |_s: &str| {},
                false,
            );
            match call {
                Call::IdName(t) => tx.id_name(&t),
                Call::IdAuthor(t) => tx.id_author(&t),
                Call::UciOk => tx.uci_ok(),
                Call::ReadyOk => tx.ready_ok(),
                Call::BestMove(b, p) => tx.best_move(b, p),
                Call::CopyProtection(p) => tx.copy_protection(p),
                Call::Registration(p) => tx.registration(p),
                Call::Info(i) => tx.info(&i),
                Call::OptionCheck(n, d) => tx.option_check(&n, d),
                Call::OptionSpin(n, d, mn, mx) => tx.option_spin(&n, d, mn, mx),
                Call::OptionCombo(n, d, vars) => {
                    let v: Vec<&str> = vars.iter().map(|s| s.as_str()).collect();
                    tx.option_combo(&n, &d, &v)
                }
                Call::OptionButton(n) => tx.option_button(&n),
                Call::OptionString(n, d) => tx.option_string(&n, &d),
                Call::Debug(t) => tx.debug(&t),
            }
        }
        let lines = out.lock().unwrap();
        if lines.is_empty() {
            "NONE".to_string()
        } else {
            lines.iter().map(|l| esc(l)).collect::<Vec<_>>().join(" ;; ")
        }
    })
}

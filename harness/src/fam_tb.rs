//! Exhaustive ground truth for short forced mates in three- and four-man endings (C08): a memoised forward
//! recursion over the implementation's own board primitives (move generation and check detection are verified
//! separately by C01-C05), no engine code involved.
//!   win(b, k):  the side to move can force mate in at most k of its own moves
//!   lose(b, k): the side to move is checkmated now, or every legal move leads to win(child, k)
use std::collections::HashMap;

use inkayaku_board::Bitboard;

use crate::fam_board::{fen_of, safe};
use crate::util::guarded;

struct Tb { win: HashMap<(u64, u8), bool>, lose: HashMap<(u64, u8), bool> }

impl Tb {
    fn win(&mut self, b: &mut Bitboard, k: u8) -> bool {
        if k == 0 { return false; }
        let key = (b.calculate_zobrist_hash(), k);
        if let Some(&v) = self.win.get(&key) { return v; }
        let mut r = false;
        for m in b.generate_legal_moves() {
            b.make(m);
            let l = self.lose(b, k - 1);
            b.unmake(m);
            if l { r = true; break; }
        }
        self.win.insert(key, r);
        r
    }
    fn lose(&mut self, b: &mut Bitboard, k: u8) -> bool {
        let key = (b.calculate_zobrist_hash(), k);
        if let Some(&v) = self.lose.get(&key) { return v; }
        let legal = b.generate_legal_moves();
        let r = if legal.is_empty() { b.is_current_in_check() } else if k == 0 { false } else {
            let mut all = true;
            for m in legal {
                b.make(m);
                let w = self.win(b, k);
                b.unmake(m);
                if !w { all = false; break; }
            }
            all
        };
        self.lose.insert(key, r);
        r
    }
}

fn place(material: &[char], squares: &[usize]) -> String {
    let mut grid = [' '; 64];
    for (p, s) in material.iter().zip(squares) { grid[*s] = *p; }
    let mut out = String::new();
    for r in 0..8 {
        let mut run = 0;
        for f in 0..8 {
            let c = grid[r * 8 + f];
            if c == ' ' { run += 1; } else { if run > 0 { out.push_str(&run.to_string()); run = 0; } out.push(c); }
        }
        if run > 0 { out.push_str(&run.to_string()); }
        if r < 7 { out.push('/'); }
    }
    out
}

/// case: <material, e.g. KQk> <shard> <shards> [<stride>]
/// obs:  `;`-separated entries `<fen with _ for spaces>|<N>|<moves keeping the mate in N>` for every position of that material
///       (white to move) with a forced mate in N <= 3, restricted to placements whose index = shard (mod shards)
pub fn tbmate(line: &str) -> String {
    let line = line.to_string();
    guarded(move || {
        let w: Vec<&str> = line.split(' ').collect();
        if w.len() < 3 { return "BADCASE".into(); }
        let material: Vec<char> = w[0].chars().collect();
        let shard: usize = w[1].parse().unwrap_or(0);
        let shards: usize = w[2].parse().unwrap_or(1).max(1);
        let n = material.len();
        if !(3..=4).contains(&n) { return "BADCASE".into(); }
        let mut tb = Tb { win: HashMap::new(), lose: HashMap::new() };
        let mut out: Vec<String> = Vec::new();
        let total = 64usize.pow(n as u32);
        let mut idx = shard;
        while idx < total {
            let mut sq = Vec::with_capacity(n);
            let mut x = idx;
            for _ in 0..n { sq.push(x % 64); x /= 64; }
            idx += shards;
            let mut distinct = true;
            for i in 0..n { for j in 0..i { if sq[i] == sq[j] { distinct = false; } } }
            if !distinct { continue; }
            if material.iter().zip(&sq).any(|(p, s)| (*p == 'P' || *p == 'p') && (*s < 8 || *s >= 56)) { continue; }
            let fen = format!("{} w - - 0 1", place(&material, &sq));
            let Ok(mut b) = Bitboard::from_fen_string(&fen) else { continue };
            if !safe(&b) || !b.is_valid() { continue; }
            let mut dist = 0;
            for k in 1..=3u8 { if tb.win(&mut b, k) { dist = k; break; } }
            if dist == 0 { continue; }
            let mut keep: Vec<String> = Vec::new();
            for m in b.generate_legal_moves() {
                b.make(m);
                if tb.lose(&mut b, dist - 1) { keep.push(m.to_uci_string()); }
                b.unmake(m);
            }
            keep.sort();
            out.push(format!("{}|{}|{}", fen_of(&b).replace(' ', "_"), dist, keep.join(",")));
        }
        out.join(";")
    })
}

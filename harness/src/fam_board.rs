//! Board-level families: movegen, movelist, make, unmake, check, fen, ucistr, perft, magic.
use inkayaku_board::constants::{BLACK, KING, WHITE};
use inkayaku_board::{Bitboard, Move, MoveFromUciError};
use inkayaku_core::constants::{Color, Square};
use inkayaku_core::fen::Fen;

use crate::util::{esc, guarded, unesc};

fn parse(fen: &str) -> Option<Bitboard> {
    Bitboard::from_fen_string(fen).ok()
}

/// One king per side, no overlapping pieces, no pawns on the first/last rank: the boards on which
/// move generation and check detection may be run at all (get_unchecked on the king square).
pub fn safe(b: &Bitboard) -> bool {
    let mut acc = 0u64;
    for p in 1..=6u64 {
        for o in [b.white.occupancy(p), b.black.occupancy(p)] {
            if acc & o != 0 { return false; }
            acc |= o;
        }
    }
    b.white.occupancy(KING).count_ones() == 1 && b.black.occupancy(KING).count_ones() == 1
        && (b.white.pawns() | b.black.pawns()) & 0xFF00_0000_0000_00FF == 0
}

pub fn fen_of(b: &Bitboard) -> String { Fen::from(b).fen }

/// FEN + the 12 bitboards + both from-scratch hashes.
pub fn snapshot(b: &Bitboard) -> String {
    let mut s = fen_of(b);
    for p in 1..=6u64 { s.push_str(&format!(" {:x}", b.white.occupancy(p))); }
    for p in 1..=6u64 { s.push_str(&format!(" {:x}", b.black.occupancy(p))); }
    s.push_str(&format!(" {:x} {:x}", b.calculate_zobrist_hash(), b.calculate_zobrist_pawn_hash()));
    s
}

fn sorted_ucis(ms: &[Move]) -> String {
    let mut v: Vec<String> = ms.iter().map(|m| m.to_uci_string()).collect();
    v.sort();
    v.join(",")
}

/// case: <fen>   obs: L <legal>|F <filter path>|Q <non-quiescent pseudo>|P <pseudo>   (sorted, duplicates kept)
pub fn movegen(line: &str) -> String {
    let line = line.to_string();
    guarded(move || {
        let Some(mut b) = parse(&unesc(&line)) else { return "BADFEN".into() };
        if !safe(&b) { return "UNSAFE".into(); }
        let legal = b.generate_legal_moves();
        let pseudo = b.generate_pseudo_legal_moves();
        let mut filt = Vec::new();
        for &m in &pseudo {
            b.make(m);
            if b.is_valid() { filt.push(m); }
            b.unmake(m);
        }
        let nq = b.generate_pseudo_legal_non_quiescent_moves();
        format!("L {}|F {}|Q {}|P {}", sorted_ucis(&legal), sorted_ucis(&filt), sorted_ucis(&nq), sorted_ucis(&pseudo))
    })
}

fn b01(x: bool) -> u8 { u8::from(x) }

pub fn move_fields(m: &Move) -> String {
    format!("{}:{}:{}:{}{}{}{}{}{}:{}:{}:{}:{}:{}:{}:{}:{}",
        m.to_uci_string(), m.get_piece_moved(), m.get_piece_attacked(),
        b01(m.is_self_lost_king_side_castle()), b01(m.is_self_lost_queen_side_castle()),
        b01(m.is_opponent_lost_king_side_castle()), b01(m.is_opponent_lost_queen_side_castle()),
        b01(m.is_castle_move()), b01(m.is_en_passant_attack()),
        m.get_source_square(), m.get_target_square(), b01(m.is_halfmove_reset()), m.get_previous_halfmove(),
        m.get_previous_en_passant_square(), m.get_next_en_passant_square(), m.get_promotion_piece(), m.get_side_to_move())
        + &format!(":{}", m.mvvlva)
}

/// case: <fen>   obs: every pseudo-legal move in generation order with all its fields, then `#` and the non-quiescent list
pub fn movelist(line: &str) -> String {
    let line = line.to_string();
    guarded(move || {
        let Some(b) = parse(&unesc(&line)) else { return "BADFEN".into() };
        if !safe(&b) { return "UNSAFE".into(); }
        let p: Vec<String> = b.generate_pseudo_legal_moves().iter().map(move_fields).collect();
        let q: Vec<String> = b.generate_pseudo_legal_non_quiescent_moves().iter().map(|m| m.to_uci_string()).collect();
        format!("{} # {}", p.join(" "), q.join(" "))
    })
}

fn find_pseudo(b: &Bitboard, uci: &str) -> Option<Move> {
    b.generate_pseudo_legal_moves().into_iter().find(|m| m.to_uci_string() == uci)
}

/// case: <fen> TAB <uci>   (a pseudo-legal move)
/// obs: <fen after> <valid> <hash after> <pawn hash after> <hash before ^ xor> <pawn before ^ pawn xor> <in check w> <in check b>
pub fn make(line: &str) -> String {
    let line = line.to_string();
    guarded(move || {
        let f: Vec<&str> = line.split('\t').collect();
        if f.len() != 2 { return "BADCASE".into(); }
        let Some(mut b) = parse(&unesc(f[0])) else { return "BADFEN".into() };
        if !safe(&b) { return "UNSAFE".into(); }
        let Some(m) = find_pseudo(&b, f[1]) else { return "NOMOVE".into() };
        let (h0, p0) = (b.calculate_zobrist_hash(), b.calculate_zobrist_pawn_hash());
        let (dx, dp) = Bitboard::zobrist_xor(m);
        b.make(m);
        if !safe(&b) { return format!("{} KINGLESS", fen_of(&b)); }
        format!("{} {} {:x} {:x} {:x} {:x} {} {}", fen_of(&b), b01(b.is_valid()), b.calculate_zobrist_hash(), b.calculate_zobrist_pawn_hash(),
                h0 ^ dx, p0 ^ dp, b01(b.is_in_check(&Color::WHITE)), b01(b.is_in_check(&Color::BLACK)))
    })
}

/// case: <fen> TAB <uci uci ...>  all moves but the last must be legal, the last pseudo-legal
/// obs: <snapshot before> | <snapshot after all made> | <snapshot after all unmade in reverse>
pub fn unmake(line: &str) -> String {
    let line = line.to_string();
    guarded(move || {
        let f: Vec<&str> = line.split('\t').collect();
        if f.len() != 2 { return "BADCASE".into(); }
        let Some(mut b) = parse(&unesc(f[0])) else { return "BADFEN".into() };
        if !safe(&b) { return "UNSAFE".into(); }
        let before = snapshot(&b);
        let mut made = Vec::new();
        let ucis: Vec<&str> = f[1].split(' ').filter(|s| !s.is_empty()).collect();
        for (i, u) in ucis.iter().enumerate() {
            let Some(m) = find_pseudo(&b, u) else { return format!("NOMOVE {}", i) };
            b.make(m);
            made.push(m);
            if i + 1 < ucis.len() && !(safe(&b) && b.is_valid()) { return format!("ILLEGAL {}", i); }
        }
        let mid = snapshot(&b);
        for m in made.iter().rev() { b.unmake(*m); }
        format!("{} | {} | {}", before, mid, snapshot(&b))
    })
}

/// case: <fen>   obs: W<0/1> B<0/1> C<0/1> V<0/1> E<0/1>  (white in check, black in check, current in check, is_valid, no legal move)
pub fn check(line: &str) -> String {
    let line = line.to_string();
    guarded(move || {
        let Some(mut b) = parse(&unesc(&line)) else { return "BADFEN".into() };
        if !safe(&b) { return "UNSAFE".into(); }
        let w = b.is_in_check(&Color::WHITE);
        let k = b.is_in_check(&Color::BLACK);
        let c = b.is_current_in_check();
        let v = b.is_valid();
        let e = if v { b01(b.generate_legal_moves().is_empty()).to_string() } else { "-".to_string() };
        format!("W{} B{} C{} V{} E{}", b01(w), b01(k), b01(c), b01(v), e)
    })
}

/// case: <text>   obs: ok <64 piece chars> <w|b> <rights KQkq as 0/1> <ep shift> <half> <full> <printed fen> | err | PANIC
pub fn fen(line: &str) -> String {
    let line = line.to_string();
    guarded(move || {
        let text = unesc(&line);
        match Bitboard::from_fen_string(&text) {
            Err(_) => "err".into(),
            Ok(b) => {
                let mut cells = String::new();
                for i in 0..64usize {
                    let sq = Square::from_index(i).unwrap();
                    cells.push(match std::panic::catch_unwind(std::panic::AssertUnwindSafe(|| b.get_colored_piece(sq))) {
                        Ok(Some(p)) => p.fen,
                        Ok(None) => '.',
                        Err(_) => '!',
                    });
                }
                let printed = std::panic::catch_unwind(std::panic::AssertUnwindSafe(|| fen_of(&b))).unwrap_or_else(|_| "PANIC".into());
                format!("ok {} {} {}{}{}{} {} {} {} {}", cells, if b.turn == WHITE { 'w' } else if b.turn == BLACK { 'b' } else { '?' },
                        b01(b.white.king_side_castle), b01(b.white.queen_side_castle), b01(b.black.king_side_castle), b01(b.black.queen_side_castle),
                        b.en_passant_square_shift, b.halfmove_clock, b.fullmove_clock, printed)
            }
        }
    })
}

fn uci_err(e: &MoveFromUciError) -> &'static str {
    match e { MoveFromUciError::MoveDoesNotExist(_) => "dne", MoveFromUciError::MoveIsNotValid(_) => "inv" }
}

/// case: <fen> TAB <api> TAB <text>    api: find | make | pgn | san | makeall | twice
/// obs: <result> | <snapshot after the call>
pub fn ucistr(line: &str) -> String {
    let line = line.to_string();
    guarded(move || {
        let f: Vec<&str> = line.split('\t').collect();
        if f.len() != 3 { return "BADCASE".into(); }
        let Some(mut b) = parse(&unesc(f[0])) else { return "BADFEN".into() };
        if !safe(&b) { return "UNSAFE".into(); }
        let text = unesc(f[2]);
        let res = match f[1] {
            "find" => match b.find_uci(&text) { Ok(m) => format!("ok:{}", m.to_uci_string()), Err(e) => uci_err(&e).to_string() },
            "twice" => {
                let r1 = match b.find_uci(&text) { Ok(m) => format!("ok:{}", m.to_uci_string()), Err(e) => uci_err(&e).to_string() };
                if !safe(&b) { return format!("{} | KINGLESS", r1); }
                let r2 = match b.find_uci(&text) { Ok(m) => format!("ok:{}", m.to_uci_string()), Err(e) => uci_err(&e).to_string() };
                format!("{}/{}", r1, r2)
            }
            "make" => match b.make_uci(&text) { Ok(()) => "ok".to_string(), Err(e) => uci_err(&e).to_string() },
            "pgn" => match b.uci_to_pgn(&text) { Ok(s) => format!("ok:{}", esc(&s)), Err(e) => uci_err(&e).to_string() },
            "san" => match b.pgn_to_bb(&text) { Ok(m) => format!("ok:{}", m.to_uci_string()), Err(_) => "err".to_string() },
            "makeall" => {
                let moves: Vec<String> = text.split(' ').filter(|s| !s.is_empty()).map(str::to_string).collect();
                match b.make_all_uci(&moves) { Ok(()) => "ok".to_string(), Err(e) => uci_err(&e).to_string() }
            }
            _ => return "BADAPI".into(),
        };
        if !safe(&b) { return format!("{} | KINGLESS {}", res, fen_of(&b)); }
        format!("{} | {}", res, snapshot(&b))
    })
}

/// case: <fen> TAB <depth>   obs: sorted `uci:count` list
pub fn perft(line: &str) -> String {
    let line = line.to_string();
    guarded(move || {
        let f: Vec<&str> = line.split('\t').collect();
        if f.len() != 2 { return "BADCASE".into(); }
        let Some(mut b) = parse(&unesc(f[0])) else { return "BADFEN".into() };
        if !safe(&b) { return "UNSAFE".into(); }
        let d: usize = f[1].parse().unwrap_or(1).max(1);
        let mut v: Vec<String> = b.perft(d).iter().map(|(m, n)| format!("{}:{}", m.to_uci_string(), n)).collect();
        v.sort();
        v.join(" ")
    })
}

/// case: <kind 0=rook 1=bishop> TAB <sq> TAB <occ hex>   obs: <index> <lookup hex | OOR>
pub fn magic(line: &str) -> String {
    let line = line.to_string();
    guarded(move || {
        let f: Vec<&str> = line.split('\t').collect();
        if f.len() != 3 { return "BADCASE".into(); }
        let kind: u8 = f[0].parse().unwrap_or(0);
        let sq: usize = f[1].parse().unwrap_or(0);
        let occ = u64::from_str_radix(f[2], 16).unwrap_or(0);
        if sq >= 64 { return "BADSQ".into(); }
        let idx = inkayaku_board::verif::magic_index(kind, sq, occ);
        match inkayaku_board::verif::magic_lookup(kind, sq, occ) {
            Some(a) => format!("{} {:x}", idx, a),
            None => format!("{} OOR", idx),
        }
    })
}

//! Family `pgn` (property C17): the raw PGN stream reader of /repo/pgn/src/reader.rs.
//!
//! Case line (TAB fields):
//!   1. chunk size (decimal, >= 1)
//!   2. fragmentation list: space separated decimals; the k-th `read` call returns
//!      `min(max(1, frag[k]), buf.len(), remaining)` bytes, and fills the buffer once the list is used up
//!   3. file content, escaped (code points < 256 are bytes; larger ones are taken modulo 256)
//! Observation: items separated by ` || `; a game is `T k=v;k=v M san{comment}|san|...` (tags sorted by key,
//! all texts escaped), an error item is `ERR:closed|consume|symbol`.  Iteration stops after the first error
//! item, at `None`, or after 1000 items.

use std::io::Read;

use inkayaku_pgn::reader::{PgnRaw, PgnRawParser, PgnRawParserError};

use crate::util::{esc, guarded, unesc};

/// An in-memory `Read` that hands out its bytes in caller-chosen fragments.
struct FragRead {
    data: Vec<u8>,
    pos: usize,
    frag: Vec<usize>,
    call: usize,
}

impl Read for FragRead {
    fn read(&mut self, buf: &mut [u8]) -> std::io::Result<usize> {
        let want = match self.frag.get(self.call) {
            Some(&f) => f.max(1),
            None => buf.len(),
        };
        self.call += 1;
        let n = want.min(buf.len()).min(self.data.len() - self.pos);
        buf[..n].copy_from_slice(&self.data[self.pos..self.pos + n]);
        self.pos += n;
        Ok(n)
    }
}

fn show_game(pgn: &PgnRaw) -> String {
    let mut tags: Vec<(&String, &String)> = pgn.tag_pairs.iter().collect();
    tags.sort();
    let tags: Vec<String> = tags.iter().map(|(k, v)| format!("{}={}", esc(k), esc(v))).collect();
    let moves: Vec<String> = pgn.moves.iter().map(|m| match &m.annotation {
        Some(a) => format!("{}{{{}}}", esc(&m.mv), esc(a)),
        None => esc(&m.mv),
    }).collect();
    format!("T {} M {}", tags.join(";"), moves.join("|"))
}

fn show_error(err: &PgnRawParserError) -> &'static str {
    match err {
        PgnRawParserError::ReadingFromClosedRead => "ERR:closed",
        PgnRawParserError::IllegalConsume { .. } => "ERR:consume",
        PgnRawParserError::IllegalSymbol { .. } => "ERR:symbol",
    }
}

pub fn run(line: &str) -> String {
    let f: Vec<&str> = line.split('\t').collect();
    if f.len() < 3 {
        return "BADCASE".to_string();
    }
    let chunk: usize = match f[0].parse() {
        Ok(n) if n >= 1 => n,
        _ => return "BADCASE".to_string(),
    };
    let frag: Vec<usize> = f[1].split(' ').filter(|w| !w.is_empty()).filter_map(|w| w.parse().ok()).collect();
    let data: Vec<u8> = unesc(f[2]).chars().map(|c| (c as u32 % 256) as u8).collect();
    guarded(move || {
        let reader = FragRead { data, pos: 0, frag, call: 0 };
        let mut parser = PgnRawParser::with_chunk_size(reader, chunk);
        let mut items: Vec<String> = Vec::new();
        while items.len() < 1000 {
            match parser.next() {
                None => break,
                Some(Ok(pgn)) => items.push(show_game(&pgn)),
                Some(Err(err)) => {
                    items.push(show_error(&err).to_string());
                    break;
                }
            }
        }
        items.join(" || ")
    })
}

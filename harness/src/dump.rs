//! Dump of all constant data the model is parameterised by (one record per line, decimal numbers).
use inkayaku_board::constants as c;
use inkayaku_board::verif as bv;
use inkayaku_engine_core::verif as ev;

fn join<T: std::fmt::Display>(v: &[T]) -> String { v.iter().map(|x| x.to_string()).collect::<Vec<_>>().join(" ") }

pub fn dump() {
    for kind in 0..2u8 {
        for sq in 0..64usize {
            let (mask, magic, hmask, shift, attacks) = bv::magic(kind, sq);
            println!("magic {} {} {} {} {} {} {} {}", kind, sq, mask, magic, hmask, shift, attacks.len(), join(attacks));
        }
    }
    for kind in 0..4u8 { println!("leaper {} {}", kind, join(&bv::leaper(kind))); }
    for row in 0..14u64 {
        let (piece, color) = (row % 7, (row / 7) as u32);
        let v: Vec<u64> = (0..64u32).map(|sq| bv::zobrist_piece_square(piece, sq, color)).collect();
        println!("zob_ps {} {}", row, join(&v));
    }
    let v: Vec<u64> = (0..8u32).map(bv::zobrist_en_passant).collect();
    println!("zob_ep {}", join(&v));
    let (wq, wk, bq, bk, side) = bv::zobrist_misc();
    println!("zob_misc {} {} {} {} {}", wq, wk, bq, bk, side);
    let (wt, bt) = ev::piece_square_tables();
    for (name, t) in [("white", wt), ("black", bt)] {
        for stage in 0..3 { for piece in 0..6 { println!("pst {} {} {} {}", name, stage, piece, join(&t[stage][piece])); } }
    }
    let (win, draw, maxfull, maxhalf, contempt) = ev::constants();
    println!("consts {} {} {} {} {}", win, draw, maxfull, maxhalf, contempt);
    println!("castle_empty {} {} {} {}", c::WHITE_QUEEN_SIDE_CASTLE_EMPTY_OCCUPANCY, c::WHITE_KING_SIDE_CASTLE_EMPTY_OCCUPANCY, c::BLACK_QUEEN_SIDE_CASTLE_EMPTY_OCCUPANCY, c::BLACK_KING_SIDE_CASTLE_EMPTY_OCCUPANCY);
    println!("castle_check {} {} {} {}", c::WHITE_QUEEN_SIDE_CASTLE_CHECK_OCCUPANCY, c::WHITE_KING_SIDE_CASTLE_CHECK_OCCUPANCY, c::BLACK_QUEEN_SIDE_CASTLE_CHECK_OCCUPANCY, c::BLACK_KING_SIDE_CASTLE_CHECK_OCCUPANCY);
    println!("ranks {}", join(&[c::RANK_1_OCCUPANCY, c::RANK_2_OCCUPANCY, c::RANK_3_OCCUPANCY, c::RANK_4_OCCUPANCY, c::RANK_5_OCCUPANCY, c::RANK_6_OCCUPANCY, c::RANK_7_OCCUPANCY, c::RANK_8_OCCUPANCY]));
    println!("files {}", join(&[c::FILE_A_OCCUPANCY, c::FILE_B_OCCUPANCY, c::FILE_C_OCCUPANCY, c::FILE_D_OCCUPANCY, c::FILE_E_OCCUPANCY, c::FILE_F_OCCUPANCY, c::FILE_G_OCCUPANCY, c::FILE_H_OCCUPANCY]));
    let layout: [(u64, u32); 16] = [
        (c::PIECE_MOVED_MASK, c::PIECE_MOVED_SHIFT), (c::PIECE_ATTACKED_MASK, c::PIECE_ATTACKED_SHIFT),
        (c::SELF_LOST_KING_SIDE_CASTLE_MASK, c::SELF_LOST_KING_SIDE_CASTLE_SHIFT), (c::SELF_LOST_QUEEN_SIDE_CASTLE_MASK, c::SELF_LOST_QUEEN_SIDE_CASTLE_SHIFT),
        (c::OPPONENT_LOST_KING_SIDE_CASTLE_MASK, c::OPPONENT_LOST_KING_SIDE_CASTLE_SHIFT), (c::OPPONENT_LOST_QUEEN_SIDE_CASTLE_MASK, c::OPPONENT_LOST_QUEEN_SIDE_CASTLE_SHIFT),
        (c::CASTLE_MOVE_MASK, c::CASTLE_MOVE_SHIFT), (c::EN_PASSANT_ATTACK_MASK, c::EN_PASSANT_ATTACK_SHIFT),
        (c::SOURCE_SQUARE_MASK, c::SOURCE_SQUARE_SHIFT), (c::TARGET_SQUARE_MASK, c::TARGET_SQUARE_SHIFT),
        (c::HALFMOVE_RESET_MASK, c::HALFMOVE_RESET_SHIFT), (c::PREVIOUS_HALFMOVE_MASK, c::PREVIOUS_HALFMOVE_SHIFT),
        (c::PREVIOUS_EN_PASSANT_SQUARE_MASK, c::PREVIOUS_EN_PASSANT_SQUARE_SHIFT), (c::NEXT_EN_PASSANT_SQUARE_MASK, c::NEXT_EN_PASSANT_SQUARE_SHIFT),
        (c::PROMOTION_PIECE_MASK, c::PROMOTION_PIECE_SHIFT), (c::SIDE_TO_MOVE_MASK, c::SIDE_TO_MOVE_SHIFT)];
    println!("layout {}", layout.iter().map(|(m, s)| format!("{}:{}", m, s)).collect::<Vec<_>>().join(" "));
    println!("poll_period {}", ev::poll_period());
}

//! Family `table` (C18): the keyed table behind the transposition table, through the hook
//! `inkayaku_engine_core::verif::Table` (engine_core/src/engine/table.rs `HashTable<ZobristHash, u64>`).
//!
//! case : `<capacity>` TAB `<ops>`   ops = space separated `p<key>:<value>` | `g<key>` | `c` | `l`
//! obs  : one token per op, space separated: `-` (put, clear) | `S<value>` / `N` (get) | `L<len>`
//!        (`L<len>!lf` when `load_factor() * capacity` does not round to `len()`),
//!        `PANIC` if the table panics, `ERR` on a malformed line.
//! Same contract as Coq `run_table` (coq/Driver/RunTable.v).

use inkayaku_engine_core::verif::Table;

use crate::util::guarded;

enum Op {
    Put(u64, u64),
    Get(u64),
    Clear,
    Len,
}

fn parse_op(w: &str) -> Option<Op> {
    let mut cs = w.chars();
    match cs.next()? {
        'p' => {
            let parts: Vec<&str> = cs.as_str().split(':').collect();
            if parts.len() != 2 { return None; }
            Some(Op::Put(parts[0].parse::<u64>().ok()?, parts[1].parse::<u64>().ok()?))
        }
        'g' => Some(Op::Get(cs.as_str().parse::<u64>().ok()?)),
        'c' if cs.as_str().is_empty() => Some(Op::Clear),
        'l' if cs.as_str().is_empty() => Some(Op::Len),
        _ => None,
    }
}

fn parse(line: &str) -> Option<(usize, Vec<Op>)> {
    let fields: Vec<&str> = line.split('\t').collect();
    if fields.len() != 2 { return None; }
    let capacity = fields[0].parse::<u64>().ok()?;
    let capacity = usize::try_from(capacity).ok()?;
    let mut ops = Vec::new();
    for w in fields[1].split(' ').filter(|w| !w.is_empty()) {
        ops.push(parse_op(w)?);
    }
    Some((capacity, ops))
}

pub fn run(line: &str) -> String {
    let (capacity, ops) = match parse(line) {
        Some(x) => x,
        None => return "ERR".to_string(),
    };
    guarded(move || {
        let mut table = Table::new(capacity);
        let mut out: Vec<String> = Vec::with_capacity(ops.len());
        for op in &ops {
            match *op {
                Op::Put(k, v) => { table.put(k, v); out.push("-".to_string()); }
                Op::Get(k) => out.push(match table.get(k) { Some(v) => format!("S{}", v), None => "N".to_string() }),
                Op::Clear => { table.clear(); out.push("-".to_string()); }
                Op::Len => {
                    let len = table.len();
                    let lf = table.load_factor();
                    // the reported fill level must be the real number of entries over the capacity
                    let back = (f64::from(lf) * capacity as f64).round();
                    if back.is_finite() && back >= 0.0 && back as u128 == len as u128 {
                        out.push(format!("L{}", len));
                    } else {
                        out.push(format!("L{}!lf", len));
                    }
                }
            }
        }
        out.join(" ")
    })
}

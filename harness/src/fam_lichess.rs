//! Family `lichess` (C19): decode one Lichess bot-stream document with the real serde-derived types.
//! Case line:   `game`|`event` TAB <JSON text, field-escaped>   |   `uci` TAB <move text>
//! Observation: `ok <canonical JSON of the decoded value>` | `ok <Display of the UciMove>` | `err` | `PANIC`
//! Canonical JSON = `serde_json::to_string` of the decoded value (declaration order, wire names, `None` as
//! `null`, moves/rules as arrays) with the short escapes \b \t \n \f \r rewritten to \u00XX, so that the only
//! escapes are `\"`, `\\` and `\u00XX`.
use crate::util::{guarded, unesc};
use inkayaku_lichess_api::api::bot_event_response::BotEvent;
use inkayaku_lichess_api::api::bot_game_state_response::BotGameState;
use inkayaku_uci::UciMove;
use std::str::FromStr;

fn canon(json: &str) -> String {
    let mut out = String::with_capacity(json.len());
    let mut in_str = false;
    let mut it = json.chars();
    while let Some(c) = it.next() {
        if !in_str {
            if c == '"' { in_str = true; }
            out.push(c);
            continue;
        }
        match c {
            '"' => { in_str = false; out.push(c); }
            '\\' => {
                let e = it.next().unwrap_or('\\');
                match e {
                    'b' => out.push_str("\\u0008"),
                    't' => out.push_str("\\u0009"),
                    'n' => out.push_str("\\u000a"),
                    'f' => out.push_str("\\u000c"),
                    'r' => out.push_str("\\u000d"),
                    'u' => {
                        out.push_str("\\u");
                        for _ in 0..4 { if let Some(h) = it.next() { out.push(h.to_ascii_lowercase()); } }
                    }
                    other => { out.push('\\'); out.push(other); }
                }
            }
            _ => out.push(c),
        }
    }
    out
}

pub fn run(line: &str) -> String {
    let mut parts = line.splitn(2, '\t');
    let kind = parts.next().unwrap_or("").to_string();
    let text = unesc(parts.next().unwrap_or(""));
    if kind == "uci" {
        return guarded(move || match UciMove::from_str(&text) {
            Ok(m) => format!("ok {}", m),
            Err(_) => "err".to_string(),
        });
    }
    guarded(move || {
        let rendered = match kind.as_str() {
            "game" => serde_json::from_str::<BotGameState>(&text).ok().map(|v| serde_json::to_string(&v)),
            "event" => serde_json::from_str::<BotEvent>(&text).ok().map(|v| serde_json::to_string(&v)),
            _ => None,
        };
        match rendered {
            Some(Ok(s)) => format!("ok {}", canon(&s)),
            _ => "err".to_string(),
        }
    })
}

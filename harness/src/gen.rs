//! Position generators (every random choice from one splitmix64 state seeded by the command line).
//!   gen games <seed> <n>     FENs met along random legal games (start position and a few seeds FENs), clocks varied
//!   gen special <seed> <n>   constructive sampler: random placements filtered for legality, all castling-right
//!                            subsets, forced en-passant situations, pawns about to promote, few-piece endgames
//! Output: one FEN per line (always a legal position: one king each, side not to move not in check,
//! rights consistent with king/rook squares, e.p. target consistent).
use inkayaku_board::constants::{BISHOP, KING, KNIGHT, PAWN, QUEEN, ROOK};
use inkayaku_board::Bitboard;

use crate::fam_board::{fen_of, safe};

pub struct Rng(pub u64);
impl Rng {
    pub fn next(&mut self) -> u64 {
        self.0 = self.0.wrapping_add(0x9E3779B97F4A7C15);
        let mut z = self.0;
        z = (z ^ (z >> 30)).wrapping_mul(0xBF58476D1CE4E5B9);
        z = (z ^ (z >> 27)).wrapping_mul(0x94D049BB133111EB);
        z ^ (z >> 31)
    }
    pub fn below(&mut self, n: u64) -> u64 { if n == 0 { 0 } else { self.next() % n } }
    pub fn chance(&mut self, num: u64, den: u64) -> bool { self.below(den) < num }
}

const SEEDS: [&str; 12] = [
    "rnbqkbnr/pppppppp/8/8/8/8/PPPPPPPP/RNBQKBNR w KQkq - 0 1",
    "r3k2r/p1ppqpb1/bn2pnp1/3PN3/1p2P3/2N2Q1p/PPPBBPPP/R3K2R w KQkq - 0 1",
    "8/2p5/3p4/KP5r/1R3p1k/8/4P1P1/8 w - - 0 1",
    "r3k2r/Pppp1ppp/1b3nbN/nP6/BBP1P3/q4N2/Pp1P2PP/R2Q1RK1 w kq - 0 1",
    "rnbq1k1r/pp1Pbppp/2p5/8/2B5/8/PPP1NnPP/RNBQK2R w KQ - 1 8",
    "r4rk1/1pp1qppp/p1np1n2/2b1p1B1/2B1P1b1/P1NP1N2/1PP1QPPP/R4RK1 w - - 0 10",
    "r3k2r/8/8/8/8/8/8/R3K2R w KQkq - 0 1",
    "r3k2r/8/8/8/8/8/8/R3K2R b KQkq - 0 1",
    "4k3/P6P/8/8/8/8/p6p/4K3 w - - 0 1",
    "n1n5/PPPk4/8/8/8/8/4Kppp/5N1N b - - 0 1",
    "8/8/8/3k4/8/3K4/3Q4/8 w - - 0 1",
    "4k3/8/8/2pP4/8/8/8/4K3 w - c6 0 2",
];

fn clocks(rng: &mut Rng) -> (u32, u32) {
    const H: [u32; 16] = [0, 0, 0, 1, 2, 5, 49, 50, 99, 100, 127, 128, 130, 1000, 4095, 3];
    const F: [u32; 8] = [1, 1, 2, 7, 40, 77, 1249, 2000];
    (H[rng.below(16) as usize], F[rng.below(8) as usize])
}

fn set_clocks(fen: &str, half: u32, full: u32) -> String {
    let f: Vec<&str> = fen.split(' ').collect();
    format!("{} {} {} {} {} {}", f[0], f[1], f[2], f[3], half, full)
}

fn legal_position(b: &Bitboard) -> bool { safe(b) && b.is_valid() }

fn games(rng: &mut Rng, n: usize) {
    let mut out = 0;
    while out < n {
        let seed = SEEDS[rng.below(SEEDS.len() as u64) as usize];
        let start = if rng.chance(1, 2) { let (h, f) = clocks(rng); set_clocks(seed, h, f) } else { seed.to_string() };
        let mut b = Bitboard::from_fen_string(&start).unwrap();
        let len = rng.below(120) as usize;
        let emit_every = 1 + rng.below(6) as usize;
        for ply in 0..=len {
            if ply % emit_every == 0 && out < n { println!("{}", fen_of(&b)); out += 1; }
            let moves = b.generate_legal_moves();
            if moves.is_empty() { break; }
            // prefer captures/promotions/castling a bit so that games get tactical
            let noisy: Vec<_> = moves.iter().filter(|m| m.is_attack() || m.is_promotion() || m.is_castle_move()).copied().collect();
            let m = if !noisy.is_empty() && rng.chance(1, 3) { noisy[rng.below(noisy.len() as u64) as usize] } else { moves[rng.below(moves.len() as u64) as usize] };
            b.make(m);
        }
    }
}

fn random_placement(rng: &mut Rng) -> Option<String> {
    let mut cells = [b'.'; 64];
    let wk = rng.below(64) as usize;
    let mut bk = rng.below(64) as usize;
    let mut guard = 0;
    while ((wk % 8) as i32 - (bk % 8) as i32).abs() <= 1 && ((wk / 8) as i32 - (bk / 8) as i32).abs() <= 1 {
        bk = rng.below(64) as usize; guard += 1; if guard > 100 { return None; }
    }
    let castle_setup = rng.chance(1, 3);
    let (wk, bk) = if castle_setup { (60usize, 4usize) } else { (wk, bk) };
    cells[wk] = b'K'; cells[bk] = b'k';
    if castle_setup {
        for (sq, c) in [(56usize, b'R'), (63, b'R'), (0, b'r'), (7, b'r')] { if rng.chance(3, 4) { cells[sq] = c; } }
    }
    let few = rng.chance(1, 4);
    let npieces = rng.below(if few { 4 } else { 22 }) as usize;
    const KINDS: [u8; 10] = [b'p', b'p', b'p', b'p', b'n', b'b', b'r', b'q', b'n', b'b'];
    for _ in 0..npieces {
        let sq = rng.below(64) as usize;
        if cells[sq] != b'.' { continue; }
        let k = KINDS[rng.below(10) as usize];
        if k == b'p' && (sq < 8 || sq >= 56) { continue; }
        cells[sq] = if rng.chance(1, 2) { k.to_ascii_uppercase() } else { k };
    }
    // pawns about to promote
    if rng.chance(1, 4) {
        let k = 1 + rng.below(3);
        for _ in 0..k {
            let f = rng.below(8) as usize;
            if rng.chance(1, 2) { if cells[8 + f] == b'.' { cells[8 + f] = b'P'; } } else if cells[48 + f] == b'.' { cells[48 + f] = b'p'; }
        }
    }
    let mut rights = String::new();
    if cells[60] == b'K' && cells[63] == b'R' && rng.chance(2, 3) { rights.push('K'); }
    if cells[60] == b'K' && cells[56] == b'R' && rng.chance(2, 3) { rights.push('Q'); }
    if cells[4] == b'k' && cells[7] == b'r' && rng.chance(2, 3) { rights.push('k'); }
    if cells[4] == b'k' && cells[0] == b'r' && rng.chance(2, 3) { rights.push('q'); }
    if rights.is_empty() { rights.push('-'); }
    let mut placement = String::new();
    for r in 0..8 {
        let mut empty = 0;
        for f in 0..8 {
            let c = cells[8 * r + f];
            if c == b'.' { empty += 1; } else { if empty > 0 { placement.push_str(&empty.to_string()); empty = 0; } placement.push(c as char); }
        }
        if empty > 0 { placement.push_str(&empty.to_string()); }
        if r < 7 { placement.push('/'); }
    }
    let (h, f) = clocks(rng);
    Some(format!("{} {} {} - {} {}", placement, if rng.chance(1, 2) { 'w' } else { 'b' }, rights, h, f))
}

fn special(rng: &mut Rng, n: usize) {
    let mut out = 0;
    while out < n {
        let Some(fen) = random_placement(rng) else { continue };
        let Ok(mut b) = Bitboard::from_fen_string(&fen) else { continue };
        if !legal_position(&b) { continue; }
        println!("{}", fen_of(&b)); out += 1;
        // follow-ups: after a double pawn push (e.p. state), after a capture on a rook home square, after castling
        let moves = b.generate_legal_moves();
        for m in moves {
            if out >= n { break; }
            let interesting = m.get_next_en_passant_square() != 0 || m.is_castle_move() || m.is_promotion()
                || m.is_opponent_lost_king_side_castle() || m.is_opponent_lost_queen_side_castle() || m.is_en_passant_attack();
            if interesting && rng.chance(1, 2) {
                b.make(m);
                if legal_position(&b) { println!("{}", fen_of(&b)); out += 1; }
                b.unmake(m);
            }
        }
    }
}

/// Few-piece endgames (K + one or two pieces vs K): where stalemates and mates live.
fn endgames(rng: &mut Rng, n: usize) {
    let mut out = 0;
    while out < n {
        let mut cells = [b'.'; 64];
        let wk = rng.below(64) as usize; let bk = rng.below(64) as usize;
        if wk == bk { continue; }
        cells[wk] = b'K'; cells[bk] = b'k';
        let k = 1 + rng.below(2);
        for _ in 0..k {
            let sq = rng.below(64) as usize;
            if cells[sq] != b'.' { continue; }
            let k = [b'Q', b'R', b'P', b'q', b'r', b'p', b'B', b'N'][rng.below(8) as usize];
            if (k == b'P' || k == b'p') && (sq < 8 || sq >= 56) { continue; }
            cells[sq] = k;
        }
        let mut placement = String::new();
        for r in 0..8 {
            let mut empty = 0;
            for f in 0..8 {
                let c = cells[8 * r + f];
                if c == b'.' { empty += 1; } else { if empty > 0 { placement.push_str(&empty.to_string()); empty = 0; } placement.push(c as char); }
            }
            if empty > 0 { placement.push_str(&empty.to_string()); }
            if r < 7 { placement.push('/'); }
        }
        let fen = format!("{} {} - - {} {}", placement, if rng.chance(1, 2) { 'w' } else { 'b' }, rng.below(40), 1 + rng.below(90));
        let Ok(b) = Bitboard::from_fen_string(&fen) else { continue };
        if !legal_position(&b) { continue; }
        println!("{}", fen); out += 1;
    }
}

pub fn gen(args: &[String]) {
    let kind = args.first().map(|s| s.as_str()).unwrap_or("games");
    let seed: u64 = args.get(1).and_then(|s| s.parse().ok()).unwrap_or(1);
    let n: usize = args.get(2).and_then(|s| s.parse().ok()).unwrap_or(100);
    let mut rng = Rng(seed ^ 0x5DEECE66D);
    let _ = (PAWN, KNIGHT, BISHOP, ROOK, QUEEN, KING);
    match kind {
        "games" => games(&mut rng, n),
        "special" => special(&mut rng, n),
        "endgames" => endgames(&mut rng, n),
        _ => { eprintln!("unknown generator {}", kind); std::process::exit(2) }
    }
}

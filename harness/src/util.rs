//! Line-protocol helpers shared by all families (see /verif/CONVENTIONS.md).

/// Undo the field escaping: `\\ \t \n \r \s \u{HEX}`.
pub fn unesc(s: &str) -> String {
    let mut out = String::new();
    let cs: Vec<char> = s.chars().collect();
    let mut i = 0;
    while i < cs.len() {
        if cs[i] == '\\' && i + 1 < cs.len() {
            match cs[i + 1] {
                '\\' => { out.push('\\'); i += 2; }
                't' => { out.push('\t'); i += 2; }
                'n' => { out.push('\n'); i += 2; }
                'r' => { out.push('\r'); i += 2; }
                's' => { out.push(' '); i += 2; }
                'u' if i + 2 < cs.len() && cs[i + 2] == '{' => {
                    let mut j = i + 3;
                    let mut v: u32 = 0;
                    while j < cs.len() && cs[j] != '}' {
                        if let Some(d) = cs[j].to_digit(16) { v = v.wrapping_mul(16).wrapping_add(d); j += 1; } else { break; }
                    }
                    out.push(char::from_u32(v).unwrap_or('\u{fffd}'));
                    i = j + 1;
                }
                c => { out.push('\\'); out.push(c); i += 2; }
            }
        } else {
            out.push(cs[i]);
            i += 1;
        }
    }
    out
}

/// Escape arbitrary text into one field.
pub fn esc(s: &str) -> String {
    let mut out = String::new();
    for ch in s.chars() {
        let c = ch as u32;
        match ch {
            '\\' => out.push_str("\\\\"),
            '\t' => out.push_str("\\t"),
            '\n' => out.push_str("\\n"),
            '\r' => out.push_str("\\r"),
            _ if c < 32 || c > 126 => out.push_str(&format!("\\u{{{:x}}}", c)),
            _ => out.push(ch),
        }
    }
    out
}

/// Run `f`, mapping a panic to the observation `PANIC`.
pub fn guarded<F: FnOnce() -> String + std::panic::UnwindSafe>(f: F) -> String {
    match std::panic::catch_unwind(f) {
        Ok(s) => s,
        Err(_) => "PANIC".to_string(),
    }
}

//! Engine-level family: a whole UCI session against an in-process `Engine<ConsoleUciTx>`.
//! case: TAB-separated commands. Plain fields are UCI command lines handed to the real `CommandParser` and then to
//! `Engine::accept`; fields starting with `@` drive the harness / the cfg(inkayaku_verif) hooks:
//!   @poll K        polling period of the stop flag (default 100000)
//!   @abort N M     behave as if stop (M=0) / move-time expiry (M=1) happened at the poll where the node counter is N
//!   @noabort       clear the abort point
//!   @fen           read back the FEN of the board held by the search thread
//!   @sleep MS      wait
//!   @wait          wait for the pending bestmove (a `go` without `infinite`/`ponder` waits automatically)
//! obs: the text lines the engine wrote (exactly as `ConsoleUciTx` renders them), joined by ` ;; `; harness events are
//! `@fen <fen>`, `@timeout`, `@parse-error`, `@panic`.
use std::sync::mpsc::{channel, Receiver, RecvTimeoutError, Sender};
use std::sync::{Arc, Mutex};
use std::time::Duration;

use inkayaku_engine_core::{verif, Engine};
use inkayaku_uci::console::ConsoleUciTx;
use inkayaku_uci::parser::CommandParser;
use inkayaku_uci::{UciCommand, UciEngine};

const GO_TIMEOUT: Duration = Duration::from_secs(60);

fn wait_bestmove(rx: &Receiver<String>, out: &mut Vec<String>, timeout: Duration) -> bool {
    loop {
        match rx.recv_timeout(timeout) {
            Ok(line) => {
                let done = line.starts_with("bestmove");
                out.push(line);
                if done { return true; }
            }
            Err(RecvTimeoutError::Timeout) | Err(RecvTimeoutError::Disconnected) => { out.push("@timeout".into()); return false; }
        }
    }
}

fn drain(rx: &Receiver<String>, out: &mut Vec<String>) {
    while let Ok(line) = rx.try_recv() { out.push(line); }
}

pub fn session(line: &str) -> String {
    let (tx, rx): (Sender<String>, Receiver<String>) = channel();
    let tx1 = Mutex::new(tx.clone());
    let tx2 = Mutex::new(tx);
    let uci_tx = Arc::new(ConsoleUciTx::new(
        move |s: &str| { let _ = tx1.lock().unwrap().send(s.to_string()); },
        move |s: &str| { let _ = tx2.lock().unwrap().send(format!("DEBUG: {}", s)); },
        true,
    ));
    verif::set_poll_period(100_000);
    verif::set_abort_at(None);
    let mut engine = Engine::new(uci_tx, false);
    let mut out: Vec<String> = Vec::new();
    let mut pending = false;
    let mut healthy = true;
    for field in line.split('\t') {
        let field = crate::util::unesc(field);
        let f = field.trim();
        if f.is_empty() { continue; }
        if let Some(rest) = f.strip_prefix('@') {
            let w: Vec<&str> = rest.split(' ').filter(|s| !s.is_empty()).collect();
            match w.first().copied() {
                Some("poll") => verif::set_poll_period(w.get(1).and_then(|s| s.parse().ok()).unwrap_or(100_000)),
                Some("abort") => verif::set_abort_at(Some((w.get(1).and_then(|s| s.parse().ok()).unwrap_or(1), w.get(2).and_then(|s| s.parse().ok()).unwrap_or(0)))),
                Some("noabort") => verif::set_abort_at(None),
                // hand a command to the engine at once, also while a search is running (the plain fields wait for the
                // pending bestmove before position/go/ucinewgame): messages that arrive DURING a search
                Some("during") => {
                    let text = rest.trim_start_matches("during").trim();
                    match std::panic::catch_unwind(|| CommandParser::new(text).parse()) {
                        Ok(Ok(cmd)) if healthy => {
                            let is_quit = matches!(cmd, UciCommand::Quit);
                            if matches!(cmd, UciCommand::SetOption { .. } | UciCommand::SetOptionValue { .. }) { out.push("@setoption-skipped".into()); continue; }
                            if is_quit {
                                // quit joins the search thread: the pending search must end with its bestmove first
                                engine.accept(cmd);
                                drain(&rx, &mut out);
                                out.push("@quit-done".into());
                                verif::set_abort_at(None);
                                verif::set_poll_period(100_000);
                                return out.join(" ;; ");
                            }
                            engine.accept(cmd);
                            std::thread::sleep(Duration::from_millis(1));
                        }
                        Ok(Ok(_)) => {}
                        _ => out.push("@parse-error".into()),
                    }
                }
                Some("sleep") => std::thread::sleep(Duration::from_millis(w.get(1).and_then(|s| s.parse().ok()).unwrap_or(1))),
                Some("wait") => { if pending { healthy &= wait_bestmove(&rx, &mut out, GO_TIMEOUT); pending = false; } }
                Some("fen") => {
                    if pending { healthy &= wait_bestmove(&rx, &mut out, GO_TIMEOUT); pending = false; }
                    if healthy {
                        engine.verif_dump_fen();
                        match rx.recv_timeout(Duration::from_secs(10)) {
                            Ok(l) => out.push(l.replace("DEBUG: verif-fen", "@fen")),
                            Err(_) => { out.push("@timeout".into()); healthy = false; }
                        }
                    }
                }
                _ => out.push("@bad-directive".into()),
            }
            continue;
        }
        match std::panic::catch_unwind(|| CommandParser::new(f).parse()) {
            Err(_) => { out.push("@panic".into()); }
            Ok(Err(_)) => { out.push("@parse-error".into()); }
            Ok(Ok(cmd)) => {
                if !healthy { continue; }
                if pending && matches!(cmd, UciCommand::PositionFrom { .. } | UciCommand::Go { .. } | UciCommand::UciNewGame) {
                    healthy &= wait_bestmove(&rx, &mut out, GO_TIMEOUT); pending = false;
                    if !healthy { continue; }
                }
                let is_go = matches!(cmd, UciCommand::Go { .. });
                let waits = match &cmd { UciCommand::Go { go } => !go.infinite && !go.ponder, _ => false };
                let is_quit = matches!(cmd, UciCommand::Quit);
                let is_set = matches!(cmd, UciCommand::SetOption { .. } | UciCommand::SetOptionValue { .. });
                if is_set { out.push("@setoption-skipped".into()); continue; }   // todo!() in the engine
                if is_quit { break; }
                engine.accept(cmd);
                if is_go {
                    if waits { healthy &= wait_bestmove(&rx, &mut out, GO_TIMEOUT); } else { pending = true; }
                } else if matches!(f, "stop") && pending {
                    healthy &= wait_bestmove(&rx, &mut out, GO_TIMEOUT); pending = false;
                } else {
                    std::thread::sleep(Duration::from_millis(1));
                    drain(&rx, &mut out);
                }
            }
        }
    }
    if pending && healthy {
        engine.accept(UciCommand::Stop);
        healthy &= wait_bestmove(&rx, &mut out, GO_TIMEOUT);
    }
    verif::set_abort_at(None);
    verif::set_poll_period(100_000);
    if healthy { engine.accept(UciCommand::Quit); } else { std::mem::forget(engine); }
    drain(&rx, &mut out);
    out.join(" ;; ")
}

/// case: <fen> TAB <legal_moves_remaining 0/1>    obs: static evaluation (white's point of view) and its Score rendering
pub fn eval(line: &str) -> String {
    let line = line.to_string();
    crate::util::guarded(move || {
        let f: Vec<&str> = line.split('\t').collect();
        if f.len() != 2 { return "BADCASE".into(); }
        let Ok(b) = inkayaku_board::Bitboard::from_fen_string(&crate::util::unesc(f[0])) else { return "BADFEN".into() };
        if !crate::fam_board::safe(&b) { return "UNSAFE".into(); }
        let v = verif::static_eval(&b, f[1] == "1");
        let s = match verif::score_from_value(v, &b) {
            inkayaku_uci::Score::Centipawn { score } => format!("cp {}", score),
            inkayaku_uci::Score::Mate { mate_in } => format!("mate {}", mate_in),
            inkayaku_uci::Score::CentipawnBounded { score, .. } => format!("cpb {}", score),
        };
        format!("{} {} {}", v, s, u8::from(verif::is_checkmate(v)))
    })
}

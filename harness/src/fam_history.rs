//! Family `history`: the repetition history of engine_core (zobrist_history.rs) through the
//! `inkayaku_engine_core::verif::History` hook.
//!
//! Case line (TAB separated):
//!   field 1  space separated `index:hashhex` pairs, applied in order with `set` (index decimal u16,
//!            hash lower-case hex u64; may be empty)
//!   field 2  start index, decimal u16
//!   field 3  half-move clock, decimal u32 as held by the board; cast with `as u16` exactly like search.rs
//! Observation: the count in decimal, or `BADCASE` for a malformed line.  Since /repo fix aca2b0d (the history is
//! a growing Vec, reads beyond its length give 0) no index panics; `PANIC` would be reported if one ever did again
//! and is then a mismatch against the model (historic defect D16: index >= 5000).

use inkayaku_engine_core::verif::History;

fn dec(s: &str, max: u64) -> Option<u64> {
    if s.is_empty() || !s.bytes().all(|b| b.is_ascii_digit()) {
        return None;
    }
    let mut acc: u64 = 0;
    for b in s.bytes() {
        acc = acc.checked_mul(10)?.checked_add(u64::from(b - b'0'))?;
        if acc > max {
            return None;
        }
    }
    Some(acc)
}

fn hex(s: &str) -> Option<u64> {
    if s.is_empty() || !s.bytes().all(|b| b.is_ascii_digit() || (b'a'..=b'f').contains(&b)) {
        return None;
    }
    let mut acc: u64 = 0;
    for b in s.bytes() {
        let d = if b.is_ascii_digit() { b - b'0' } else { b - b'a' + 10 };
        acc = acc.checked_mul(16)?.checked_add(u64::from(d))?;
    }
    Some(acc)
}

fn parse(line: &str) -> Option<(Vec<(u16, u64)>, u16, u32)> {
    let fields: Vec<&str> = line.split('\t').collect();
    if fields.len() != 3 {
        return None;
    }
    let mut sets = Vec::new();
    for w in fields[0].split(' ').filter(|w| !w.is_empty()) {
        let parts: Vec<&str> = w.split(':').collect();
        if parts.len() != 2 {
            return None;
        }
        sets.push((dec(parts[0], 65535)? as u16, hex(parts[1])?));
    }
    let start = dec(fields[1], 65535)? as u16;
    let half = dec(fields[2], 4_294_967_295)? as u32;
    Some((sets, start, half))
}

pub fn run(line: &str) -> String {
    let Some((sets, start, half)) = parse(line) else { return "BADCASE".to_string() };
    crate::util::guarded(move || {
        let mut history = History::default();
        for (index, hash) in sets {
            history.set(index, hash);
        }
        // search.rs: count_repetitions(ply_clock, halfmove_clock as u16)
        history.count_repetitions(start, half as u16).to_string()
    })
}

//! ink_harness: runs the real inkayaku code on line-oriented cases (see /verif/CONVENTIONS.md).
//!   ink_harness dump                 constant tables of the current tree (through the cfg(inkayaku_verif) hooks)
//!   ink_harness run <family>         stdin: one case per line -> stdout: one observation per line
//!   ink_harness gen <kind> <seed> <n>  position generators (FEN lines)
use std::io::{BufRead, Write};

mod util;
mod dump;
mod fam_board;
mod fam_table;
mod fam_history;
mod fam_engine;
mod fam_ref;
mod fam_tb;
mod fam_pgn;
mod fam_lichess;
mod fam_uci;
mod fam_consoletx;
mod gen;
include!("families.rs");

fn main() {
    if std::env::var_os("INK_PANIC_VERBOSE").is_none() { std::panic::set_hook(Box::new(|_| {})); }
    let args: Vec<String> = std::env::args().collect();
    match args.get(1).map(|s| s.as_str()) {
        Some("dump") => dump::dump(),
        Some("run") => {
            let fam = args.get(2).expect("family");
            let f = family(fam).unwrap_or_else(|| { eprintln!("unknown family {}", fam); std::process::exit(2) });
            let stdin = std::io::stdin();
            let stdout = std::io::stdout();
            let mut out = std::io::BufWriter::new(stdout.lock());
            for line in stdin.lock().lines() {
                let line = line.expect("utf8 line");
                let obs = f(&line);
                writeln!(out, "{}", obs).unwrap();
                out.flush().unwrap();
            }
        }
        Some("gen") => gen::gen(&args[2..]),
        _ => { eprintln!("usage: ink_harness dump | run <family> | gen <kind> <seed> <n>"); std::process::exit(2) }
    }
}

fn main() { println!("hello"); }

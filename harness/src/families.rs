// Registry of families: name -> fn(&str) -> String.  (Included by main.rs; one line per family.)
fn family(name: &str) -> Option<fn(&str) -> String> {
    Some(match name {
        "movegen" => fam_board::movegen,
        "movelist" => fam_board::movelist,
        "make" => fam_board::make,
        "unmake" => fam_board::unmake,
        "check" => fam_board::check,
        "fen" => fam_board::fen,
        "ucistr" => fam_board::ucistr,
        "perft" => fam_board::perft,
        "magic" => fam_board::magic,
        "table" => fam_table::run,
        "history" => fam_history::run,
        "session" => fam_engine::session,
        "eval" => fam_engine::eval,
        "refsearch" => fam_ref::refsearch,
        "refsearchhist" => fam_ref::refsearch_hist,
        "tbmate" => fam_tb::tbmate,
        "pvcheck" => fam_ref::pvcheck,
        "pgn" => fam_pgn::run,
        "lichess" => fam_lichess::run,
        "uciparse" => fam_uci::uciparse,
        "ucimove" => fam_uci::ucimove,
        "consoletx" => fam_consoletx::run,
        _ => return None,
    })
}

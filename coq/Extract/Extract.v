(* Extraction of the executable model and spec to OCaml.  Only ExtrOcamlBasic is used: its directives are
     Extract Inductive bool => bool [ true false ].   Extract Inductive option => option [ Some None ].
     Extract Inductive unit => unit [ "()" ].         Extract Inductive list => list [ "[]" "( :: )" ].
     Extract Inductive prod => "( * )" [ "" ].        Extract Inductive sumbool => bool [ true false ].
     Extract Inductive sumor => option [ Some None ]. Extract Inlined Constant andb/orb/negb/fst/snd.
   N, Z, positive, nat, ascii stay the Coq inductives; there is no Extract Constant of ours. *)
Require Import ExtrOcamlBasic.
Require Import Ink.Model.Tables Ink.Driver.Run.
Extraction Language OCaml.
Separate Extraction Ink.Driver.Run.run Ink.Model.Tables.Build_t Ink.Model.Tables.Build_magic_cfg.

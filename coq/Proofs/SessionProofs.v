(* Session-level theorems of property C16 about the messages ONE `go` emits (Model/Search.v):
     nodes / depth / time never decrease, bestmove and ponder are the first two moves of the last reported principal
     variation, every reported principal variation is a legal line, the output is `info* bestmove` and every line
     is in the UCI output grammar.
   Three walks over the search:
     1. [tr]      (no hypothesis, every oracle)  what is emitted: only periodic infos, stamped with the node counters
                  and with strictly increasing clock readings; the counters only grow; the table stays within capacity;
     2. [lg]      (C03_family + the keyed-position hypothesis)  the chain returned by every node is a legal line;
     3. the deepening loop ([linv], [linv2]) and `go`. *)
Require Import Ink.Lib.Str.
Require Import NArith ZArith List Bool Lia Arith Sorted.
Require Import Ink.Lib.Bits Ink.Model.Tables Ink.Model.Board Ink.Model.Fen Ink.Model.Notation Ink.Model.History.
Require Import Ink.Model.Heuristic Ink.Model.UciTx Ink.Model.Search.
Require Ink.Model.HashTable.
Require Import Ink.Proofs.HashTableProofs Ink.Proofs.SearchProofs Ink.Proofs.HashFullProofs.
Import ListNotations.
Open Scope N_scope.

Arguments N.add : simpl never.
Arguments N.sub : simpl never.
Arguments N.mul : simpl never.
Arguments N.div : simpl never.
Arguments N.modulo : simpl never.
Arguments N.eqb : simpl never.
Arguments N.ltb : simpl never.
Arguments N.leb : simpl never.
Arguments Z.add : simpl never.
Arguments Z.mul : simpl never.
Arguments Z.opp : simpl never.
Arguments Z.max : simpl never.
Arguments Z.ltb : simpl never.
Arguments Z.leb : simpl never.

(* ================================================================================================================
   0. vocabulary of the statements
   ================================================================================================================ *)

(* the messages emitted between two states, OLDEST FIRST *)
Definition new_msgs (st st' : sstate) : list omsg :=
  rev (firstn (length (s_out st') - length (s_out st)) (s_out st')).

Lemma new_msgs_app st st' l : s_out st' = l ++ s_out st -> new_msgs st st' = rev l.
Proof.
  intro H. unfold new_msgs. rewrite H, app_length, Nat.add_sub. f_equal.
  rewrite <- (Nat.add_0_r (length l)), firstn_app_2. cbn [firstn]. apply app_nil_r.
Qed.

(* the values of one numeric field over the `info` messages that carry it *)
Definition field_of (f : info -> option N) (m : omsg) : list N :=
  match m with OInfo i => match f i with Some x => [x] | None => [] end | _ => [] end.
Definition field_values (f : info -> option N) (l : list omsg) : list N := flat_map (field_of f) l.

(* the principal variation of the last `info` message that carries one (messages oldest first) *)
Definition pv_of (m : omsg) : option (list umove) := match m with OInfo i => i_pv i | _ => None end.
Definition last_pv (l : list omsg) : option (list umove) :=
  fold_left (fun acc m => match pv_of m with Some p => Some p | None => acc end) l None.

(* the same, messages newest first *)
Fixpoint last_pv_nf (l : list omsg) : option (list umove) :=
  match l with
  | [] => None
  | m :: r => match pv_of m with Some p => Some p | None => last_pv_nf r end
  end.

Lemma last_pv_rev l : last_pv (rev l) = last_pv_nf l.
Proof.
  unfold last_pv. induction l as [|m r IH]; [reflexivity|].
  cbn [rev last_pv_nf]. rewrite fold_left_app. cbn [fold_left]. rewrite IH. reflexivity.
Qed.

Lemma last_pv_snoc_bestmove l b p : last_pv (l ++ [OBestmove b p]) = last_pv l.
Proof. unfold last_pv. rewrite fold_left_app. reflexivity. Qed.

Lemma field_values_app f a b : field_values f (a ++ b) = field_values f a ++ field_values f b.
Proof. unfold field_values. apply flat_map_app. Qed.

Lemma field_values_rev f l : field_values f (rev l) = rev (field_values f l).
Proof.
  induction l as [|m r IH]; [reflexivity|].
  cbn [rev]. rewrite field_values_app, IH. change (field_values f (m :: r)) with (field_of f m ++ field_values f r).
  rewrite rev_app_distr. f_equal. unfold field_values. cbn [flat_map]. rewrite app_nil_r.
  destruct m as [i| | | | | | |]; cbn [field_of]; try reflexivity. destruct (f i); reflexivity.
Qed.

(* sortedness, newest first <-> oldest first *)
Lemma ssorted_snoc (R : N -> N -> Prop) l x : StronglySorted R l -> Forall (fun y => R y x) l -> StronglySorted R (l ++ [x]).
Proof.
  induction l as [|a r IH]; intros HS HF; cbn [app].
  - constructor; constructor.
  - inversion HS as [|? ? HS' HA]; subst. inversion HF as [|? ? Ha HF']; subst.
    constructor; [apply IH; assumption|]. apply Forall_app. split; [exact HA|constructor; [exact Ha|constructor]].
Qed.

Lemma ssorted_rev l : StronglySorted (fun a b => b <= a) l -> StronglySorted N.le (rev l).
Proof.
  induction 1 as [|a r HS IH HA]; cbn [rev]; [constructor|].
  apply ssorted_snoc; [exact IH|]. apply Forall_rev. exact HA.
Qed.

(* ================================================================================================================
   1. first walk: what a search emits, and what it does to the counters and to the table
   ================================================================================================================ *)
Definition total (st : sstate) : N := s_nm_nodes st + s_q_nodes st.

(* [seqd orc lo rlo l hi rhi]: l (newest first) are `info` messages; the node values go down from at most hi to at
   least lo; every time value is a clock reading `elapsed orc k`, and the indices k go STRICTLY down from below
   rhi to at least rlo *)
Inductive seqd (orc : oracle) (lo : N) (rlo : nat) : list omsg -> N -> nat -> Prop :=
| seqd_nil hi rhi : lo <= hi -> (rlo <= rhi)%nat -> seqd orc lo rlo [] hi rhi
| seqd_cons i l n k hi rhi :
    i_nodes i = Some n -> i_time i = Some (elapsed orc k) -> n <= hi -> (k < rhi)%nat ->
    seqd orc lo rlo l n k -> seqd orc lo rlo (OInfo i :: l) hi rhi.

Lemma seqd_weaken orc lo rlo l hi rhi hi' rhi' :
  seqd orc lo rlo l hi rhi -> hi <= hi' -> (rhi <= rhi')%nat -> seqd orc lo rlo l hi' rhi'.
Proof.
  intros H H1 H2. destruct H.
  - constructor; lia.
  - econstructor; try eassumption; lia.
Qed.

Lemma seqd_bounds orc lo rlo l hi rhi : seqd orc lo rlo l hi rhi -> lo <= hi /\ (rlo <= rhi)%nat.
Proof. induction 1; lia. Qed.

Lemma seqd_app orc a ra l1 b rb l2 c rc :
  seqd orc a ra l1 b rb -> seqd orc b rb l2 c rc -> seqd orc a ra (l2 ++ l1) c rc.
Proof.
  intros H1 H2. induction H2 as [hi rhi Hle Hr|i l n k hi rhi Hn Ht Hle Hk H2 IH]; cbn [app].
  - eapply seqd_weaken; eassumption.
  - econstructor; eassumption.
Qed.

Lemma seqd_is_info orc lo rlo l hi rhi : seqd orc lo rlo l hi rhi -> forallb is_info l = true.
Proof. induction 1; [reflexivity|exact IHseqd]. Qed.

Lemma seqd_nodes orc lo rlo l hi rhi : seqd orc lo rlo l hi rhi ->
  Forall (fun n => n <= hi) (field_values i_nodes l) /\ StronglySorted (fun a b => b <= a) (field_values i_nodes l).
Proof.
  induction 1 as [|i l n k hi rhi Hn Ht Hle Hk H [IH1 IH2]]; [split; constructor|].
  unfold field_values in *. cbn [flat_map field_of]. rewrite Hn. cbn [app]. split.
  - constructor; [exact Hle|]. eapply Forall_impl; [|exact IH1]. cbv beta. intros; lia.
  - constructor; assumption.
Qed.

Definition clock_mono (orc : oracle) : Prop := forall i j, (i <= j)%nat -> elapsed orc i <= elapsed orc j.

Lemma seqd_times orc lo rlo l hi rhi : clock_mono orc -> seqd orc lo rlo l hi rhi ->
  Forall (fun t => exists k, (k < rhi)%nat /\ t = elapsed orc k) (field_values i_time l) /\
  StronglySorted (fun a b => b <= a) (field_values i_time l).
Proof.
  intro HM. induction 1 as [|i l n k hi rhi Hn Ht Hle Hk H [IH1 IH2]]; [split; constructor|].
  unfold field_values in *. cbn [flat_map field_of]. rewrite Ht. cbn [app]. split.
  - constructor; [exists k; split; [exact Hk|reflexivity]|].
    eapply Forall_impl; [|exact IH1]. cbv beta. intros t (k' & Hk' & ->). exists k'. split; [lia|reflexivity].
  - constructor; [exact IH2|]. eapply Forall_impl; [|exact IH1]. cbv beta. intros t (k' & Hk' & ->). apply HM. lia.
Qed.

(* the messages a search emits by itself: no depth, no principal variation *)
Definition periodic (m : omsg) : Prop := match m with OInfo i => i_depth i = None /\ i_pv i = None | _ => False end.

Lemma last_pv_nf_periodic l r : Forall periodic l -> last_pv_nf (l ++ r) = last_pv_nf r.
Proof.
  induction 1 as [|m l Hm _ IH]; [reflexivity|]. cbn [app last_pv_nf].
  destruct m as [i| | | | | | |]; try contradiction. destruct Hm as [_ Hp]. cbn [pv_of]. rewrite Hp. exact IH.
Qed.

(* the depth values, newest first, go down from at most hi *)
Fixpoint depths_desc (l : list omsg) (hi : N) : Prop :=
  match l with
  | [] => True
  | OInfo i :: r => match i_depth i with Some d => d <= hi /\ depths_desc r d | None => depths_desc r hi end
  | _ :: r => depths_desc r hi
  end.

Lemma depths_desc_weaken l : forall hi hi', hi <= hi' -> depths_desc l hi -> depths_desc l hi'.
Proof.
  induction l as [|m r IH]; intros hi hi' Hle; cbn [depths_desc]; [tauto|].
  destruct m as [i| | | | | | |]; try (apply IH; exact Hle).
  destruct (i_depth i); [intros [H1 H2]; split; [lia|exact H2]|apply IH; exact Hle].
Qed.

Lemma depths_desc_periodic l r hi : Forall periodic l -> depths_desc r hi -> depths_desc (l ++ r) hi.
Proof.
  induction 1 as [|m l Hm _ IH]; [tauto|]. cbn [app depths_desc].
  destruct m as [i| | | | | | |]; try contradiction. destruct Hm as [Hd _]. rewrite Hd. exact IH.
Qed.

Lemma depths_desc_sorted l : forall hi, depths_desc l hi ->
  Forall (fun d => d <= hi) (field_values i_depth l) /\ StronglySorted (fun a b => b <= a) (field_values i_depth l).
Proof.
  induction l as [|m r IH]; intros hi H; [split; constructor|].
  unfold field_values in *. cbn [flat_map]. cbn [depths_desc] in H.
  destruct m as [i| | | | | | |]; cbn [field_of app]; try (apply IH; exact H).
  destruct (i_depth i) as [d|]; cbn [app]; [|apply IH; exact H].
  destruct H as [H1 H2]. destruct (IH d H2) as [I1 I2]. split.
  - constructor; [exact H1|]. eapply Forall_impl; [|exact I1]. cbv beta. intros; lia.
  - constructor; assumption.
Qed.

Section Trace.
Variable T : Tables.t.
(* a reported `hashfull` is the f32 computation on a fill level within the capacity *)
Definition hf_ok (m : omsg) : Prop :=
  match m with
  | OInfo i => match i_hashfull i with
               | Some h => exists len, len <= tt_capacity T /\ h = hash_full len (tt_capacity T)
               | None => True
               end
  | _ => True
  end.

(* the table satisfies the representation invariant of C18 and its capacity is the constant printed against *)
Definition tt_ok (t : HashTable.ht tt_entry) : Prop :=
  (exists s, R tt_entry t s /\ sinv tt_entry (HashTable.cap tt_entry t) s) /\
  N.of_nat (HashTable.cap tt_entry t) <= tt_capacity T.

Lemma tt_ok_len t : tt_ok t -> N.of_nat (HashTable.len tt_entry t) <= tt_capacity T.
Proof.
  intros [(s & HR & _ & Hl) Hc]. destruct HR as (_ & _ & _ & Hlen & _). unfold HashTable.len. lia.
Qed.

Lemma tt_ok_clear t : N.of_nat (HashTable.cap tt_entry t) <= tt_capacity T -> tt_ok (HashTable.clear tt_entry t).
Proof. intro Hc. split; [exists []; split; [apply R_clear|apply sinv_nil]|exact Hc]. Qed.

Lemma tt_ok_put t k e : tt_ok t -> tt_ok (tt_put t k e).
Proof.
  intros [(s & HR & HS) Hc]. unfold tt_put.
  destruct (put_refines tt_entry t s k e HR) as (t' & -> & Hcap & HR').
  split; [|rewrite Hcap; exact Hc]. exists (FifoMap.put tt_entry (HashTable.cap tt_entry t) s k e).
  split; [exact HR'|]. rewrite Hcap. apply sput_sinv. exact HS.
Qed.

Lemma hf_ok_gen t i : tt_ok t ->
  i_hashfull i = Some (hash_full (N.of_nat (HashTable.len tt_entry t)) (tt_capacity T)) -> hf_ok (OInfo i).
Proof. intros Ht Hi. cbn [hf_ok]. rewrite Hi. eexists. split; [apply tt_ok_len; exact Ht|reflexivity]. Qed.

Section WithOracle.
Variable orc : oracle.

Definition tr (st st' : sstate) : Prop :=
  s_nm_nodes st <= s_nm_nodes st' /\ s_q_nodes st <= s_q_nodes st' /\ (s_reads st <= s_reads st')%nat /\
  (tt_ok (s_tt st) -> tt_ok (s_tt st')) /\
  exists l, s_out st' = l ++ s_out st /\ seqd orc (total st) (s_reads st) l (total st') (s_reads st') /\
            Forall periodic l /\ (tt_ok (s_tt st) -> Forall hf_ok l).

Lemma tr_step st st' :
  s_out st' = s_out st -> s_nm_nodes st <= s_nm_nodes st' -> s_q_nodes st <= s_q_nodes st' ->
  (s_reads st <= s_reads st')%nat -> (tt_ok (s_tt st) -> tt_ok (s_tt st')) -> tr st st'.
Proof.
  intros H1 H2 H3 H4 H5. repeat (split; [assumption|]). exists []. split; [exact H1|]. split; [|split; [constructor|constructor]].
  constructor; [unfold total; lia|exact H4].
Qed.

Lemma tr_quiet st st' :
  s_out st' = s_out st -> s_nm_nodes st <= s_nm_nodes st' -> s_q_nodes st <= s_q_nodes st' ->
  (s_reads st <= s_reads st')%nat -> s_tt st' = s_tt st -> tr st st'.
Proof. intros H1 H2 H3 H4 H5. apply tr_step; try assumption. rewrite H5. tauto. Qed.

Lemma tr_refl st : tr st st.
Proof. apply tr_quiet; try reflexivity; lia. Qed.

Lemma tr_trans a b c : tr a b -> tr b c -> tr a c.
Proof.
  intros (A1 & A2 & A3 & A4 & l1 & E1 & S1 & P1 & F1) (B1 & B2 & B3 & B4 & l2 & E2 & S2 & P2 & F2).
  split; [lia|]. split; [lia|]. split; [lia|]. split; [tauto|].
  exists (l2 ++ l1). split; [rewrite E2, E1; apply app_assoc|]. split; [eapply seqd_app; eassumption|].
  split; [apply Forall_app; split; assumption|]. intro Ht. apply Forall_app. split; [apply F2; tauto|apply F1; exact Ht].
Qed.

Ltac quiet := apply tr_quiet; sproj; first [reflexivity | lia].

Lemma do_unmake_tr st m : tr st (do_unmake st m).
Proof. unfold do_unmake. destruct (unmake _ _); quiet. Qed.

Lemma qs_loop_tr (rec : Z -> Z -> N -> sstate -> vmove * sstate) :
  (forall a b z st, tr st (snd (rec a b z st))) ->
  forall moves beta zph alpha bm bc st, tr st (snd (qs_loop T rec moves beta zph alpha bm bc st)).
Proof.
  intros Hrec moves. induction moves as [|mv rest IH]; intros beta zph alpha bm bc st; cbn [qs_loop]; [apply tr_refl|].
  destruct (make (s_board st) mv) as [b1|].
  - destruct (is_valid T b1); cbn [negb].
    + set (st2 := set_q_nodes (set_board st b1) (s_q_nodes (set_board st b1) + 1)).
      assert (E2 : exists zpx st3, (match zobrist_xor T mv with Some (_, p) => (p, st2) | None => (0, set_panicked st2 true) end) = (zpx, st3)
                                   /\ tr st st3).
      { destruct (zobrist_xor T mv) as [[x p]|]; eexists; eexists; (split; [reflexivity|subst st2; quiet]). }
      destruct E2 as (zpx & st3 & -> & O3).
      pose proof (Hrec (- beta)%Z (- alpha)%Z (N.lxor zph zpx) st3) as O4.
      destruct (rec (- beta)%Z (- alpha)%Z (N.lxor zph zpx) st3) as [child st4]. cbn [snd] in O4.
      assert (E5 : tr st (do_unmake st4 mv)).
      { eapply tr_trans; [|apply do_unmake_tr]. eapply tr_trans; eassumption. }
      destruct (beta <=? - vm_value child)%Z; [exact E5|].
      destruct (alpha <? - vm_value child)%Z; (eapply tr_trans; [exact E5|apply IH]).
    + eapply tr_trans; [|apply IH]. eapply tr_trans; [|apply do_unmake_tr]. quiet.
  - eapply tr_trans; [|apply IH]. quiet.
Qed.

Lemma quiescence_tr fuel : forall alpha beta zph st, tr st (snd (quiescence T fuel alpha beta zph st)).
Proof.
  induction fuel as [|k IH]; intros alpha beta zph st; cbn [quiescence]; [quiet|].
  cbv zeta. destruct (beta <=? _)%Z; [apply tr_refl|]. apply qs_loop_tr. exact IH.
Qed.

Lemma any_move_legal_tr moves : forall st, tr st (snd (any_move_legal T moves st)).
Proof.
  induction moves as [|mv rest IH]; intro st; cbn [any_move_legal]; [apply tr_refl|].
  destruct (make (s_board st) mv) as [b1|].
  - cbv zeta. assert (E1 : tr st (do_unmake (set_board st b1) mv)).
    { eapply tr_trans; [|apply do_unmake_tr]. quiet. }
    destruct (is_valid T b1); [exact E1|]. eapply tr_trans; [exact E1|apply IH].
  - eapply tr_trans; [|apply IH]. quiet.
Qed.

Lemma leaf_node_tr color alpha beta zph buffer st : tr st (snd (leaf_node T color alpha beta zph buffer st)).
Proof.
  unfold leaf_node. pose proof (any_move_legal_tr buffer st) as E1.
  destruct (any_move_legal T buffer st) as [legal st1]. cbn [snd] in E1.
  destruct (legal && _); [|exact E1]. eapply tr_trans; [exact E1|apply quiescence_tr].
Qed.

Lemma nm_loop_tr (rec : Z -> Z -> bool -> N -> N -> sstate -> vmove * sstate) :
  (forall a b pv z zp st, tr st (snd (rec a b pv z zp st))) ->
  forall moves ispv pvm zh zph rd beta alpha bv bm bc lg st,
  tr st (snd (nm_loop T rec moves ispv pvm zh zph rd beta alpha bv bm bc lg st)).
Proof.
  intros Hrec moves. induction moves as [|mv rest IH]; intros ispv pvm zh zph rd beta alpha bv bm bc lg st; cbn [nm_loop]; [apply tr_refl|].
  destruct (make (s_board st) mv) as [b1|].
  - destruct (is_valid T b1); cbn [negb].
    + assert (E2 : exists zx zpx st2, (match zobrist_xor T mv with Some (x, p) => (x, p, set_board st b1) | None => (0, 0, set_panicked (set_board st b1) true) end) = (zx, zpx, st2)
                                   /\ tr st st2).
      { destruct (zobrist_xor T mv) as [[x p]|]; do 3 eexists; (split; [reflexivity|quiet]). }
      destruct E2 as (zx & zpx & st2 & -> & O2).
      pose proof (Hrec (- beta)%Z (- alpha)%Z (ispv && opt_move_eqb pvm mv) (N.lxor zh zx) (N.lxor zph zpx) st2) as O3.
      destruct (rec (- beta)%Z (- alpha)%Z (ispv && opt_move_eqb pvm mv) (N.lxor zh zx) (N.lxor zph zpx) st2) as [child st3].
      cbn [snd] in O3.
      assert (E4 : tr st (do_unmake st3 mv)).
      { eapply tr_trans; [|apply do_unmake_tr]. eapply tr_trans; eassumption. }
      destruct (s_stop st3); [exact E4|].
      destruct (bv <? - vm_value child)%Z; cbv zeta iota beta;
        (destruct (beta <=? _)%Z; [eapply tr_trans; [exact E4|quiet]|eapply tr_trans; [exact E4|apply IH]]).
    + eapply tr_trans; [|apply IH]. eapply tr_trans; [|apply do_unmake_tr]. quiet.
  - eapply tr_trans; [|apply IH]. quiet.
Qed.

Lemma interior_node_tr rec :
  (forall a b pv z zp st, tr st (snd (rec a b pv z zp st))) ->
  forall color ply rd a0 ispv zh zph alpha beta ttm buffer st,
  tr st (snd (interior_node T rec color ply rd a0 ispv zh zph alpha beta ttm buffer st)).
Proof.
  intros Hrec color ply rd a0 ispv zh zph alpha beta ttm buffer st. unfold interior_node. cbv zeta.
  match goal with |- context [nm_loop T rec ?mv ?a ?b ?c ?d ?e ?f ?g ?h ?i ?j ?k st] =>
    pose proof (nm_loop_tr rec Hrec mv a b c d e f g h i j k st) as HL;
    destruct (nm_loop T rec mv a b c d e f g h i j k st) as [[r|bv bm bc lg] st4] end;
  cbn [snd] in HL; [exact HL|].
  destruct (negb lg); [exact HL|]. destruct (negb _); [|exact HL].
  eapply tr_trans; [exact HL|]. apply tr_step; sproj; try reflexivity; try lia. apply tt_ok_put.
Qed.

Lemma fold_apply_msg3 l : forall st,
  s_out (fold_left apply_msg l st) = s_out st /\ s_nm_nodes (fold_left apply_msg l st) = s_nm_nodes st /\
  s_q_nodes (fold_left apply_msg l st) = s_q_nodes st /\ s_reads (fold_left apply_msg l st) = s_reads st /\
  s_tt (fold_left apply_msg l st) = s_tt st.
Proof.
  induction l as [|m r IH]; intro st; cbn [fold_left]; [repeat split|].
  destruct (IH (apply_msg st m)) as (A & B & C & D & E). rewrite A, B, C, D, E. destruct m; repeat split.
Qed.

(* one periodic info *)
Lemma tr_emit st st' k i :
  s_nm_nodes st' = s_nm_nodes st -> s_q_nodes st' = s_q_nodes st -> s_tt st' = s_tt st ->
  s_out st' = OInfo i :: s_out st -> (s_reads st <= k)%nat -> (k < s_reads st')%nat ->
  i_time i = Some (elapsed orc k) -> i_nodes i = Some (total st) -> i_depth i = None -> i_pv i = None ->
  i_hashfull i = Some (hash_full (N.of_nat (HashTable.len tt_entry (s_tt st))) (tt_capacity T)) ->
  tr st st'.
Proof.
  intros H1 H2 H3 H4 H5 H6 H7 H8 H9 H10 H11.
  split; [lia|]. split; [lia|]. split; [lia|]. split; [rewrite H3; tauto|].
  exists [OInfo i]. split; [exact H4|]. split; [|split].
  - econstructor; [exact H8|exact H7|unfold total; lia|exact H6|]. constructor; [lia|exact H5].
  - constructor; [split; assumption|constructor].
  - intro Ht. constructor; [|constructor]. eapply hf_ok_gen; eassumption.
Qed.

Lemma poll_block_tr st : tr st (snd (poll_block T orc st)).
Proof.
  unfold poll_block, generate_info, read_clock. cbv zeta.
  destruct (fold_apply_msg3 (inbox orc (s_drains st)) st) as (A & B & C & D & E).
  destruct (should_check_flags orc st); [|apply tr_refl].
  unfold check_messages.
  destruct (abort_at orc) as [[n mode]|]; [destruct (n =? _); [destruct (mode =? 1)|]|]; cbv beta iota zeta; sproj;
  try (destruct (g_movetime _) as [mt|]; [destruct (mt <? _)|]); cbn [fst snd]; sproj;
  first [ apply tr_quiet; sproj; rewrite ?A, ?B, ?C, ?D, ?E; first [reflexivity|lia]
        | eapply (tr_emit _ _ (s_reads st)); sproj; unfold total; sproj; rewrite ?A, ?B, ?C, ?D, ?E; first [reflexivity|lia] ].
Qed.

Lemma node_prelude_tr ply rd a0 b0 zh st : tr st (snd (node_prelude T orc ply rd a0 b0 zh st)).
Proof.
  unfold node_prelude. pose proof (poll_block_tr st) as Hp.
  destruct (poll_block T orc st) as [[r|] st1]; cbn [snd] in Hp; [exact Hp|].
  cbv zeta. sproj. destruct (visit _ _ _ _ _) as [h' rep].
  assert (E3 : tr st (set_history (set_nm_nodes st1 (s_nm_nodes st1 + 1)) h')).
  { eapply tr_trans; [exact Hp|]. quiet. }
  destruct rep; [exact E3|].
  destruct (tt_probe _ _ _ _ _) as [r|[[alpha beta] ttm]]; [exact E3|].
  destruct ((ply =? 0) && is_nil _); exact E3.
Qed.

Lemma negamax_tr d : forall ply a0 b0 ispv zh zph st, tr st (snd (negamax T orc d ply a0 b0 ispv zh zph st)).
Proof.
  induction d as [|d' IH]; intros ply a0 b0 ispv zh zph st; cbn [negamax]; cbv zeta;
  (match goal with |- context [node_prelude T orc ply ?rd a0 b0 zh st] =>
     pose proof (node_prelude_tr ply rd a0 b0 zh st) as E3;
     destruct (node_prelude T orc ply rd a0 b0 zh st) as [[r|alpha beta ttm buffer] st3] end);
  cbn [fst snd] in E3; try exact E3.
  - eapply tr_trans; [exact E3|apply leaf_node_tr].
  - eapply tr_trans; [exact E3|]. apply interior_node_tr. intros. apply IH.
Qed.

End WithOracle.
End Trace.

(* ================================================================================================================
   2. the deepening loop and `go`, for every oracle
   ================================================================================================================ *)
Section Loop.
Variable T : Tables.t.
Variable orc : oracle.

(* a reported line is the chain of an iteration that was kept *)
Definition pv_src (log : list iter_rec) (p : list move) : Prop :=
  exists it, In it log /\ it_aborted it = false /\ p = calc_pv (it_result it) /\ vm_mv (it_result it) <> None.
Definition pvs_from (log : list iter_rec) (m : omsg) : Prop :=
  match pv_of m with Some up => exists p, pv_src log p /\ up = map uci_of_move p | None => True end.

Lemma pvs_from_cons it log m : pvs_from log m -> pvs_from (it :: log) m.
Proof.
  unfold pvs_from. destruct (pv_of m); [|tauto]. intros (p & (it' & Hin & H) & Hp).
  exists p. split; [|exact Hp]. exists it'. split; [now right|exact H].
Qed.

Lemma pvs_from_periodic log l : Forall periodic l -> Forall (pvs_from log) l.
Proof.
  intro H. eapply Forall_impl; [|exact H]. intros m Hm. unfold pvs_from.
  destruct m as [i| | | | | | |]; try contradiction. destruct Hm as [_ Hp]. cbn [pv_of]. rewrite Hp. exact I.
Qed.

Record linv (a0 a : idstate) : Prop := {
  lv_pos : 1 <= id_depth a;
  lv_best : match id_best a with
            | None => id_uci_pv a = None
            | Some v => id_uci_pv a = Some (calc_pv v) /\ vm_mv v <> None /\ pv_src (id_log a) (calc_pv v)
            end;
  lv_tt : tt_ok T (s_tt (id_st a0)) -> tt_ok T (s_tt (id_st a));
  lv_out : exists l, s_out (id_st a) = l ++ s_out (id_st a0) /\
      seqd orc (total (id_st a0)) (s_reads (id_st a0)) l (total (id_st a)) (s_reads (id_st a)) /\
      last_pv_nf l = option_map (map uci_of_move) (id_uci_pv a) /\
      depths_desc l (id_depth a - 1) /\
      (tt_ok T (s_tt (id_st a0)) -> Forall (hf_ok T) l) /\
      Forall (pvs_from (id_log a)) l
}.

Lemma linv_refl a : 1 <= id_depth a -> id_best a = None -> id_uci_pv a = None -> linv a a.
Proof.
  intros H1 H2 H3. split; [exact H1|rewrite H2; exact H3|tauto|].
  exists []. split; [reflexivity|]. split; [constructor; lia|]. split; [rewrite H3; reflexivity|].
  split; [exact I|]. split; [intro; constructor|constructor].
Qed.

Lemma linv_step mt a0 a : linv a0 a -> linv a0 (id_next T orc mt a).
Proof.
  intros [Hpos Hbest Htt (l & Hl & Hseq & Hpv & Hdep & Hhf & Hsrc)].
  unfold id_next, id_step. cbv zeta.
  match goal with |- context [negamax T orc ?d ?p ?x ?y ?v ?z ?w (id_st a)] =>
    pose proof (negamax_tr T orc d p x y v z w (id_st a)) as TR;
    destruct (negamax T orc d p x y v z w (id_st a)) as [current st1] end.
  cbn [snd] in TR. destruct TR as (N1 & Q1 & R1 & T1 & l1 & E1 & S1 & P1 & F1).
  unfold read_clock, generate_info. cbv beta iota zeta. sproj.
  assert (Hseq1 : seqd orc (total (id_st a0)) (s_reads (id_st a0)) (l1 ++ l) (total st1) (s_reads st1))
    by (eapply seqd_app; eassumption).
  assert (Hhf1 : tt_ok T (s_tt (id_st a0)) -> Forall (hf_ok T) (l1 ++ l)).
  { intro H0. apply Forall_app. split; [apply F1; tauto|apply Hhf; exact H0]. }
  destruct (s_stop st1 || match vm_mv current with Some _ => false | None => true end) eqn:Eab;
    cbn [negb]; cbv beta iota zeta; unfold read_clock; cbv beta iota zeta; sproj;
    match goal with |- context [if ?c then inr ?x else inl ?y] =>
      replace (un (if c then inr x else inl y)) with x by (destruct c; reflexivity) end.
  - (* aborted: the previous line is reported again, under the previous depth *)
    split; cbn [id_depth id_best id_uci_pv id_log id_st]; sproj.
    + lia.
    + destruct (id_best a) as [v|]; [|exact Hbest]. destruct Hbest as (Hb1 & Hb2 & it & Hin & Hit).
      split; [exact Hb1|]. split; [exact Hb2|]. exists it. split; [now right|exact Hit].
    + tauto.
    + eexists (_ :: l1 ++ l). split; [rewrite E1, Hl, app_assoc; reflexivity|]. split; [|split; [|split; [|split]]].
      * econstructor; [reflexivity|reflexivity| | |exact Hseq1]; unfold total; sproj; lia.
      * cbn [last_pv_nf pv_of i_pv]. destruct (id_uci_pv a); [reflexivity|]. cbn [option_map].
        rewrite last_pv_nf_periodic by exact P1. exact Hpv.
      * cbn [depths_desc i_depth]. split; [lia|]. apply depths_desc_periodic; [exact P1|exact Hdep].
      * intro H0. constructor; [|apply Hhf1; exact H0]. eapply (hf_ok_gen T (s_tt st1)); [tauto|reflexivity].
      * constructor.
        -- unfold pvs_from. cbn [pv_of i_pv]. destruct (id_uci_pv a) as [p|] eqn:Ep; [|exact I]. cbn [option_map].
           exists p. split; [|reflexivity]. destruct (id_best a) as [v|]; [|congruence]. destruct Hbest as (Hb1 & _ & it & Hin & Hit).
           assert (p = calc_pv v) by congruence. subst p. exists it. split; [now right|exact Hit].
        -- eapply Forall_impl; [intros m Hm; apply pvs_from_cons; exact Hm|].
           apply Forall_app. split; [apply pvs_from_periodic; exact P1|exact Hsrc].
  - (* kept: the new line is reported under the new depth *)
    assert (Hmv : vm_mv current <> None).
    { apply orb_false_iff in Eab as [_ H]. destruct (vm_mv current); [discriminate|discriminate]. }
    assert (Hnew : pv_src ({| it_depth := id_depth a; it_result := current; it_aborted := false |} :: id_log a) (calc_pv current)).
    { eexists. split; [now left|]. cbn [it_aborted it_result]. repeat split. exact Hmv. }
    split; cbn [id_depth id_best id_uci_pv id_log id_st]; sproj.
    + lia.
    + split; [reflexivity|]. split; [exact Hmv|exact Hnew].
    + tauto.
    + eexists (_ :: l1 ++ l). split; [rewrite E1, Hl, app_assoc; reflexivity|]. split; [|split; [|split; [|split]]].
      * econstructor; [reflexivity|reflexivity| | |exact Hseq1]; unfold total; sproj; lia.
      * reflexivity.
      * cbn [depths_desc i_depth]. split; [lia|]. apply depths_desc_periodic; [exact P1|].
        eapply depths_desc_weaken; [|exact Hdep]. lia.
      * intro H0. constructor; [|apply Hhf1; exact H0]. eapply (hf_ok_gen T (s_tt st1)); [tauto|reflexivity].
      * constructor.
        -- unfold pvs_from. cbn [pv_of i_pv option_map]. exists (calc_pv current). split; [exact Hnew|reflexivity].
        -- eapply Forall_impl; [intros m Hm; apply pvs_from_cons; exact Hm|].
           apply Forall_app. split; [apply pvs_from_periodic; exact P1|exact Hsrc].
Qed.

Lemma linv_step' mt a0 a : linv a0 a -> match id_step T orc mt a with inl a' => linv a0 a' | inr b => linv a0 b end.
Proof. intro H. pose proof (linv_step mt a0 a H) as H1. unfold id_next in H1. destruct (id_step T orc mt a); exact H1. Qed.

(* the head of a kept chain is its move *)
Lemma calc_pv_head v m : vm_mv v = Some m -> exists r, calc_pv v = m :: r.
Proof. destruct v as [x mv c]. cbn [vm_mv calc_pv]. intros ->. eexists. reflexivity. Qed.

(* what one `go` emits *)
Definition go_msgs (g : go_params) (st : sstate) : list omsg := new_msgs st (go T orc g st).

Record go_facts (g : go_params) (st : sstate) (infos : list omsg) (best ponder : option umove) (log : list iter_rec) : Prop := {
  gf_msgs : go_msgs g st = infos ++ [OBestmove best ponder];
  gf_log : log = fst (go_full T orc g st);
  gf_infos : forallb is_info infos = true;
  gf_seq : exists lo rlo hi rhi, seqd orc lo rlo (rev infos) hi rhi;
  gf_depths : exists hi, depths_desc (rev infos) hi;
  gf_head : match last_pv infos with
            | Some pv => best = nth_error pv 0 /\ ponder = nth_error pv 1 /\ best <> None
            | None => best = None /\ ponder = None
            end;
  gf_hf : N.of_nat (HashTable.cap tt_entry (s_tt st)) <= tt_capacity T -> Forall (hf_ok T) infos;
  gf_src : Forall (pvs_from log) infos
}.

Lemma try_set_pv_frame2 st :
  s_nm_nodes (try_set_pv_from_continuation st) = s_nm_nodes st /\ s_q_nodes (try_set_pv_from_continuation st) = s_q_nodes st /\
  s_reads (try_set_pv_from_continuation st) = s_reads st.
Proof.
  unfold try_set_pv_from_continuation.
  repeat (match goal with |- context [match ?x with _ => _ end] => destruct x end); repeat split; reflexivity.
Qed.

Lemma go_full_facts g st :
  exists l best ponder,
    s_out (snd (go_full T orc g st)) = OBestmove best ponder :: l ++ s_out st /\
    (exists lo rlo hi rhi, seqd orc lo rlo l hi rhi) /\
    (exists hi, depths_desc l hi) /\
    match last_pv_nf l with
    | Some pv => best = nth_error pv 0 /\ ponder = nth_error pv 1 /\ best <> None
    | None => best = None /\ ponder = None
    end /\
    (N.of_nat (HashTable.cap tt_entry (s_tt st)) <= tt_capacity T -> Forall (hf_ok T) l) /\
    Forall (pvs_from (fst (go_full T orc g st))) l.
Proof.
  unfold go_full. cbv zeta.
  set (st0 := set_reads _ _).
  destruct (reset_for_go_frame st0) as (B1 & O1 & G1).
  assert (C1 : HashTable.cap tt_entry (s_tt (reset_for_go st0)) = HashTable.cap tt_entry (s_tt st)).
  { unfold reset_for_go. destruct (s_reset_next st0); reflexivity. }
  set (sr := reset_for_go st0) in *. clearbody sr.
  unfold best_move. cbv zeta.
  set (st1 := set_killers _ _).
  set (st2 := if s_try_prev_pv st1 then try_set_pv_from_continuation st1 else st1).
  assert (F2 : s_out st2 = s_out sr /\ s_tt st2 = HashTable.clear tt_entry (s_tt sr)).
  { subst st2. destruct (s_try_prev_pv st1); [|split; reflexivity]. destruct (try_set_pv_frame st1) as (_ & O & _ & TT). split; assumption. }
  set (st3 := match g_movetime (s_go st2) with None => _ | Some _ => st2 end).
  assert (F3 : s_out st3 = s_out sr /\ s_tt st3 = HashTable.clear tt_entry (s_tt sr)).
  { subst st3. destruct (g_movetime (s_go st2)); [exact F2|]. sproj. exact F2. }
  destruct F3 as (O3 & T3). clearbody st3. clear F2.
  set (a0 := {| id_depth := 1; id_fuel := 1; id_best := None; id_uci_pv := None; id_score := None; id_log := []; id_st := st3 |}).
  set (p := match _ with Npos p => p | N0 => xH end).
  assert (I0 : linv a0 a0) by (apply linv_refl; [cbn; lia|reflexivity|reflexivity]).
  pose proof (iter_until_ind (linv a0) (linv a0) (id_step T orc (g_movetime (s_go st3)))
                (fun a H => linv_step' (g_movetime (s_go st3)) a0 a H) p a0 I0) as HL.
  assert (HF : exists fin, (match iter_until p (id_step T orc (g_movetime (s_go st3))) a0 with inl a => a | inr a => a end) = fin
                           /\ linv a0 fin).
  { destruct (iter_until p _ a0) as [x|x]; exists x; (split; [reflexivity|exact HL]). }
  destruct HF as (fin & -> & [Hpos Hbest Htt (l & Hl & Hseq & Hpv & Hdep & Hhf & Hsrc)]).
  unfold read_clock. cbv beta iota zeta. cbn [fst snd]. cbn [id_st a0] in *.
  exists l. do 2 eexists. split; [sproj; rewrite Hl, O3, O1; reflexivity|].
  split; [do 4 eexists; exact Hseq|]. split; [eexists; exact Hdep|]. split; [|split].
  - rewrite Hpv. destruct (id_best fin) as [v|].
    + destruct Hbest as (-> & Hmv & _). cbn [option_map].
      destruct (vm_mv v) as [m|] eqn:Em; [|congruence]. destruct (calc_pv_head v m Em) as (r & ->).
      cbn [map nth_error option_map]. split; [reflexivity|]. split; [|discriminate].
      destruct r; reflexivity.
    + rewrite Hbest. cbn [option_map]. split; reflexivity.
  - intro Hc. apply Hhf. rewrite T3. apply tt_ok_clear. cbn [HashTable.clear HashTable.cap]. rewrite C1. exact Hc.
  - exact Hsrc.
Qed.

Lemma go_facts_hold g st : exists infos best ponder, go_facts g st infos best ponder (fst (go_full T orc g st)).
Proof.
  destruct (go_full_facts g st) as (l & best & ponder & Hout & Hseq & Hdep & Hhead & Hhf & Hsrc).
  exists (rev l), best, ponder. split.
  - unfold go_msgs, go. apply (new_msgs_app st _ (_ :: l)). exact Hout.
  - reflexivity.
  - destruct Hseq as (lo & rlo & hi & rhi & Hseq). rewrite forallb_forall. intros m Hm. apply in_rev in Hm.
    pose proof (seqd_is_info _ _ _ _ _ _ Hseq) as Hi. rewrite forallb_forall in Hi. apply Hi. exact Hm.
  - rewrite rev_involutive. exact Hseq.
  - rewrite rev_involutive. exact Hdep.
  - rewrite last_pv_rev. exact Hhead.
  - intro Hc. apply Forall_rev. apply Hhf. exact Hc.
  - apply Forall_rev. exact Hsrc.
Qed.

End Loop.

(* ================================================================================================================
   3. second walk: the chain returned by every node is a legal line
   ================================================================================================================ *)
Section Legal.
Variable T : Tables.t.

(* every move is generated in the position reached so far and does not leave the own king in check *)
Fixpoint line_legal (b : board) (l : list move) : Prop :=
  match l with
  | [] => True
  | m :: r => In m (gen_pseudo T b) /\ exists b', make b m = Some b' /\ is_valid T b' = true /\ line_legal b' r
  end.

(* ValuedMove::new(_, bm, bc) *)
Definition chain (bm : option move) (bc : option vmove) : list move := calc_pv (VM 0 bm bc).
Lemma calc_pv_VM x bm bc : calc_pv (VM x bm bc) = chain bm bc.
Proof. reflexivity. Qed.
Lemma chain_some mv child : chain (Some mv) (Some child) = mv :: calc_pv child.
Proof. reflexivity. Qed.

(* the key the child is searched under *)
Definition zx_of (m : move) : N := match zobrist_xor T m with Some (x, _) => x | None => 0 end.

Variable good : nat -> board -> Prop.
Variable Q : nat.
Hypothesis inverse : forall n b m, good (S n) b -> In m (gen_pseudo T b) ->
  exists b', make b m = Some b' /\ unmake b' m = Some b /\ (is_valid T b' = true -> good n b').
Hypothesis good_mono : forall n b, good (S n) b -> good n b.
Hypothesis qfuel_bound : forall n b, good n b -> (qfuel b <= Q)%nat.

(* [K n zh b]: the main search may visit board b under the table key zh with n plies of draft left.
   Intended instance: K n zh b := zh = zobrist_hash T b /\ b is reachable from the root within (D - n) plies. *)
Variable K : nat -> N -> board -> Prop.
Hypothesis K_step : forall n zh b m b', K (S n) zh b -> In m (gen_pseudo T b) -> make b m = Some b' ->
  is_valid T b' = true -> K n (N.lxor zh (zx_of m)) b'.
(* no_collision: one key, one visited board *)
Hypothesis K_inj : forall n1 n2 zh b1 b2, K n1 zh b1 -> K n2 zh b2 -> b1 = b2.

Definition tt_legal (t : HashTable.ht tt_entry) : Prop :=
  forall k e, HashTable.get tt_entry t k = Some e -> forall n b, K n k b -> line_legal b (calc_pv (te_mv e)).

Lemma tt_legal_clear t : tt_legal (HashTable.clear tt_entry t).
Proof. intros k e. unfold HashTable.get, HashTable.clear. cbn. discriminate. Qed.

Lemma get_tt_put2 t k e k' e' :
  HashTable.get tt_entry (tt_put t k e) k' = Some e' -> (k' = k /\ e' = e) \/ HashTable.get tt_entry t k' = Some e'.
Proof.
  unfold tt_put, HashTable.put, HashTable.get.
  assert (Hins : forall x, HashTable.find tt_entry k' (HashTable.insert tt_entry k e (HashTable.m tt_entry t)) = Some x ->
                           (k' = k /\ x = e) \/ HashTable.find tt_entry k' (HashTable.m tt_entry t) = Some x).
  { intro x. unfold HashTable.insert. cbn [HashTable.find]. destruct (N.eqb_spec k' k) as [->|Hne].
    - intros [= <-]. left. split; reflexivity.
    - rewrite find_remove_other by exact Hne. now right. }
  destruct (Nat.ltb _ _).
  - cbv zeta. match goal with |- context [match ?q with [] => None | _ :: _ => _ end] => destruct q as [|h tl] end; [intro H0; now right|].
    cbn [HashTable.m]. intro H. apply Hins. destruct (N.eq_dec k' h) as [->|Hne].
    + rewrite find_remove_same in H. discriminate.
    + rewrite find_remove_other in H by exact Hne. exact H.
  - cbn [HashTable.m]. apply Hins.
Qed.

Lemma tt_legal_put t n zh b e : tt_legal t -> K n zh b -> line_legal b (calc_pv (te_mv e)) -> tt_legal (tt_put t zh e).
Proof.
  intros Ht HK Hl k' e' Hg n' b' HK'. apply get_tt_put2 in Hg as [[-> ->]|Hg].
  - rewrite (K_inj _ _ _ _ _ HK' HK). exact Hl.
  - exact (Ht k' e' Hg n' b' HK').
Qed.

(* ---------- the capture search ---------- *)
Definition lg (st : sstate) (r : vmove * sstate) : Prop :=
  ext st (snd r) /\ s_tt (snd r) = s_tt st /\ line_legal (s_board st) (calc_pv (fst r)).

Lemma qs_loop_lg (rec : Z -> Z -> N -> sstate -> vmove * sstate) n :
  (forall a b z st, good n (s_board st) -> lg st (rec a b z st)) ->
  forall moves b, good (S n) b -> (forall m, In m moves -> In m (gen_pseudo T b)) ->
  forall beta zph alpha bm bc st, s_board st = b -> line_legal b (chain bm bc) ->
  lg st (qs_loop T rec moves beta zph alpha bm bc st).
Proof.
  intros Hrec moves b Hgood. induction moves as [|mv rest IH]; intros Hin beta zph alpha bm bc st Hb Hch; cbn [qs_loop].
  - split; [apply ext_refl|]. split; [reflexivity|]. cbn [fst]. rewrite calc_pv_VM, Hb. exact Hch.
  - assert (Hmv : In mv (gen_pseudo T b)) by (apply Hin; now left).
    assert (Hrest : forall m, In m rest -> In m (gen_pseudo T b)) by (intros; apply Hin; now right).
    destruct (inverse n b mv Hgood Hmv) as (b1 & Hmk & Hun & Hg1).
    rewrite Hb, Hmk.
    destruct (is_valid T b1) eqn:Hv; cbn [negb].
    + set (st2 := set_q_nodes (set_board st b1) (s_q_nodes (set_board st b1) + 1)).
      assert (E2 : exists zpx st3, (match zobrist_xor T mv with Some (_, p) => (p, st2) | None => (0, set_panicked st2 true) end) = (zpx, st3)
                                   /\ s_board st3 = b1 /\ s_out st3 = s_out st /\ s_tt st3 = s_tt st).
      { destruct (zobrist_xor T mv) as [[x p]|]; eexists; eexists; (split; [reflexivity|split; [|split]; reflexivity]). }
      destruct E2 as (zpx & st3 & -> & B3 & O3 & T3).
      pose proof (Hrec (- beta)%Z (- alpha)%Z (N.lxor zph zpx) st3) as Hr.
      destruct (rec (- beta)%Z (- alpha)%Z (N.lxor zph zpx) st3) as [child st4].
      destruct Hr as ([B4 O4] & T4 & L4); [rewrite B3; exact (Hg1 eq_refl)|]. cbn [fst snd] in B4, O4, T4, L4.
      assert (Hun4 : unmake (s_board st4) mv = Some b) by (rewrite B4, B3; exact Hun).
      destruct (do_unmake_spec st4 mv b Hun4) as [B5 O5].
      assert (T5 : s_tt (do_unmake st4 mv) = s_tt st).
      { destruct (do_unmake_qframe st4 mv) as (H & _). congruence. }
      assert (E5 : ext st (do_unmake st4 mv)).
      { split; [congruence|]. eapply outs_trans; [|apply outs_eq; exact O5].
        eapply outs_trans; [apply outs_eq; exact O3|exact O4]. }
      assert (Hnew : line_legal b (chain (Some mv) (Some child))).
      { rewrite chain_some. cbn [line_legal]. split; [exact Hmv|]. exists b1. split; [exact Hmk|]. split; [exact Hv|].
        rewrite <- B3. exact L4. }
      destruct (beta <=? - vm_value child)%Z.
      { split; [exact E5|]. split; [exact T5|]. cbn [fst]. rewrite calc_pv_VM, Hb. exact Hnew. }
      assert (Hnext : forall al bm' bc', line_legal b (chain bm' bc') ->
                lg st (qs_loop T rec rest beta zph al bm' bc' (do_unmake st4 mv))).
      { intros al bm' bc' Hc'. destruct (IH Hrest beta zph al bm' bc' (do_unmake st4 mv) B5 Hc') as (X1 & X2 & X3).
        split; [eapply ext_trans; [exact E5|exact X1]|]. split; [congruence|]. rewrite Hb. rewrite B5 in X3. exact X3. }
      destruct (alpha <? - vm_value child)%Z; apply Hnext; assumption.
    + assert (Hun1 : unmake (s_board (set_board st b1)) mv = Some b) by exact Hun.
      destruct (do_unmake_spec (set_board st b1) mv b Hun1) as [B1 O1].
      assert (T1 : s_tt (do_unmake (set_board st b1) mv) = s_tt st).
      { destruct (do_unmake_qframe (set_board st b1) mv) as (H & _). exact H. }
      destruct (IH Hrest beta zph alpha bm bc (do_unmake (set_board st b1) mv) B1 Hch) as (X1 & X2 & X3).
      split; [eapply ext_trans; [|exact X1]; apply ext_eq; [congruence|exact O1]|].
      split; [congruence|]. rewrite Hb. rewrite B1 in X3. exact X3.
Qed.

Lemma quiescence_lg fuel : forall alpha beta zph st, good fuel (s_board st) ->
  lg st (quiescence T fuel alpha beta zph st).
Proof.
  induction fuel as [|k IH]; intros alpha beta zph st Hg; cbn [quiescence].
  - split; [apply ext_eq; reflexivity|]. split; [reflexivity|exact I].
  - cbv zeta. destruct (beta <=? _)%Z; [split; [apply ext_refl|split; [reflexivity|exact I]]|].
    apply (qs_loop_lg (quiescence T k) k IH) with (b := s_board st); [assumption| |reflexivity|exact I].
    intros m Hm. apply gen_nonquiet_incl. eapply sort_moves_in. exact Hm.
Qed.

Section WithOracle.
Variable orc : oracle.

Notation any_move_legal_ext := (any_move_legal_ext T good inverse).
Notation node_prelude_ext := (node_prelude_ext T orc).

Lemma leaf_node_lg color alpha beta zph buffer st :
  good (S Q) (s_board st) -> (forall m, In m buffer -> In m (gen_pseudo T (s_board st))) ->
  lg st (leaf_node T color alpha beta zph buffer st).
Proof.
  intros Hg Hin. unfold leaf_node.
  assert (Hg1 : good 1 (s_board st)) by (eapply (good_le good good_mono); [|exact Hg]; lia).
  pose proof (any_move_legal_ext buffer (s_board st) Hg1 Hin st eq_refl) as E1.
  pose proof (any_move_legal_qframe T buffer st) as (T1 & _).
  destruct (any_move_legal T buffer st) as [legal st1]. cbn [snd] in E1, T1.
  destruct (legal && _); [|split; [exact E1|split; [exact T1|exact I]]].
  destruct E1 as [B1 O1].
  destruct (quiescence_lg (qfuel (s_board st1)) alpha beta zph st1) as (X1 & X2 & X3).
  { rewrite B1. eapply (good_le good good_mono); [|exact Hg]. pose proof (qfuel_bound _ _ Hg). lia. }
  split; [eapply ext_trans; [split; [exact B1|exact O1]|exact X1]|]. split; [congruence|]. rewrite <- B1. exact X3.
Qed.

(* ---------- the main search ---------- *)
Definition lgt (st : sstate) (r : vmove * sstate) : Prop :=
  ext st (snd r) /\ tt_legal (s_tt (snd r)) /\ line_legal (s_board st) (calc_pv (fst r)).

Definition lgl (st : sstate) (r : loop_res * sstate) : Prop :=
  ext st (snd r) /\ tt_legal (s_tt (snd r)) /\
  match fst r with LReturn v => calc_pv v = [] | LDone _ bm bc _ => line_legal (s_board st) (chain bm bc) end.

Lemma nm_loop_lg (rec : Z -> Z -> bool -> N -> N -> sstate -> vmove * sstate) n k :
  (forall a b pv z zp st, good n (s_board st) -> K k z (s_board st) -> tt_legal (s_tt st) -> lgt st (rec a b pv z zp st)) ->
  forall moves b zh, good (S n) b -> K (S k) zh b -> (forall m, In m moves -> In m (gen_pseudo T b)) ->
  forall ispv pvm zph rd beta alpha bv bm bc lg0 st, s_board st = b -> tt_legal (s_tt st) -> line_legal b (chain bm bc) ->
  lgl st (nm_loop T rec moves ispv pvm zh zph rd beta alpha bv bm bc lg0 st).
Proof.
  intros Hrec moves b zh Hgood HK. induction moves as [|mv rest IH]; intros Hin ispv pvm zph rd beta alpha bv bm bc lg0 st Hb Htt Hch; cbn [nm_loop].
  - split; [apply ext_refl|]. split; [exact Htt|]. cbn [fst]. rewrite Hb. exact Hch.
  - assert (Hmv : In mv (gen_pseudo T b)) by (apply Hin; now left).
    assert (Hrest : forall m, In m rest -> In m (gen_pseudo T b)) by (intros; apply Hin; now right).
    destruct (inverse n b mv Hgood Hmv) as (b1 & Hmk & Hun & Hg1).
    rewrite Hb, Hmk.
    assert (Hnext : forall st', ext st st' -> s_board st' = b -> tt_legal (s_tt st') ->
              forall al bv' bm' bc' lg', line_legal b (chain bm' bc') ->
              lgl st (nm_loop T rec rest ispv pvm zh zph rd beta al bv' bm' bc' lg' st')).
    { intros st' E' B' T' al bv' bm' bc' lg' Hc'.
      destruct (IH Hrest ispv pvm zph rd beta al bv' bm' bc' lg' st' B' T' Hc') as (X1 & X2 & X3).
      split; [eapply ext_trans; [exact E'|exact X1]|]. split; [exact X2|]. rewrite Hb. rewrite B' in X3. exact X3. }
    destruct (is_valid T b1) eqn:Hv; cbn [negb].
    + assert (E2 : exists zpx st2, (match zobrist_xor T mv with Some (x, p) => (x, p, set_board st b1) | None => (0, 0, set_panicked (set_board st b1) true) end) = (zx_of mv, zpx, st2)
                                   /\ s_board st2 = b1 /\ s_out st2 = s_out st /\ s_tt st2 = s_tt st).
      { unfold zx_of. destruct (zobrist_xor T mv) as [[x p]|]; do 2 eexists; (split; [reflexivity|split; [|split]; reflexivity]). }
      destruct E2 as (zpx & st2 & -> & B2 & O2 & T2).
      pose proof (Hrec (- beta)%Z (- alpha)%Z (ispv && opt_move_eqb pvm mv) (N.lxor zh (zx_of mv)) (N.lxor zph zpx) st2) as Hr.
      destruct (rec (- beta)%Z (- alpha)%Z (ispv && opt_move_eqb pvm mv) (N.lxor zh (zx_of mv)) (N.lxor zph zpx) st2) as [child st3].
      destruct Hr as ([B3 O3] & T3 & L3);
        [rewrite B2; exact (Hg1 eq_refl)|rewrite B2; exact (K_step _ _ _ _ _ HK Hmv Hmk Hv)|rewrite T2; exact Htt|].
      cbn [fst snd] in B3, O3, T3, L3.
      assert (Hun3 : unmake (s_board st3) mv = Some b) by (rewrite B3, B2; exact Hun).
      destruct (do_unmake_spec st3 mv b Hun3) as [B4 O4].
      assert (T4 : tt_legal (s_tt (do_unmake st3 mv))).
      { destruct (do_unmake_qframe st3 mv) as (H & _). rewrite H. exact T3. }
      assert (E4 : ext st (do_unmake st3 mv)).
      { split; [congruence|]. eapply outs_trans; [|apply outs_eq; exact O4].
        eapply outs_trans; [apply outs_eq; exact O2|exact O3]. }
      assert (Hnew : line_legal b (chain (Some mv) (Some child))).
      { rewrite chain_some. cbn [line_legal]. split; [exact Hmv|]. exists b1. split; [exact Hmk|]. split; [exact Hv|].
        rewrite <- B2. exact L3. }
      destruct (s_stop st3); [split; [exact E4|split; [exact T4|reflexivity]]|].
      destruct (bv <? - vm_value child)%Z; cbv zeta iota beta.
      * destruct (beta <=? _)%Z.
        -- split; [eapply ext_trans; [exact E4|apply ext_eq; reflexivity]|]. split; [exact T4|]. cbn [fst]. rewrite Hb. exact Hnew.
        -- apply Hnext; assumption.
      * destruct (beta <=? _)%Z.
        -- split; [eapply ext_trans; [exact E4|apply ext_eq; reflexivity]|]. split; [exact T4|]. cbn [fst]. rewrite Hb. exact Hch.
        -- apply Hnext; assumption.
    + assert (Hun1 : unmake (s_board (set_board st b1)) mv = Some b) by exact Hun.
      destruct (do_unmake_spec (set_board st b1) mv b Hun1) as [B1 O1].
      apply Hnext; [apply ext_eq; [congruence|exact O1]|exact B1| |exact Hch].
      destruct (do_unmake_qframe (set_board st b1) mv) as (H & _). rewrite H. exact Htt.
Qed.

Lemma interior_node_lg rec n k :
  (forall a b pv z zp st, good n (s_board st) -> K k z (s_board st) -> tt_legal (s_tt st) -> lgt st (rec a b pv z zp st)) ->
  forall color ply rd a0 ispv zh zph alpha beta ttm buffer st,
  good (S n) (s_board st) -> K (S k) zh (s_board st) -> tt_legal (s_tt st) ->
  (forall m, In m buffer -> In m (gen_pseudo T (s_board st))) ->
  lgt st (interior_node T rec color ply rd a0 ispv zh zph alpha beta ttm buffer st).
Proof.
  intros Hrec color ply rd a0 ispv zh zph alpha beta ttm buffer st Hg HK Htt Hin. unfold interior_node. cbv zeta.
  match goal with |- context [nm_loop T rec ?mv ?a ?b ?c ?d ?e ?f ?g ?h ?i ?j ?l st] =>
    pose proof (nm_loop_lg rec n k Hrec mv (s_board st) c Hg HK) as HL;
    specialize (fun H => HL H a b d e f g h i j l st eq_refl Htt I);
    destruct (nm_loop T rec mv a b c d e f g h i j l st) as [[r|bv bm bc lg0] st4] end.
  - destruct HL as (E4 & T4 & L4); [intros m Hm; apply Hin; eapply sort_moves_in; exact Hm|].
    unfold lgt. cbn [fst snd] in *. split; [exact E4|]. split; [exact T4|]. rewrite L4. exact I.
  - destruct HL as (E4 & T4 & L4); [intros m Hm; apply Hin; eapply sort_moves_in; exact Hm|].
    unfold lgt. cbn [fst snd] in *.
    destruct (negb lg0); [split; [exact E4|split; [exact T4|exact I]]|].
    destruct (negb _); cbn [fst snd].
    + split; [eapply ext_trans; [exact E4|apply ext_eq; reflexivity]|]. split; [|rewrite calc_pv_VM; exact L4].
      sproj. eapply tt_legal_put; [exact T4|exact HK|]. cbn [te_mv]. rewrite calc_pv_VM. exact L4.
    + split; [exact E4|]. split; [exact T4|rewrite calc_pv_VM; exact L4].
Qed.

Lemma poll_block_ret st r : fst (poll_block T orc st) = Some r -> r = leaf 0.
Proof.
  unfold poll_block, generate_info, read_clock. cbv zeta.
  destruct (should_check_flags orc st); [|discriminate].
  unfold check_messages.
  destruct (abort_at orc) as [[n mode]|]; [destruct (n =? _); [destruct (mode =? 1)|]|]; cbv beta iota zeta; sproj;
  try (destruct (g_movetime _) as [mt|]; [destruct (mt <? _)|]); cbn [fst snd]; intro H; first [discriminate|injection H as <-; reflexivity].
Qed.

Lemma tt_probe_inl st zh rd a b r : tt_probe st zh rd a b = inl r ->
  exists e, HashTable.get tt_entry (s_tt st) zh = Some e /\ r = te_mv e.
Proof.
  unfold tt_probe. destruct (HashTable.get tt_entry (s_tt st) zh) as [e|]; [|discriminate].
  intro H. exists e. split; [reflexivity|]. destruct (rd <=? te_depth e); [|discriminate].
  destruct (te_type e); [injection H as <-; reflexivity| |]; cbv zeta in H;
  match type of H with (if ?c then _ else _) = _ => destruct c end; first [discriminate|injection H as <-; reflexivity].
Qed.

Lemma node_prelude_ret ply rd a0 b0 zh st n : K n zh (s_board st) -> tt_legal (s_tt st) ->
  forall r, fst (node_prelude T orc ply rd a0 b0 zh st) = PreReturn r -> line_legal (s_board st) (calc_pv r).
Proof.
  intros HK Htt r. unfold node_prelude.
  pose proof (poll_block_ret st) as Hret. pose proof (poll_block_frame2 T orc st) as (T1 & _).
  destruct (poll_block T orc st) as [[r0|] st1]; cbn [fst snd] in *.
  - intros [= <-]. rewrite (Hret r0 eq_refl). exact I.
  - cbv zeta. sproj. destruct (visit _ _ _ _ _) as [h' rep].
    destruct rep; [intros [= <-]; exact I|].
    destruct (tt_probe _ _ _ _ _) as [r1|[[alpha beta] ttm]] eqn:Ep.
    + intros [= <-]. apply tt_probe_inl in Ep as (e & Hg & ->). sproj. rewrite T1 in Hg. exact (Htt zh e Hg n _ HK).
    + destruct ((ply =? 0) && is_nil _); cbn [fst]; [intros [= <-]; exact I|discriminate].
Qed.

Lemma K_mono_le : (forall n zh b, K (S n) zh b -> K n zh b) -> forall n m zh b, (m <= n)%nat -> K n zh b -> K m zh b.
Proof. intros HM n m zh b. induction 1 as [|j Hle IH]; [tauto|]. intro H. apply IH. now apply HM. Qed.

Lemma negamax_lg d : forall ply a0 b0 ispv zh zph st,
  good (d + S Q) (s_board st) -> K d zh (s_board st) -> tt_legal (s_tt st) ->
  lgt st (negamax T orc d ply a0 b0 ispv zh zph st).
Proof.
  induction d as [|d' IH]; intros ply a0 b0 ispv zh zph st Hg HK Htt; cbn [negamax]; cbv zeta;
  (match goal with |- context [node_prelude T orc ply ?rd a0 b0 zh st] =>
     pose proof (node_prelude_ext ply rd a0 b0 zh st) as [E3 Hbuf];
     pose proof (node_prelude_spec2 T orc ply rd a0 b0 zh st) as (T3 & _);
     pose proof (node_prelude_ret ply rd a0 b0 zh st _ HK Htt) as Hret;
     destruct (node_prelude T orc ply rd a0 b0 zh st) as [[r|alpha beta ttm buffer] st3] end);
  cbn [fst snd] in E3, Hbuf, T3, Hret;
  try (unfold lgt; cbn [fst snd]; split; [exact E3|split; [rewrite T3; exact Htt|apply Hret; reflexivity]]).
  - destruct E3 as [B3 O3].
    destruct (leaf_node_lg (turn (s_board st)) alpha beta zph buffer st3) as (X1 & X2 & X3).
    + rewrite B3. exact Hg.
    + rewrite B3. eapply Hbuf. reflexivity.
    + split; [eapply ext_trans; [split; [exact B3|exact O3]|exact X1]|]. split; [rewrite X2, T3; exact Htt|].
      rewrite B3 in X3. exact X3.
  - destruct E3 as [B3 O3].
    destruct (interior_node_lg (negamax T orc d' (ply + 1)) (d' + S Q)%nat d'
                (fun a b pv z zp s H1 H2 H3 => IH (ply + 1) a b pv z zp s H1 H2 H3)
                (turn (s_board st)) ply (N.of_nat (S d')) a0 ispv zh zph alpha beta ttm buffer st3) as (X1 & X2 & X3).
    + rewrite B3. exact Hg.
    + rewrite B3. exact HK.
    + rewrite T3. exact Htt.
    + rewrite B3. eapply Hbuf. reflexivity.
    + split; [eapply ext_trans; [split; [exact B3|exact O3]|exact X1]|]. split; [exact X2|]. rewrite B3 in X3. exact X3.
Qed.

(* ---------- the deepening loop ---------- *)
Hypothesis K_mono : forall n zh b, K (S n) zh b -> K n zh b.

Lemma id_step_spec3 mt a :
  let a' := id_next T orc mt a in
  (exists it, id_log a' = it :: id_log a /\ it_result it = fst (root_call T orc a)) /\ id_fuel a' = S (id_fuel a) /\
  s_board (id_st a') = s_board (snd (root_call T orc a)) /\ s_tt (id_st a') = s_tt (snd (root_call T orc a)).
Proof.
  unfold id_next, id_step, root_call. cbv zeta.
  match goal with |- context [negamax T orc ?d ?p ?x ?y ?v ?z ?w (id_st a)] =>
    destruct (negamax T orc d p x y v z w (id_st a)) as [current st1] end.
  cbn [fst snd]. unfold read_clock, generate_info. cbv beta iota zeta. sproj.
  destruct (s_stop st1 || match vm_mv current with Some _ => false | None => true end) eqn:Eab;
    cbn [negb]; cbv beta iota zeta; unfold read_clock; cbv beta iota zeta; sproj;
    match goal with |- context [if ?c then inr ?x else inl ?y] =>
      replace (un (if c then inr x else inl y)) with x by (destruct c; reflexivity) end;
    cbn [id_log id_fuel id_st]; sproj; (split; [eexists; split; reflexivity|repeat split]).
Qed.

Record linv2 (D : nat) (b0 : board) (a : idstate) : Prop := {
  l2_fl : id_fuel a = S (length (id_log a));
  l2_go : (length (id_log a) <= D)%nat -> good (D + S Q) b0 -> K D (zobrist_hash T b0) b0 ->
          s_board (id_st a) = b0 /\ tt_legal (s_tt (id_st a)) /\
          Forall (fun it => line_legal b0 (calc_pv (it_result it))) (id_log a)
}.

Lemma linv2_step D b0 mt a : linv2 D b0 a -> linv2 D b0 (id_next T orc mt a).
Proof.
  intros [Hfl Hgo]. destruct (id_step_spec3 mt a) as ((it & Hlog & Hres) & Hfuel & Hb & Ht).
  split; [rewrite Hfuel, Hlog, Hfl; reflexivity|].
  rewrite Hlog. cbn [length]. intros Hle Hg HK.
  destruct (Hgo ltac:(lia) Hg HK) as (B0 & T0 & L0).
  unfold root_call in Hres, Hb, Ht. rewrite Hfl, B0 in *.
  match type of Hres with _ = fst (negamax T orc ?d ?p ?x ?y ?v ?z ?w (id_st a)) =>
    destruct (negamax_lg d p x y v z w (id_st a)) as ([X1 _] & X2 & X3) end.
  - rewrite B0. eapply (good_le good good_mono); [|exact Hg]. lia.
  - rewrite B0. eapply (K_mono_le K_mono); [|exact HK]. lia.
  - exact T0.
  - rewrite B0 in X1, X3. split; [congruence|]. split; [rewrite Ht; exact X2|].
    constructor; [rewrite Hres; exact X3|exact L0].
Qed.

Lemma best_move_legal st D :
  let log := snd (fst (best_move T orc st)) in
  (length log <= D)%nat -> good (D + S Q) (s_board st) -> K D (zobrist_hash T (s_board st)) (s_board st) ->
  Forall (fun it => line_legal (s_board st) (calc_pv (it_result it))) log.
Proof.
  unfold best_move. cbv zeta.
  set (st1 := set_killers _ _).
  set (st2 := if s_try_prev_pv st1 then try_set_pv_from_continuation st1 else st1).
  assert (F2 : s_board st2 = s_board st /\ s_tt st2 = HashTable.clear tt_entry (s_tt st)).
  { subst st2. destruct (s_try_prev_pv st1); [|split; reflexivity]. destruct (try_set_pv_frame st1) as (B & _ & _ & TT). split; assumption. }
  set (st3 := match g_movetime (s_go st2) with None => _ | Some _ => st2 end).
  assert (F3 : s_board st3 = s_board st /\ s_tt st3 = HashTable.clear tt_entry (s_tt st)).
  { subst st3. destruct (g_movetime (s_go st2)); [exact F2|]. sproj. exact F2. }
  destruct F3 as (B3 & T3). clearbody st3. clear F2.
  set (a0 := {| id_depth := 1; id_fuel := 1; id_best := None; id_uci_pv := None; id_score := None; id_log := []; id_st := st3 |}).
  set (p := match _ with Npos p => p | N0 => xH end).
  assert (I0 : linv2 D (s_board st) a0).
  { split; [reflexivity|]. intros _ _ _. cbn [id_st a0 id_log]. split; [exact B3|]. split; [rewrite T3; apply tt_legal_clear|constructor]. }
  assert (Hstep : forall a, linv2 D (s_board st) a ->
            match id_step T orc (g_movetime (s_go st3)) a with inl a' => linv2 D (s_board st) a' | inr b => linv2 D (s_board st) b end).
  { intros a H. pose proof (linv2_step D (s_board st) (g_movetime (s_go st3)) a H) as H1. unfold id_next in H1.
    destruct (id_step T orc (g_movetime (s_go st3)) a); exact H1. }
  pose proof (iter_until_ind (linv2 D (s_board st)) (linv2 D (s_board st)) (id_step T orc (g_movetime (s_go st3))) Hstep p a0 I0) as HL.
  assert (HF : exists fin, (match iter_until p (id_step T orc (g_movetime (s_go st3))) a0 with inl a => a | inr a => a end) = fin
                           /\ linv2 D (s_board st) fin).
  { destruct (iter_until p _ a0) as [x|x]; exists x; (split; [reflexivity|exact HL]). }
  destruct HF as (fin & -> & [Hfl Hgo]).
  unfold read_clock. cbv beta iota zeta. cbn [fst snd]. intros Hle Hg HK. apply Hgo; assumption.
Qed.

Lemma go_full_legal g st D :
  let log := fst (go_full T orc g st) in
  (length log <= D)%nat -> good (D + S Q) (s_board st) -> K D (zobrist_hash T (s_board st)) (s_board st) ->
  Forall (fun it => line_legal (s_board st) (calc_pv (it_result it))) log.
Proof.
  unfold go_full. cbv zeta. set (st0 := set_reads _ _).
  destruct (reset_for_go_frame st0) as (B1 & _ & _).
  pose proof (best_move_legal (reset_for_go st0) D) as HB. cbv zeta in HB.
  destruct (best_move T orc (reset_for_go st0)) as [[[bm pm] log] st2]. cbn [fst snd] in *.
  rewrite B1 in HB. exact HB.
Qed.

End WithOracle.
End Legal.

(* ================================================================================================================
   4. the session theorems, hypotheses spelled out
   ================================================================================================================ *)

(* the keyed-position hypothesis of C16_pv_legal (see [K] above): closed under the moves the main search makes
   (one ply of draft less), monotone in the draft, and free of collisions *)
Definition key_family (T : Tables.t) (K : nat -> N -> board -> Prop) : Prop :=
  (forall n zh b m b', K (S n) zh b -> In m (gen_pseudo T b) -> make b m = Some b' -> is_valid T b' = true ->
     K n (N.lxor zh (zx_of T m)) b') /\
  (forall n zh b, K (S n) zh b -> K n zh b) /\
  (forall n1 n2 zh b1 b2, K n1 zh b1 -> K n2 zh b2 -> b1 = b2).

Section SessionTheorems.
Variable T : Tables.t.

Lemma field_values_bestmove f b p : field_values f [OBestmove b p] = [].
Proof. reflexivity. Qed.

Theorem nodes_monotone_thm : forall orc g st, StronglySorted N.le (field_values i_nodes (go_msgs T orc g st)).
Proof.
  intros orc g st. destruct (go_facts_hold T orc g st) as (infos & b & p & [Hm _ _ (lo & rlo & hi & rhi & Hs) _ _ _ _]).
  rewrite Hm, field_values_app, field_values_bestmove, app_nil_r.
  rewrite <- (rev_involutive infos), field_values_rev. apply ssorted_rev.
  exact (proj2 (seqd_nodes _ _ _ _ _ _ Hs)).
Qed.

Theorem depth_monotone_thm : forall orc g st, StronglySorted N.le (field_values i_depth (go_msgs T orc g st)).
Proof.
  intros orc g st. destruct (go_facts_hold T orc g st) as (infos & b & p & [Hm _ _ _ (hi & Hd) _ _ _]).
  rewrite Hm, field_values_app, field_values_bestmove, app_nil_r.
  rewrite <- (rev_involutive infos), field_values_rev. apply ssorted_rev.
  exact (proj2 (depths_desc_sorted _ _ Hd)).
Qed.

Theorem time_monotone_thm : forall orc g st, clock_mono orc ->
  StronglySorted N.le (field_values i_time (go_msgs T orc g st)).
Proof.
  intros orc g st HM. destruct (go_facts_hold T orc g st) as (infos & b & p & [Hm _ _ (lo & rlo & hi & rhi & Hs) _ _ _ _]).
  rewrite Hm, field_values_app, field_values_bestmove, app_nil_r.
  rewrite <- (rev_involutive infos), field_values_rev. apply ssorted_rev.
  exact (proj2 (seqd_times _ _ _ _ _ _ HM Hs)).
Qed.

(* without any hypothesis on the clock: the reported times are readings of the clock, in the order they were taken *)
Lemma seqd_readings orc lo rlo l hi rhi : seqd orc lo rlo l hi rhi ->
  exists ks, field_values i_time l = map (elapsed orc) ks /\ Forall (fun k => (k < rhi)%nat) ks /\
             StronglySorted (fun a b => (b < a)%nat) ks.
Proof.
  induction 1 as [|i l n k hi rhi Hn Ht Hle Hk H (ks & E & F & S)]; [exists []; repeat split; constructor|].
  exists (k :: ks). unfold field_values in *. cbn [flat_map field_of]. rewrite Ht. cbn [app map]. rewrite E.
  split; [reflexivity|]. split; [constructor; [exact Hk|]; eapply Forall_impl; [|exact F]; cbv beta; intros; lia|].
  constructor; [exact S|exact F].
Qed.

Lemma ssorted_rev_nat l : StronglySorted (fun a b => (b < a)%nat) l -> StronglySorted lt (rev l).
Proof.
  induction 1 as [|a r HS IH HA]; cbn [rev]; [constructor|].
  assert (Hsn : forall l x, StronglySorted lt l -> Forall (fun y => (y < x)%nat) l -> StronglySorted lt (l ++ [x])).
  { clear. induction l as [|a r IH]; intros x HS HF; cbn [app]; [constructor; constructor|].
    inversion HS as [|? ? HS' HA]; subst. inversion HF as [|? ? Ha HF']; subst.
    constructor; [apply IH; assumption|]. apply Forall_app. split; [exact HA|constructor; [exact Ha|constructor]]. }
  apply Hsn; [exact IH|]. apply Forall_rev. exact HA.
Qed.

Theorem time_readings_thm : forall orc g st,
  exists ks, field_values i_time (go_msgs T orc g st) = map (elapsed orc) ks /\ StronglySorted lt ks.
Proof.
  intros orc g st. destruct (go_facts_hold T orc g st) as (infos & b & p & [Hm _ _ (lo & rlo & hi & rhi & Hs) _ _ _ _]).
  rewrite Hm, field_values_app, field_values_bestmove, app_nil_r.
  destruct (seqd_readings _ _ _ _ _ _ Hs) as (ks & E & _ & S).
  exists (rev ks). split; [|apply ssorted_rev_nat; exact S].
  rewrite <- (rev_involutive infos), field_values_rev, E, map_rev. reflexivity.
Qed.

Theorem bestmove_is_pv_head_thm : forall orc g st,
  exists infos best ponder,
    go_msgs T orc g st = infos ++ [OBestmove best ponder] /\ forallb is_info infos = true /\
    match last_pv infos with
    | Some pv => best = nth_error pv 0 /\ ponder = nth_error pv 1 /\ best <> None
    | None => best = None /\ ponder = None
    end.
Proof.
  intros orc g st. destruct (go_facts_hold T orc g st) as (infos & b & p & [Hm _ Hi _ _ Hh _ _]).
  exists infos, b, p. repeat split; assumption.
Qed.

Theorem pv_legal_thm : forall good Q, C03_family T good Q -> forall K, key_family T K ->
  forall orc g st D, (length (fst (go_full T orc g st)) <= D)%nat -> good (D + S Q)%nat (s_board st) ->
  K D (zobrist_hash T (s_board st)) (s_board st) ->
  forall i pv, In (OInfo i) (go_msgs T orc g st) -> i_pv i = Some pv ->
  exists line, pv = map uci_of_move line /\ line <> [] /\ line_legal T (s_board st) line.
Proof.
  intros good Q (H1 & H2 & H3) K (K1 & K2 & K3) orc g st D Hle Hg HK i pv Hin Hpv.
  destruct (go_facts_hold T orc g st) as (infos & b & p & [Hm _ _ _ _ _ _ Hsrc]).
  rewrite Hm in Hin. apply in_app_or in Hin as [Hin|[Hin|[]]]; [|discriminate].
  rewrite Forall_forall in Hsrc. specialize (Hsrc _ Hin). unfold pvs_from in Hsrc. cbn [pv_of] in Hsrc. rewrite Hpv in Hsrc.
  destruct Hsrc as (line & (it & Hit & _ & -> & Hmv) & ->).
  exists (calc_pv (it_result it)). split; [reflexivity|]. split.
  - clear - Hmv. destruct (vm_mv (it_result it)) as [m|] eqn:Em; [|exfalso; exact (Hmv eq_refl)].
    destruct (calc_pv_head _ _ Em) as (r & Hr). rewrite Hr. intro H0. discriminate H0.
  - pose proof (go_full_legal T good Q H1 H2 H3 K K1 K3 orc K2 g st D Hle Hg HK) as HL.
    rewrite Forall_forall in HL. exact (HL it Hit).
Qed.

End SessionTheorems.

(* ================================================================================================================
   5. from the messages of the search model (Model/UciTx.v) to the calls of `ConsoleUciTx` (Model/ConsoleTx.v)
   ================================================================================================================ *)
Require Ink.Model.ConsoleTx Ink.Spec.UciOut Ink.Proofs.ConsoleOk Ink.Proofs.ConsoleProofs.
Require Import Ink.Proofs.GenShape Ink.Proofs.LayoutProofs Ink.Proofs.Preserve Ink.Proofs.ChessInstance.

(* UciMove { source, target, promote_to }: the search model writes "no promotion" as piece 0 *)
Definition to_mv (u : umove) : ConsoleTx.mv := let '(s, t, p) := u in (s, t, if p =? 0 then None else Some p).
Definition to_score (s : Heuristic.score) : ConsoleTx.score :=
  match s with Cp v => ConsoleTx.Centipawn v | Mate n => ConsoleTx.Mate n end.

(* The `Info` value handed to `UciTx::info`.  Two fields are run-time measurements that the search model does not
   compute: the node rate [nps] and the `debug on` statistics text [dbg]; they are parameters here.  The time is the
   stored clock reading (nanoseconds) as `Duration::as_millis`. *)
Definition to_console (nps : N) (dbg : str) (i : info) : ConsoleTx.info_record :=
  {| ConsoleTx.i_depth := i_depth i; ConsoleTx.i_selective_depth := None;
     ConsoleTx.i_time := option_map (fun ns => ns / 1000000) (i_time i);
     ConsoleTx.i_nodes := i_nodes i;
     ConsoleTx.i_principal_variation := option_map (map to_mv) (i_pv i);
     ConsoleTx.i_multi_pv := None;
     ConsoleTx.i_score := option_map to_score (i_score i);
     ConsoleTx.i_current_move := None; ConsoleTx.i_current_move_number := None;
     ConsoleTx.i_hash_full := i_hashfull i;
     ConsoleTx.i_nps := if i_nps i then Some nps else None;
     ConsoleTx.i_table_hits := None; ConsoleTx.i_shredder_table_hits := None; ConsoleTx.i_cpu_load := None;
     ConsoleTx.i_string := if i_string i then Some dbg else None;
     ConsoleTx.i_refutation := None; ConsoleTx.i_current_line := None |}.

(* the `UciTx` call behind a message of the search (the other messages are not sent during a go) *)
Definition to_tx (nps : N) (dbg : str) (m : omsg) : option ConsoleTx.tx_msg :=
  match m with
  | OInfo i => Some (ConsoleTx.Info (to_console nps dbg i))
  | OBestmove b p => Some (ConsoleTx.BestMove (option_map to_mv b) (option_map to_mv p))
  | OUciOk => Some ConsoleTx.UciOk
  | OReadyOk => Some ConsoleTx.ReadyOk
  | _ => None
  end.

(* the renderer of Model/UciTx.v with the three placeholders as parameters *)
Definition render_info_with (ft : N -> str) (nps dbg : str) (i : info) : str :=
  lit "info"
  ++ UciTx.append_maybe (lit "depth") (option_map show_N (i_depth i))
  ++ UciTx.append_maybe (lit "time") (option_map ft (i_time i))
  ++ UciTx.append_maybe (lit "nodes") (option_map show_N (i_nodes i))
  ++ UciTx.append_maybe (lit "pv") (option_map UciTx.move_array_to_string (i_pv i))
  ++ UciTx.append_maybe (lit "score") (option_map UciTx.score_to_string (i_score i))
  ++ UciTx.append_maybe (lit "hashfull") (option_map show_N (i_hashfull i))
  ++ UciTx.append_maybe (lit "nps") (if i_nps i then Some nps else None)
  ++ UciTx.append_maybe (lit "string") (if i_string i then Some dbg else None).

Lemma uci_render_with i : UciTx.render_info i = render_info_with (fun _ => lit "T") (lit "X") (lit "S") i.
Proof. reflexivity. Qed.

Definition umove_ok (u : umove) : bool := ConsoleOk.mv_ok (to_mv u).

Lemma show_move_agree u : umove_ok u = true -> ConsoleTx.show_move (to_mv u) = show_umove u.
Proof.
  destruct u as [[s t] p]. unfold umove_ok, to_mv, ConsoleOk.mv_ok, show_umove, ConsoleTx.show_move.
  intro H. apply andb_true_iff in H as [H Hp]. apply andb_true_iff in H as [Hs Ht].
  unfold square_str. rewrite Hs, Ht. change (square_text s) with (ConsoleTx.show_square s).
  change (square_text t) with (ConsoleTx.show_square t). f_equal. f_equal.
  destruct (N.eqb_spec p 0) as [->|Hne]; [reflexivity|].
  cbn [ConsoleOk.opt_ok] in Hp. apply andb_true_iff in Hp as [H2 H5]. apply N.leb_le in H2, H5.
  assert (Hc : p = 2 \/ p = 3 \/ p = 4 \/ p = 5) by lia.
  destruct Hc as [ -> | [ -> | [ -> | -> ] ] ]; reflexivity.
Qed.

Lemma move_array_agree l : forallb umove_ok l = true ->
  ConsoleTx.move_array_to_string (map to_mv l) = UciTx.move_array_to_string l.
Proof.
  unfold ConsoleTx.move_array_to_string, UciTx.move_array_to_string. intro H. f_equal. rewrite map_map.
  induction l as [|u r IH]; [reflexivity|]. cbn [forallb] in H. apply andb_true_iff in H as [H1 H2].
  cbn [map]. rewrite (show_move_agree u H1), (IH H2). reflexivity.
Qed.

Lemma score_agree s : ConsoleTx.score_to_string (to_score s) = UciTx.score_to_string s.
Proof. destruct s; reflexivity. Qed.

Lemma console_append acc key v : ConsoleTx.append_maybe acc key v = acc ++ UciTx.append_maybe key v.
Proof. destruct v; cbn [ConsoleTx.append_maybe UciTx.append_maybe]; [reflexivity|rewrite app_nil_r; reflexivity]. Qed.

(* the two renderers are the same function of the placeholders: with the time, the node rate and the statistics text
   filled in, `ConsoleUciTx` prints the line of the search model *)
Lemma console_render_with nps dbg i :
  match i_pv i with Some l => forallb umove_ok l = true | None => True end ->
  ConsoleTx.render_info (to_console nps dbg i) = render_info_with (fun ns => show_N (ns / 1000000)) (show_N nps) dbg i.
Proof.
  intro Hpv. unfold ConsoleTx.render_info, render_info_with. cbv zeta. rewrite !console_append.
  cbn [to_console ConsoleTx.i_depth ConsoleTx.i_selective_depth ConsoleTx.i_time ConsoleTx.i_nodes
       ConsoleTx.i_principal_variation ConsoleTx.i_multi_pv ConsoleTx.i_score ConsoleTx.i_current_move
       ConsoleTx.i_current_move_number ConsoleTx.i_hash_full ConsoleTx.i_nps ConsoleTx.i_table_hits
       ConsoleTx.i_shredder_table_hits ConsoleTx.i_cpu_load ConsoleTx.i_string ConsoleTx.i_refutation
       ConsoleTx.i_current_line option_map UciTx.append_maybe].
  rewrite !app_nil_r, <- !app_assoc.
  assert (E1 : option_map ConsoleTx.move_array_to_string (option_map (map to_mv) (i_pv i)) = option_map UciTx.move_array_to_string (i_pv i)).
  { destruct (i_pv i) as [l|]; [|reflexivity]. cbn [option_map]. rewrite (move_array_agree l Hpv). reflexivity. }
  assert (E2 : option_map ConsoleTx.score_to_string (option_map to_score (i_score i)) = option_map UciTx.score_to_string (i_score i)).
  { destruct (i_score i) as [s|]; [|reflexivity]. cbn [option_map]. rewrite score_agree. reflexivity. }
  assert (E3 : option_map show_N (option_map (fun ns => ns / 1000000) (i_time i)) = option_map (fun ns => show_N (ns / 1000000)) (i_time i)).
  { destruct (i_time i); reflexivity. }
  assert (E4 : option_map show_N (if i_nps i then Some nps else None) = if i_nps i then Some (show_N nps) else None).
  { destruct (i_nps i); reflexivity. }
  rewrite E1, E2, E3, E4. reflexivity.
Qed.

(* for the fields that are values of the model the equation is exact *)
Lemma render_info_exact nps dbg i :
  i_time i = None -> i_nps i = false -> i_string i = false ->
  match i_pv i with Some l => forallb umove_ok l = true | None => True end ->
  ConsoleTx.render_info (to_console nps dbg i) = UciTx.render_info i.
Proof.
  intros H1 H2 H3 Hpv. rewrite (console_render_with nps dbg i Hpv), uci_render_with.
  unfold render_info_with. rewrite H1, H2, H3. reflexivity.
Qed.

Lemma render_bestmove_agree b p : ConsoleOk.opt_ok umove_ok b = true -> ConsoleOk.opt_ok umove_ok p = true ->
  ConsoleTx.render (ConsoleTx.BestMove (option_map to_mv b) (option_map to_mv p)) = Some (UciTx.render_bestmove b p).
Proof.
  intros Hb Hp. unfold ConsoleTx.render, ConsoleTx.tx, UciTx.render_bestmove. f_equal. f_equal.
  destruct b as [b|], p as [p|]; cbn [option_map ConsoleOk.opt_ok] in *;
    rewrite ?(show_move_agree _ Hb), ?(show_move_agree _ Hp); reflexivity.
Qed.

(* ---------- the moves of a legal line are printable UCI moves ---------- *)
Section Shape.
Variable T : Tables.t.
Hypothesis HT : tables_chess_ok T = true.

(* the part of [good_chess] that does not mention the half-move clock; preserved along every legal line *)
Definition pos_ok (b : board) : Prop :=
  wf b = true /\ MakeUnmake.rights_wf b = true /\ Preserve.ep_free b = true /\ is_valid T b = true.

Lemma generated_promo b m : generated T b m -> promo m = 0 \/ promo m = 2 \/ promo m = 3 \/ promo m = 4 \/ promo m = 5.
Proof.
  intros (s & t & pc & ic & ie & pr & epo & Hc & ->). unfold mk. cbv zeta. cbn [promo].
  assert (HP : forall x, In x PROMO_PIECES -> x = 0 \/ x = 2 \/ x = 3 \/ x = 4 \/ x = 5).
  { intros x [<-|[<-|[<-|[<-|[]]]]]; cbv; tauto. }
  destruct Hc; try (left; reflexivity); apply HP; assumption.
Qed.

Lemma generated_umove_ok b m : wf b = true -> In m (gen_pseudo T b) -> umove_ok (uci_of_move m) = true.
Proof.
  intros Hwf Hin. destruct (tables_chess_ok_elim T HT) as (_ & _ & HB & HG & _).
  pose proof (gen_pseudo_cases T b m Hin) as Hgen.
  destruct (generated_in_range T HB HG b m Hwf Hgen) as [_ _ Hs Hd _ _ _ _ _].
  unfold umove_ok, uci_of_move, to_mv, ConsoleOk.mv_ok.
  apply N.ltb_lt in Hs, Hd. rewrite Hs, Hd. cbn [andb].
  destruct (generated_promo b m Hgen) as [-> | [-> | [-> | [-> | ->]]]]; reflexivity.
Qed.

Lemma line_moves_ok line : forall b, pos_ok b -> line_legal T b line -> forallb umove_ok (map uci_of_move line) = true.
Proof.
  destruct (tables_chess_ok_elim T HT) as (HC & OK & HB & HG & HR).
  induction line as [|m r IH]; intros b (Hwf & Hr & Hep & Hv) HL; [reflexivity|].
  cbn [line_legal] in HL. destruct HL as (Hin & b' & Hmk & Hv' & HL').
  cbn [map forallb]. rewrite (generated_umove_ok b m Hwf Hin). cbn [andb].
  destruct (make_preserves T HC OK HB HG HR b m b' Hwf Hr Hep Hv Hin Hmk) as (W & R' & E & _).
  apply (IH b'); [repeat split; assumption|exact HL'].
Qed.

End Shape.

(* ---------- every message of a go is a valid call, and its line is in the grammar ---------- *)
Lemma last_pv_nf_in l pv : last_pv_nf l = Some pv -> exists m, In m l /\ pv_of m = Some pv.
Proof.
  induction l as [|m r IH]; cbn [last_pv_nf]; [discriminate|].
  destruct (pv_of m) as [p|] eqn:Ep.
  - intros [= <-]. exists m. split; [now left|exact Ep].
  - intro H. destruct (IH H) as (m' & Hin & Hm'). exists m'. split; [now right|exact Hm'].
Qed.

Lemma last_pv_in l pv : last_pv l = Some pv -> exists m, In m l /\ pv_of m = Some pv.
Proof.
  rewrite <- (rev_involutive l) at 1. rewrite last_pv_rev. intro H.
  destruct (last_pv_nf_in _ _ H) as (m & Hin & Hm). exists m. split; [apply in_rev; exact Hin|exact Hm].
Qed.

Lemma seqd_time_some orc lo rlo l hi rhi : seqd orc lo rlo l hi rhi ->
  Forall (fun m => match m with OInfo i => i_time i <> None | _ => False end) l.
Proof. induction 1 as [|i l n k hi rhi Hn Ht Hle Hk H IH]; constructor; [rewrite Ht; discriminate|exact IH]. Qed.

Definition pv_printable (m : omsg) : Prop :=
  match pv_of m with Some p => p <> [] /\ forallb umove_ok p = true | None => True end.

Lemma info_msg_ok T nps dbg i :
  i_time i <> None -> pv_printable (OInfo i) -> hf_ok T (OInfo i) -> UciOut.single_line dbg = true ->
  ConsoleOk.msg_ok (ConsoleTx.Info (to_console nps dbg i)) = true.
Proof.
  intros Ht Hpv Hhf Hdbg. cbn [ConsoleOk.msg_ok]. unfold ConsoleOk.info_ok, ConsoleOk.has_field.
  cbn [to_console ConsoleTx.i_depth ConsoleTx.i_selective_depth ConsoleTx.i_time ConsoleTx.i_nodes
       ConsoleTx.i_principal_variation ConsoleTx.i_multi_pv ConsoleTx.i_score ConsoleTx.i_current_move
       ConsoleTx.i_current_move_number ConsoleTx.i_hash_full ConsoleTx.i_nps ConsoleTx.i_table_hits
       ConsoleTx.i_shredder_table_hits ConsoleTx.i_cpu_load ConsoleTx.i_string ConsoleTx.i_refutation
       ConsoleTx.i_current_line].
  destruct (i_time i) as [t|]; [|congruence]. cbn [option_map ConsoleOk.is_some ConsoleOk.opt_ok].
  assert (E1 : ConsoleOk.opt_ok ConsoleOk.mvs_ok (option_map (map to_mv) (i_pv i)) = true).
  { unfold pv_printable in Hpv. cbn [pv_of] in Hpv. destruct (i_pv i) as [p|]; [|reflexivity]. destruct Hpv as [Hne Hall].
    cbn [option_map ConsoleOk.opt_ok]. unfold ConsoleOk.mvs_ok. destruct p as [|u r]; [congruence|]. cbn [map].
    change (forallb ConsoleOk.mv_ok (map to_mv (u :: r)) = true). rewrite forallb_forall. intros x Hx.
    apply in_map_iff in Hx as (y & <- & Hy). rewrite forallb_forall in Hall. exact (Hall y Hy). }
  assert (E2 : ConsoleOk.opt_ok (fun n => n <=? 1000) (i_hashfull i) = true).
  { cbn [hf_ok] in Hhf. destruct (i_hashfull i) as [h|]; [|reflexivity]. destruct Hhf as (len & Hlen & ->).
    cbn [ConsoleOk.opt_ok]. apply N.leb_le. apply hash_full_bound. exact Hlen. }
  assert (E3 : ConsoleOk.opt_ok UciOut.single_line (if i_string i then Some dbg else None) = true).
  { destruct (i_string i); [exact Hdbg|reflexivity]. }
  rewrite E1, E2, E3. destruct (i_depth i); reflexivity.
Qed.

Section OutputShape.
Variable T : Tables.t.

Theorem one_go_output_shape_thm : forall good Q, C03_family T good Q -> forall K, key_family T K ->
  tables_chess_ok T = true ->
  forall orc g st D, (length (fst (go_full T orc g st)) <= D)%nat -> good (D + S Q)%nat (s_board st) ->
  K D (zobrist_hash T (s_board st)) (s_board st) -> pos_ok T (s_board st) ->
  N.of_nat (HashTable.cap tt_entry (s_tt st)) <= tt_capacity T ->
  exists infos best ponder,
    go_msgs T orc g st = infos ++ [OBestmove best ponder] /\ forallb is_info infos = true /\
    forall m, In m (go_msgs T orc g st) -> forall nps dbg, UciOut.single_line dbg = true ->
      exists tm line, to_tx nps dbg m = Some tm /\ ConsoleOk.msg_ok tm = true /\
                      ConsoleTx.render tm = Some line /\ UciOut.engine_line line = true.
Proof.
  intros good Q HC K HK HT orc g st D Hle Hg HKr Hpos Hcap.
  destruct (go_facts_hold T orc g st) as (infos & best & ponder & [Hm _ Hi (lo & rlo & hi & rhi & Hs) _ Hh Hhf Hsrc]).
  specialize (Hhf Hcap).
  assert (Hpp : Forall pv_printable infos).
  { rewrite Forall_forall. intros m Hin. unfold pv_printable. destruct (pv_of m) as [pv|] eqn:Ep; [|exact I].
    destruct m as [i| | | | | | |]; try discriminate. cbn [pv_of] in Ep.
    destruct (pv_legal_thm T good Q HC K HK orc g st D Hle Hg HKr i pv) as (line & -> & Hne & HL);
      [rewrite Hm; apply in_or_app; left; exact Hin|exact Ep|].
    split; [destruct line; [congruence|discriminate]|]. exact (line_moves_ok T HT line (s_board st) Hpos HL). }
  assert (Htime : Forall (fun m => match m with OInfo i => i_time i <> None | _ => False end) infos).
  { rewrite <- (rev_involutive infos). apply Forall_rev. exact (seqd_time_some _ _ _ _ _ _ Hs). }
  exists infos, best, ponder. split; [exact Hm|]. split; [exact Hi|].
  intros m Hin nps dbg Hdbg. rewrite Hm in Hin. apply in_app_or in Hin as [Hin|[<-|[]]].
  - rewrite Forall_forall in Hpp, Htime, Hhf. specialize (Hpp m Hin). specialize (Htime m Hin). specialize (Hhf m Hin).
    destruct m as [i| | | | | | |]; try contradiction. cbn [to_tx].
    assert (Hok : ConsoleOk.msg_ok (ConsoleTx.Info (to_console nps dbg i)) = true) by (apply (info_msg_ok T); assumption).
    do 2 eexists. split; [reflexivity|]. split; [exact Hok|]. split; [reflexivity|].
    eapply ConsoleProofs.render_valid; [exact Hok|reflexivity].
  - cbn [to_tx].
    assert (Hbp : ConsoleOk.opt_ok umove_ok best = true /\ ConsoleOk.opt_ok umove_ok ponder = true).
    { destruct (last_pv infos) as [pv|] eqn:Elp.
      - destruct Hh as (-> & -> & _). destruct (last_pv_in _ _ Elp) as (m & Hin & Hpv).
        rewrite Forall_forall in Hpp. specialize (Hpp m Hin). unfold pv_printable in Hpp. rewrite Hpv in Hpp.
        destruct Hpp as [_ Hall]. rewrite forallb_forall in Hall.
        split; [destruct (nth_error pv 0) eqn:E|destruct (nth_error pv 1) eqn:E]; cbn [ConsoleOk.opt_ok]; try reflexivity;
          apply Hall; eapply nth_error_In; exact E.
      - destruct Hh as [-> ->]. split; reflexivity. }
    destruct Hbp as [Hb Hp].
    assert (Hok : ConsoleOk.msg_ok (ConsoleTx.BestMove (option_map to_mv best) (option_map to_mv ponder)) = true).
    { cbn [ConsoleOk.msg_ok]. destruct best, ponder; cbn [option_map ConsoleOk.opt_ok] in *; unfold umove_ok in *;
        rewrite ?Hb, ?Hp; reflexivity. }
    do 2 eexists. split; [reflexivity|]. split; [exact Hok|]. split; [reflexivity|].
    eapply ConsoleProofs.render_valid; [exact Hok|reflexivity].
Qed.

End OutputShape.

(* ================================================================================================================
   6. the hypotheses are satisfiable: the keyed positions of a family of visited boards without hash collisions,
      and the chess instance of C03_family (Proofs/ChessInstance.v)
   ================================================================================================================ *)
Require Ink.Proofs.ZobristProofs.

(* [V n b]: board b may be visited with n plies of draft left.  The key of a board is its Zobrist hash; the
   incremental update of the search computes it (C06_incremental); no_collision is the last hypothesis. *)
Lemma key_family_of_visited T (V : nat -> board -> Prop) :
  ZobristProofs.keys_rows_ok T = true -> ZobristProofs.gen_masks_ok T = true ->
  (forall n b, V n b -> wf b = true /\ ZobristProofs.castle_wf b = true /\ ZobristProofs.ep_wf b = true) ->
  (forall n b m b', V (S n) b -> In m (gen_pseudo T b) -> make b m = Some b' -> is_valid T b' = true -> V n b') ->
  (forall n b, V (S n) b -> V n b) ->
  (forall n1 n2 b1 b2, V n1 b1 -> V n2 b2 -> zobrist_hash T b1 = zobrist_hash T b2 -> b1 = b2) ->
  key_family T (fun n zh b => zh = zobrist_hash T b /\ V n b).
Proof.
  intros Hrows Hmask Hwf Hstep Hmono Hinj. split; [|split].
  - intros n zh b m b' [-> HV] Hin Hmk Hv. split; [|exact (Hstep n b m b' HV Hin Hmk Hv)].
    destruct (Hwf _ _ HV) as (W & C & E).
    destruct (ZobristProofs.xor_no_panic T b m W C Hmask Hin) as (dx & dp & Hx).
    unfold zx_of. rewrite Hx.
    symmetry. exact (proj1 (ZobristProofs.incremental T b m b' dx dp Hrows Hmask W C E Hin Hmk Hx)).
  - intros n zh b [-> HV]. split; [reflexivity|exact (Hmono n b HV)].
  - intros n1 n2 zh b1 b2 [-> H1] [E H2]. exact (Hinj n1 n2 b1 b2 H1 H2 E).
Qed.

Lemma good_chess_pos_ok T n b : good_chess T n b -> pos_ok T b.
Proof. intros (H1 & H2 & H3 & H4 & _). repeat split; assumption. Qed.

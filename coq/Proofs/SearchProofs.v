(* Structural theorems about the search model (Model/Search.v): properties C09 and C07.
   Everything here holds for EVERY oracle: any abort point, any inbox, any clock. *)
Require Import Ink.Lib.Str.
Require Import NArith ZArith List Bool Lia Arith.
Require Import Ink.Lib.Bits Ink.Model.Tables Ink.Model.Board Ink.Model.Fen Ink.Model.Notation Ink.Model.History.
Require Import Ink.Model.Heuristic Ink.Model.UciTx Ink.Model.Search.
Require Ink.Model.HashTable.
Require Import Ink.Proofs.HashTableProofs.
Import ListNotations.
Open Scope N_scope.

Arguments N.add : simpl never.
Arguments N.sub : simpl never.
Arguments N.mul : simpl never.
Arguments N.div : simpl never.
Arguments N.modulo : simpl never.
Arguments N.eqb : simpl never.
Arguments N.ltb : simpl never.
Arguments N.leb : simpl never.
Arguments Z.add : simpl never.
Arguments Z.mul : simpl never.
Arguments Z.opp : simpl never.
Arguments Z.max : simpl never.
Arguments Z.ltb : simpl never.
Arguments Z.leb : simpl never.

(* projections through the setters *)
Ltac sproj := cbn [s_board s_tt s_killers s_history s_pv s_nm_nodes s_q_nodes s_stop s_quit s_reset_next s_ponder_hit
                   s_go s_pmoves s_debug s_try_prev_pv s_contempt s_out s_drains s_reads s_panicked s_fuel_out
                   set_board set_tt set_killers set_history set_pv set_nm_nodes set_q_nodes set_stop set_quit
                   set_reset_next set_ponder_hit set_go set_pmoves set_debug set_try_prev_pv set_contempt set_out
                   set_drains set_reads set_panicked set_fuel_out emit fst snd] in *.

(* ---------- the capture generator only produces moves of the full generator ---------- *)
Section Gen.
Variable T : Tables.t.

Lemma incl_flat_map {A B} (f g : A -> list B) l : (forall x, incl (f x) (g x)) -> incl (flat_map f l) (flat_map g l).
Proof.
  intros H y Hy. apply in_flat_map in Hy as (x & Hx & Hy). apply in_flat_map. exists x. split; [assumption|]. now apply H.
Qed.

Lemma make_move_nq_incl b s t p c e pr epo :
  incl (make_move T b true s t p c e pr epo) (make_move T b false s t p c e pr epo).
Proof.
  unfold make_move. cbv zeta. rewrite andb_false_r, andb_true_r.
  destruct ((_ =? NO_PIECE) && (pr =? NO_PIECE)); [intros x []|apply incl_refl].
Qed.

Lemma gen_attacks_nq_incl b s occ p : incl (gen_attacks T b true s occ p) (gen_attacks T b false s occ p).
Proof. unfold gen_attacks. apply incl_flat_map. intro. apply make_move_nq_incl. Qed.

Lemma gen_nonquiet_incl b m : In m (gen_nonquiet T b) -> In m (gen_pseudo T b).
Proof.
  unfold gen_nonquiet, gen_pseudo. intro H. apply in_or_app. left. revert H. unfold gen_common. cbv zeta.
  rewrite !in_app_iff.
  assert (Hs : forall po ao fo lk pc, incl (sliding_moves T b true po ao fo lk pc) (sliding_moves T b false po ao fo lk pc)).
  { intros. unfold sliding_moves. apply incl_flat_map. intro. apply gen_attacks_nq_incl. }
  assert (Hl : forall po ao tbl pc, incl (single_moves T b true po ao tbl pc) (single_moves T b false po ao tbl pc)).
  { intros. unfold single_moves. apply incl_flat_map. intro. apply gen_attacks_nq_incl. }
  assert (Hp : forall po fo, incl (pawn_moves T b true po fo) (pawn_moves T b false po fo)).
  { intros. unfold pawn_moves. cbv zeta. apply incl_flat_map. intro x.
    destruct (nz _); [apply incl_refl|]. destruct (nz _); [apply incl_refl|].
    apply incl_app_app; [apply make_move_nq_incl|].
    destruct (_ && _); [apply make_move_nq_incl|apply incl_refl]. }
  intros [H|[H|[H|[H|[H|[H|[H|H]]]]]]].
  - left. now apply Hs.
  - right; left. now apply Hs.
  - right; right; left. now apply Hs.
  - right; right; right; left. now apply Hs.
  - right; right; right; right; left. now apply Hl.
  - right; right; right; right; right; left. now apply Hl.
  - right; right; right; right; right; right; left. exact H.
  - right; right; right; right; right; right; right. now apply Hp.
Qed.

End Gen.

(* ---------- the frame: what a search may do to the state ---------- *)
Definition is_info (m : omsg) : bool := match m with OInfo _ => true | _ => false end.

(* [outs st st']: st' has emitted only `info` messages on top of st *)
Definition outs (st st' : sstate) : Prop := exists l, s_out st' = l ++ s_out st /\ forallb is_info l = true.
(* [ext st st']: same board, only `info` messages emitted *)
Definition ext (st st' : sstate) : Prop := s_board st' = s_board st /\ outs st st'.

Lemma outs_refl st : outs st st.
Proof. exists []. split; reflexivity. Qed.
Lemma outs_trans a b c : outs a b -> outs b c -> outs a c.
Proof.
  intros (l1 & H1 & F1) (l2 & H2 & F2). exists (l2 ++ l1). split.
  - rewrite H2, H1. apply app_assoc.
  - rewrite forallb_app, F1, F2. reflexivity.
Qed.
Lemma outs_eq a b : s_out b = s_out a -> outs a b.
Proof. intro H. exists []. split; [exact H|reflexivity]. Qed.
Lemma ext_refl st : ext st st.
Proof. split; [reflexivity|apply outs_refl]. Qed.
Lemma ext_trans a b c : ext a b -> ext b c -> ext a c.
Proof. intros [B1 O1] [B2 O2]. split; [congruence|eapply outs_trans; eassumption]. Qed.
Lemma ext_eq a b : s_board b = s_board a -> s_out b = s_out a -> ext a b.
Proof. intros H1 H2. split; [exact H1|now apply outs_eq]. Qed.

Lemma sort_moves_in l pv tt k m : In m (sort_moves l pv tt k) -> In m l.
Proof.
  unfold sort_moves. generalize (order_key pv tt k). intro key. induction l as [|x r IH]; cbn [fold_right]; [tauto|].
  assert (Hins : forall y acc, In m (insert_desc key y acc) -> m = y \/ In m acc).
  { intros y acc. induction acc as [|z acc IHa]; cbn [insert_desc].
    - intros [->|[]]. now left.
    - destruct (key y <? key z)%Z.
      + intros [->|H]; [right; now left|]. destruct (IHa H); [now left|right; now right].
      + intros [->|H]; [now left|now right]. }
  intro H. apply Hins in H as [->|H]; [now left|right; auto].
Qed.


Lemma insert_desc_length key x l : length (insert_desc key x l) = S (length l).
Proof. induction l as [|y r IH]; cbn [insert_desc]; [reflexivity|]. destruct (key x <? key y)%Z; cbn [length]; [now rewrite IH|reflexivity]. Qed.
Lemma sort_moves_length l pv tt k : length (sort_moves l pv tt k) = length l.
Proof. unfold sort_moves. induction l as [|x r IH]; cbn [fold_right length]; [reflexivity|]. now rewrite insert_desc_length, IH. Qed.

(* ---------- fields no part of the capture search touches ---------- *)
Definition qframe (st st' : sstate) : Prop :=
  s_tt st' = s_tt st /\ s_nm_nodes st' = s_nm_nodes st /\ s_stop st' = s_stop st /\ s_go st' = s_go st.
Lemma qframe_refl st : qframe st st.
Proof. repeat split. Qed.
Lemma qframe_trans a b c : qframe a b -> qframe b c -> qframe a c.
Proof. intros (A1 & A2 & A3 & A4) (B1 & B2 & B3 & B4). repeat split; congruence. Qed.
Lemma do_unmake_qframe st m : qframe st (do_unmake st m).
Proof. unfold do_unmake. destruct (unmake _ _); repeat split. Qed.

(* ---------- the transposition table: every stored draft is bounded ---------- *)
Definition tt_le (n : N) (t : HashTable.ht tt_entry) : Prop :=
  forall k e, HashTable.get tt_entry t k = Some e -> te_depth e <= n.

Lemma tt_le_clear n t : tt_le n (HashTable.clear tt_entry t).
Proof. intros k e. unfold HashTable.get, HashTable.clear. cbn. discriminate. Qed.
Lemma tt_le_mono n m t : n <= m -> tt_le n t -> tt_le m t.
Proof. intros H Ht k e He. specialize (Ht k e He). lia. Qed.

Lemma get_tt_put t k e k' e' :
  HashTable.get tt_entry (tt_put t k e) k' = Some e' -> e' = e \/ HashTable.get tt_entry t k' = Some e'.
Proof.
  unfold tt_put, HashTable.put, HashTable.get.
  assert (Hins : forall x, HashTable.find tt_entry k' (HashTable.insert tt_entry k e (HashTable.m tt_entry t)) = Some x ->
                           x = e \/ HashTable.find tt_entry k' (HashTable.m tt_entry t) = Some x).
  { intro x. unfold HashTable.insert. cbn [HashTable.find]. destruct (N.eqb_spec k' k) as [->|Hne].
    - intros [= <-]. now left.
    - rewrite find_remove_other by exact Hne. now right. }
  destruct (Nat.ltb _ _).
  - cbv zeta. match goal with |- context [match ?q with [] => None | _ :: _ => _ end] => destruct q as [|h tl] end; [intro H0; now right|].
    cbn [HashTable.m]. intro H. apply Hins. destruct (N.eq_dec k' h) as [->|Hne].
    + rewrite find_remove_same in H. discriminate.
    + rewrite find_remove_other in H by exact Hne. exact H.
  - cbn [HashTable.m]. apply Hins.
Qed.

Lemma tt_le_put n t k e : tt_le n t -> te_depth e <= n -> tt_le n (tt_put t k e).
Proof. intros Ht He k' e' H. apply get_tt_put in H as [->|H]; [exact He|exact (Ht k' e' H)]. Qed.

(* same search parameters, and the bound on the stored drafts survives *)
Definition inv2 (n : N) (st st' : sstate) : Prop := s_go st' = s_go st /\ (tt_le n (s_tt st) -> tt_le n (s_tt st')).
Lemma inv2_refl n st : inv2 n st st.
Proof. split; [reflexivity|tauto]. Qed.
Lemma inv2_trans n a b c : inv2 n a b -> inv2 n b c -> inv2 n a c.
Proof. intros [A1 A2] [B1 B2]. split; [congruence|tauto]. Qed.
Lemma inv2_eq n a b : s_go b = s_go a -> s_tt b = s_tt a -> inv2 n a b.
Proof. intros H1 H2. split; [exact H1|]. rewrite H2. tauto. Qed.
Lemma qframe_inv2 n a b : qframe a b -> inv2 n a b.
Proof. intros (H1 & _ & _ & H4). apply inv2_eq; assumption. Qed.

Section Main.
Variable T : Tables.t.

(* C03 (make and unmake are inverse) is taken as a hypothesis on an indexed family of boards:
   [good n b] = "b, and every board reached from b within n plies, is a board on which C03 holds".
   The index is needed because NO set of boards that is closed under make can satisfy C03: the previous half-move
   clock is a 12-bit field of Move, so unmake restores `clock mod 4096` (Properties/C03.v:
   C03_halfmove_refuted_at_4096).  Only children that pass `is_valid` have to be good again: a child that leaves
   the king in check is taken back at once, and from such a board the generator may capture a king.
   Intended instance: good n b := wf b /\ rights_wf b /\ is_valid T b = true /\ half b + n < 4096, with
   C03_unmake_make for the inverse part.  [Q] bounds the depth of the capture search. *)
Variable good : nat -> board -> Prop.
Variable Q : nat.
Hypothesis inverse : forall n b m, good (S n) b -> In m (gen_pseudo T b) ->
  exists b', make b m = Some b' /\ unmake b' m = Some b /\ (is_valid T b' = true -> good n b').
Hypothesis good_mono : forall n b, good (S n) b -> good n b.
Hypothesis qfuel_bound : forall n b, good n b -> (qfuel b <= Q)%nat.

Lemma good_le n m b : (m <= n)%nat -> good n b -> good m b.
Proof. induction 1 as [|k Hle IH]; [tauto|]. intro H. apply IH. now apply good_mono. Qed.

Lemma do_unmake_spec st m b :
  unmake (s_board st) m = Some b -> s_board (do_unmake st m) = b /\ s_out (do_unmake st m) = s_out st.
Proof. unfold do_unmake. intros ->. split; reflexivity. Qed.

(* ---------- the capture search ---------- *)
Lemma qs_loop_ext (rec : Z -> Z -> N -> sstate -> vmove * sstate) n :
  (forall a b z st, good n (s_board st) -> ext st (snd (rec a b z st))) ->
  forall moves b, good (S n) b -> (forall m, In m moves -> In m (gen_pseudo T b)) ->
  forall beta zph alpha bm bc st, s_board st = b ->
  ext st (snd (qs_loop T rec moves beta zph alpha bm bc st)).
Proof.
  intros Hrec moves b Hgood. induction moves as [|mv rest IH]; intros Hin beta zph alpha bm bc st Hb; cbn [qs_loop].
  - apply ext_refl.
  - assert (Hmv : In mv (gen_pseudo T b)) by (apply Hin; now left).
    assert (Hrest : forall m, In m rest -> In m (gen_pseudo T b)) by (intros; apply Hin; now right).
    destruct (inverse n b mv Hgood Hmv) as (b1 & Hmk & Hun & Hg1).
    rewrite Hb, Hmk.
    destruct (is_valid T b1) eqn:Hv; cbn [negb].
    + (* legal: recurse, take back *)
      set (st2 := set_q_nodes (set_board st b1) (s_q_nodes (set_board st b1) + 1)).
      assert (E2 : exists zpx st3, (match zobrist_xor T mv with Some (_, p) => (p, st2) | None => (0, set_panicked st2 true) end) = (zpx, st3)
                                   /\ s_board st3 = b1 /\ s_out st3 = s_out st).
      { destruct (zobrist_xor T mv) as [[x p]|]; eexists; eexists; (split; [reflexivity|split; reflexivity]). }
      destruct E2 as (zpx & st3 & -> & B3 & O3).
      destruct (rec (- beta)%Z (- alpha)%Z (N.lxor zph zpx) st3) as [child st4] eqn:Er.
      assert (E4 : ext st3 st4).
      { pose proof (Hrec (- beta)%Z (- alpha)%Z (N.lxor zph zpx) st3) as H. rewrite Er in H. apply H.
        rewrite B3. exact (Hg1 eq_refl). }
      destruct E4 as [B4 O4].
      assert (Hun4 : unmake (s_board st4) mv = Some b) by (rewrite B4, B3; exact Hun).
      destruct (do_unmake_spec st4 mv b Hun4) as [B5 O5].
      assert (E5 : ext st (do_unmake st4 mv)).
      { split; [congruence|]. eapply outs_trans; [|apply outs_eq; exact O5].
        eapply outs_trans; [apply outs_eq; exact O3|exact O4]. }
      destruct (beta <=? - vm_value child)%Z; [exact E5|].
      destruct (alpha <? - vm_value child)%Z; (eapply ext_trans; [exact E5|apply IH; assumption]).
    + (* leaves the king in check: take back, next move *)
      assert (Hun1 : unmake (s_board (set_board st b1)) mv = Some b) by exact Hun.
      destruct (do_unmake_spec (set_board st b1) mv b Hun1) as [B1 O1].
      eapply ext_trans; [|apply IH; assumption].
      apply ext_eq; [congruence|exact O1].
Qed.

Lemma quiescence_ext fuel : forall alpha beta zph st, good fuel (s_board st) ->
  ext st (snd (quiescence T fuel alpha beta zph st)).
Proof.
  induction fuel as [|k IH]; intros alpha beta zph st Hg; cbn [quiescence].
  - apply ext_eq; reflexivity.
  - cbv zeta. destruct (beta <=? _)%Z; [apply ext_refl|].
    apply (qs_loop_ext (quiescence T k) k IH) with (b := s_board st); [assumption| |reflexivity].
    intros m Hm. apply gen_nonquiet_incl. eapply sort_moves_in. exact Hm.
Qed.

(* ---------- the main search ---------- *)
Section WithOracle.
Variable orc : oracle.

Lemma fold_apply_msg l : forall st,
  s_board (fold_left apply_msg l st) = s_board st /\ s_out (fold_left apply_msg l st) = s_out st.
Proof.
  induction l as [|m r IH]; intro st; cbn [fold_left]; [split; reflexivity|].
  destruct (IH (apply_msg st m)) as [B O]. rewrite B, O. destruct m; split; reflexivity.
Qed.

Lemma check_messages_frame st :
  s_board (check_messages orc st) = s_board st /\ s_out (check_messages orc st) = s_out st.
Proof. unfold check_messages. sproj. apply fold_apply_msg. Qed.

Lemma generate_info_frame st :
  s_board (snd (generate_info T orc st)) = s_board st /\ s_out (snd (generate_info T orc st)) = s_out st.
Proof. unfold generate_info, read_clock. sproj. split; reflexivity. Qed.

Lemma poll_block_ext st : ext st (snd (poll_block T orc st)).
Proof.
  unfold poll_block. destruct (should_check_flags orc st); [|apply ext_refl].
  destruct (check_messages_frame st) as [B1 O1].
  set (st1 := check_messages orc st) in *.
  assert (E2 : forall early st2,
             (match abort_at orc with
              | Some (n, mode) => if n =? s_nm_nodes st1 then (mode =? 1, set_stop st1 true) else (false, st1)
              | None => (false, st1) end) = (early, st2) -> s_board st2 = s_board st /\ s_out st2 = s_out st).
  { intros early st2. destruct (abort_at orc) as [[n mode]|]; [destruct (n =? s_nm_nodes st1)|]; intros [= _ <-]; split; assumption. }
  destruct (match abort_at orc with Some _ => _ | None => _ end) as [early st2] eqn:Ea.
  destruct (E2 _ _ eq_refl) as [B2 O2].
  destruct early; [apply ext_eq; assumption|].
  unfold read_clock at 1. cbv zeta.
  set (st3 := set_reads st2 (S (s_reads st2))).
  destruct (generate_info T orc st3) as [[nodes hf] st4] eqn:Eg.
  pose proof (generate_info_frame st3) as [B4 O4]. rewrite Eg in B4, O4. cbn [snd] in B4, O4.
  assert (E5 : forall i, ext st (emit st4 (OInfo i))).
  { intro i. subst st3. sproj. split; [sproj; congruence|]. exists [OInfo i]. split; [|reflexivity]. sproj. rewrite O4. now rewrite O2. }
  destruct (g_movetime (s_go (emit st4 _))) as [mt|]; [|apply E5].
  unfold read_clock. sproj. destruct (mt <? _); cbn [snd]; apply (E5 _).
Qed.

Lemma filter_search_moves_in st l m : In m (filter_search_moves st l) -> In m l.
Proof. unfold filter_search_moves. destruct (g_searchmoves (s_go st)); [tauto|]. intro H. apply filter_In in H. tauto. Qed.

Lemma node_prelude_ext ply rd a0 b0 zh st :
  let r := node_prelude T orc ply rd a0 b0 zh st in
  ext st (snd r) /\
  (forall alpha beta ttm buffer, fst r = PreGo alpha beta ttm buffer -> forall m, In m buffer -> In m (gen_pseudo T (s_board st))).
Proof.
  unfold node_prelude. pose proof (poll_block_ext st) as Hp.
  destruct (poll_block T orc st) as [[r|] st1]; cbn [snd] in Hp.
  - cbn [fst snd]. split; [exact Hp|discriminate].
  - cbv zeta. sproj. destruct (visit _ _ _ _ _) as [h' rep].
    assert (E3 : ext st (set_history (set_nm_nodes st1 (s_nm_nodes st1 + 1)) h')).
    { eapply ext_trans; [exact Hp|]. apply ext_eq; reflexivity. }
    destruct Hp as [B1 _].
    destruct rep; [cbn [fst snd]; split; [exact E3|discriminate]|].
    destruct (tt_probe _ _ _ _ _) as [r|[[alpha beta] ttm]]; [cbn [fst snd]; split; [exact E3|discriminate]|].
    destruct ((ply =? 0) && is_nil _); cbn [fst snd]; (split; [exact E3|]); [discriminate|].
    intros alpha' beta' ttm' buffer [= _ _ _ <-] m Hm. rewrite <- B1.
    destruct (ply =? 0); [eapply filter_search_moves_in; exact Hm|exact Hm].
Qed.

Lemma any_move_legal_ext moves : forall b, good 1 b -> (forall m, In m moves -> In m (gen_pseudo T b)) ->
  forall st, s_board st = b -> ext st (snd (any_move_legal T moves st)).
Proof.
  intros b Hg. induction moves as [|mv rest IH]; intros Hin st Hb; cbn [any_move_legal]; [apply ext_refl|].
  destruct (inverse 0%nat b mv Hg (Hin mv (or_introl eq_refl))) as (b1 & Hmk & Hun & _).
  rewrite Hb, Hmk. cbv zeta.
  assert (Hun1 : unmake (s_board (set_board st b1)) mv = Some b) by exact Hun.
  destruct (do_unmake_spec (set_board st b1) mv b Hun1) as [B1 O1].
  assert (E1 : ext st (do_unmake (set_board st b1) mv)) by (apply ext_eq; [congruence|exact O1]).
  destruct (is_valid T b1); [exact E1|].
  eapply ext_trans; [exact E1|]. apply IH; [intros; apply Hin; now right|exact B1].
Qed.

Lemma leaf_node_ext color alpha beta zph buffer st :
  good (S Q) (s_board st) -> (forall m, In m buffer -> In m (gen_pseudo T (s_board st))) ->
  ext st (snd (leaf_node T color alpha beta zph buffer st)).
Proof.
  intros Hg Hin. unfold leaf_node.
  assert (Hg1 : good 1 (s_board st)) by (eapply good_le; [|exact Hg]; lia).
  pose proof (any_move_legal_ext buffer (s_board st) Hg1 Hin st eq_refl) as E1.
  destruct (any_move_legal T buffer st) as [legal st1]. cbn [snd] in E1.
  destruct (legal && _); [|exact E1].
  eapply ext_trans; [exact E1|]. apply quiescence_ext.
  destruct E1 as [B1 _]. rewrite B1.
  eapply good_le; [|exact Hg]. pose proof (qfuel_bound _ _ Hg). lia.
Qed.

(* what the move loop knows about its best move: it passed `is_valid` and belongs to the list being searched *)
Definition legal_at (U : move -> Prop) (b : board) (om : option move) : Prop :=
  match om with None => True | Some m => U m /\ is_move_legal T b m = true end.
Definition loop_legal (U : move -> Prop) (b : board) (r : loop_res) : Prop :=
  match r with LReturn v => vm_mv v = None | LDone _ bm _ _ => legal_at U b bm end.

Lemma nm_loop_ext (rec : Z -> Z -> bool -> N -> N -> sstate -> vmove * sstate) n (U : move -> Prop) :
  (forall a b pv z zp st, good n (s_board st) -> ext st (snd (rec a b pv z zp st))) ->
  forall moves b, good (S n) b -> (forall m, In m moves -> In m (gen_pseudo T b) /\ U m) ->
  forall ispv pvm zh zph rd beta alpha bv bm bc lg st, s_board st = b -> legal_at U b bm ->
  ext st (snd (nm_loop T rec moves ispv pvm zh zph rd beta alpha bv bm bc lg st)) /\
  loop_legal U b (fst (nm_loop T rec moves ispv pvm zh zph rd beta alpha bv bm bc lg st)).
Proof.
  intros Hrec moves b Hgood. induction moves as [|mv rest IH]; intros Hin ispv pvm zh zph rd beta alpha bv bm bc lg st Hb Hbm; cbn [nm_loop].
  - split; [apply ext_refl|exact Hbm].
  - destruct (Hin mv (or_introl eq_refl)) as [Hmv HU].
    assert (Hrest : forall m, In m rest -> In m (gen_pseudo T b) /\ U m) by (intros; apply Hin; now right).
    destruct (inverse n b mv Hgood Hmv) as (b1 & Hmk & Hun & Hg1).
    rewrite Hb, Hmk.
    destruct (is_valid T b1) eqn:Hv; cbn [negb].
    + assert (E2 : exists zx zpx st2, (match zobrist_xor T mv with Some (x, p) => (x, p, set_board st b1) | None => (0, 0, set_panicked (set_board st b1) true) end) = (zx, zpx, st2)
                                   /\ s_board st2 = b1 /\ s_out st2 = s_out st).
      { destruct (zobrist_xor T mv) as [[x p]|]; do 3 eexists; (split; [reflexivity|split; reflexivity]). }
      destruct E2 as (zx & zpx & st2 & -> & B2 & O2).
      destruct (rec (- beta)%Z (- alpha)%Z (ispv && opt_move_eqb pvm mv) (N.lxor zh zx) (N.lxor zph zpx) st2) as [child st3] eqn:Er.
      assert (E3 : ext st2 st3).
      { pose proof (Hrec (- beta)%Z (- alpha)%Z (ispv && opt_move_eqb pvm mv) (N.lxor zh zx) (N.lxor zph zpx) st2) as H.
        rewrite Er in H. apply H. rewrite B2. exact (Hg1 eq_refl). }
      destruct E3 as [B3 O3].
      assert (Hun3 : unmake (s_board st3) mv = Some b) by (rewrite B3, B2; exact Hun).
      destruct (do_unmake_spec st3 mv b Hun3) as [B4 O4].
      assert (E4 : ext st (do_unmake st3 mv)).
      { split; [congruence|]. eapply outs_trans; [|apply outs_eq; exact O4].
        eapply outs_trans; [apply outs_eq; exact O2|exact O3]. }
      assert (Hlegal : legal_at U b (Some mv)).
      { split; [exact HU|]. unfold is_move_legal. rewrite Hmk. exact Hv. }
      destruct (s_stop st3); [split; [exact E4|reflexivity]|].
      destruct (bv <? - vm_value child)%Z; cbv zeta iota beta.
      * destruct (beta <=? _)%Z.
        -- cbn [fst snd]. split; [|exact Hlegal]. eapply ext_trans; [exact E4|]. apply ext_eq; reflexivity.
        -- match goal with |- ext st (snd ?r) /\ _ => destruct (IH Hrest ispv pvm zh zph rd beta (Z.max alpha (- vm_value child)) (- vm_value child)%Z (Some mv) (Some child) true (do_unmake st3 mv) B4 Hlegal) as [I1 I2] end.
           split; [eapply ext_trans; [exact E4|exact I1]|exact I2].
      * destruct (beta <=? _)%Z.
        -- cbn [fst snd]. split; [|exact Hbm]. eapply ext_trans; [exact E4|]. apply ext_eq; reflexivity.
        -- destruct (IH Hrest ispv pvm zh zph rd beta (Z.max alpha bv) bv bm bc true (do_unmake st3 mv) B4 Hbm) as [I1 I2].
           split; [eapply ext_trans; [exact E4|exact I1]|exact I2].
    + assert (Hun1 : unmake (s_board (set_board st b1)) mv = Some b) by exact Hun.
      destruct (do_unmake_spec (set_board st b1) mv b Hun1) as [B1 O1].
      destruct (IH Hrest ispv pvm zh zph rd beta alpha bv bm bc lg (do_unmake (set_board st b1) mv) B1 Hbm) as [I1 I2].
      split; [|exact I2]. eapply ext_trans; [|exact I1].
      apply ext_eq; [congruence|exact O1].
Qed.

Lemma interior_node_ext rec n (U : move -> Prop) :
  (forall a b pv z zp st, good n (s_board st) -> ext st (snd (rec a b pv z zp st))) ->
  forall color ply rd a0 ispv zh zph alpha beta ttm buffer st,
  good (S n) (s_board st) -> (forall m, In m buffer -> In m (gen_pseudo T (s_board st)) /\ U m) ->
  ext st (snd (interior_node T rec color ply rd a0 ispv zh zph alpha beta ttm buffer st)) /\
  legal_at U (s_board st) (vm_mv (fst (interior_node T rec color ply rd a0 ispv zh zph alpha beta ttm buffer st))).
Proof.
  intros Hrec color ply rd a0 ispv zh zph alpha beta ttm buffer st Hg Hin. unfold interior_node. cbv zeta.
  match goal with |- context [nm_loop T rec ?mv ?a ?b ?c ?d ?e ?f ?g ?h ?i ?j ?k st] =>
    pose proof (nm_loop_ext rec n U Hrec mv (s_board st) Hg) as HL; specialize (fun H => HL H a b c d e f g h i j k st eq_refl I);
    destruct (nm_loop T rec mv a b c d e f g h i j k st) as [[r|bv bm bc lg] st4] end;
  cbn [fst snd] in HL.
  - destruct HL as [E4 L4]; [intros m Hm; apply Hin; eapply sort_moves_in; exact Hm|].
    cbn [fst snd]. split; [exact E4|]. cbn [loop_legal] in L4. rewrite L4. exact I.
  - destruct HL as [E4 L4]; [intros m Hm; apply Hin; eapply sort_moves_in; exact Hm|].
    cbn [loop_legal] in L4.
    destruct (negb lg); [cbn [fst snd]; split; [exact E4|exact I]|].
    destruct (negb _); cbn [fst snd vm_mv]; (split; [|exact L4]); [|exact E4].
    eapply ext_trans; [exact E4|apply ext_eq; reflexivity].
Qed.

(* C09, search_negamax: for every oracle the board comes back *)
Lemma negamax_ext d : forall ply a0 b0 ispv zh zph st, good (d + S Q) (s_board st) ->
  ext st (snd (negamax T orc d ply a0 b0 ispv zh zph st)).
Proof.
  induction d as [|d' IH]; intros ply a0 b0 ispv zh zph st Hg; cbn [negamax]; cbv zeta;
  (match goal with |- context [node_prelude T orc ply ?rd a0 b0 zh st] =>
     pose proof (node_prelude_ext ply rd a0 b0 zh st) as [E3 Hbuf];
     destruct (node_prelude T orc ply rd a0 b0 zh st) as [[r|alpha beta ttm buffer] st3] end);
  cbn [fst snd] in E3, Hbuf; try exact E3.
  - eapply ext_trans; [exact E3|]. destruct E3 as [B3 _]. apply leaf_node_ext.
    + rewrite B3. exact Hg.
    + rewrite B3. eapply Hbuf. reflexivity.
  - eapply ext_trans; [exact E3|]. destruct E3 as [B3 _].
    apply (interior_node_ext (negamax T orc d' (ply + 1)) (d' + S Q)%nat (fun _ => True)).
    + intros. apply IH. assumption.
    + rewrite B3. exact Hg.
    + rewrite B3. intros m Hm. split; [|exact I]. eapply Hbuf; [reflexivity|exact Hm].
Qed.

(* ---------- the same walk once more, without any hypothesis: a search only ever emits `info` ---------- *)
Lemma do_unmake_out st m : s_out (do_unmake st m) = s_out st.
Proof. unfold do_unmake. destruct (unmake _ _); reflexivity. Qed.

Lemma qs_loop_outs (rec : Z -> Z -> N -> sstate -> vmove * sstate) :
  (forall a b z st, outs st (snd (rec a b z st))) ->
  forall moves beta zph alpha bm bc st, outs st (snd (qs_loop T rec moves beta zph alpha bm bc st)).
Proof.
  intros Hrec moves. induction moves as [|mv rest IH]; intros beta zph alpha bm bc st; cbn [qs_loop]; [apply outs_refl|].
  destruct (make (s_board st) mv) as [b1|].
  - destruct (is_valid T b1); cbn [negb].
    + set (st2 := set_q_nodes (set_board st b1) (s_q_nodes (set_board st b1) + 1)).
      assert (E2 : exists zpx st3, (match zobrist_xor T mv with Some (_, p) => (p, st2) | None => (0, set_panicked st2 true) end) = (zpx, st3)
                                   /\ s_out st3 = s_out st).
      { destruct (zobrist_xor T mv) as [[x p]|]; eexists; eexists; (split; reflexivity). }
      destruct E2 as (zpx & st3 & -> & O3).
      pose proof (Hrec (- beta)%Z (- alpha)%Z (N.lxor zph zpx) st3) as O4.
      destruct (rec (- beta)%Z (- alpha)%Z (N.lxor zph zpx) st3) as [child st4]. cbn [snd] in O4.
      assert (E5 : outs st (do_unmake st4 mv)).
      { eapply outs_trans; [|apply outs_eq; apply do_unmake_out]. eapply outs_trans; [apply outs_eq; exact O3|exact O4]. }
      destruct (beta <=? - vm_value child)%Z; [exact E5|].
      destruct (alpha <? - vm_value child)%Z; (eapply outs_trans; [exact E5|apply IH]).
    + eapply outs_trans; [|apply IH]. apply outs_eq. rewrite do_unmake_out. reflexivity.
  - eapply outs_trans; [|apply IH]. apply outs_eq. reflexivity.
Qed.

Lemma quiescence_outs fuel : forall alpha beta zph st, outs st (snd (quiescence T fuel alpha beta zph st)).
Proof.
  induction fuel as [|k IH]; intros alpha beta zph st; cbn [quiescence]; [apply outs_eq; reflexivity|].
  cbv zeta. destruct (beta <=? _)%Z; [apply outs_refl|]. apply qs_loop_outs. exact IH.
Qed.

Lemma any_move_legal_outs moves : forall st, outs st (snd (any_move_legal T moves st)).
Proof.
  induction moves as [|mv rest IH]; intro st; cbn [any_move_legal]; [apply outs_refl|].
  destruct (make (s_board st) mv) as [b1|].
  - cbv zeta. assert (E1 : outs st (do_unmake (set_board st b1) mv)) by (apply outs_eq; rewrite do_unmake_out; reflexivity).
    destruct (is_valid T b1); [exact E1|]. eapply outs_trans; [exact E1|apply IH].
  - eapply outs_trans; [|apply IH]. apply outs_eq. reflexivity.
Qed.

Lemma leaf_node_outs color alpha beta zph buffer st : outs st (snd (leaf_node T color alpha beta zph buffer st)).
Proof.
  unfold leaf_node. pose proof (any_move_legal_outs buffer st) as E1.
  destruct (any_move_legal T buffer st) as [legal st1]. cbn [snd] in E1.
  destruct (legal && _); [|exact E1]. eapply outs_trans; [exact E1|apply quiescence_outs].
Qed.

Lemma nm_loop_outs (rec : Z -> Z -> bool -> N -> N -> sstate -> vmove * sstate) :
  (forall a b pv z zp st, outs st (snd (rec a b pv z zp st))) ->
  forall moves ispv pvm zh zph rd beta alpha bv bm bc lg st,
  outs st (snd (nm_loop T rec moves ispv pvm zh zph rd beta alpha bv bm bc lg st)).
Proof.
  intros Hrec moves. induction moves as [|mv rest IH]; intros ispv pvm zh zph rd beta alpha bv bm bc lg st; cbn [nm_loop]; [apply outs_refl|].
  destruct (make (s_board st) mv) as [b1|].
  - destruct (is_valid T b1); cbn [negb].
    + assert (E2 : exists zx zpx st2, (match zobrist_xor T mv with Some (x, p) => (x, p, set_board st b1) | None => (0, 0, set_panicked (set_board st b1) true) end) = (zx, zpx, st2)
                                   /\ s_out st2 = s_out st).
      { destruct (zobrist_xor T mv) as [[x p]|]; do 3 eexists; (split; reflexivity). }
      destruct E2 as (zx & zpx & st2 & -> & O2).
      pose proof (Hrec (- beta)%Z (- alpha)%Z (ispv && opt_move_eqb pvm mv) (N.lxor zh zx) (N.lxor zph zpx) st2) as O3.
      destruct (rec (- beta)%Z (- alpha)%Z (ispv && opt_move_eqb pvm mv) (N.lxor zh zx) (N.lxor zph zpx) st2) as [child st3].
      cbn [snd] in O3.
      assert (E4 : outs st (do_unmake st3 mv)).
      { eapply outs_trans; [|apply outs_eq; apply do_unmake_out]. eapply outs_trans; [apply outs_eq; exact O2|exact O3]. }
      destruct (s_stop st3); [exact E4|].
      destruct (bv <? - vm_value child)%Z; cbv zeta iota beta;
        (destruct (beta <=? _)%Z; [eapply outs_trans; [exact E4|apply outs_eq; reflexivity]|eapply outs_trans; [exact E4|apply IH]]).
    + eapply outs_trans; [|apply IH]. apply outs_eq. rewrite do_unmake_out. reflexivity.
  - eapply outs_trans; [|apply IH]. apply outs_eq. reflexivity.
Qed.

Lemma interior_node_outs rec :
  (forall a b pv z zp st, outs st (snd (rec a b pv z zp st))) ->
  forall color ply rd a0 ispv zh zph alpha beta ttm buffer st,
  outs st (snd (interior_node T rec color ply rd a0 ispv zh zph alpha beta ttm buffer st)).
Proof.
  intros Hrec color ply rd a0 ispv zh zph alpha beta ttm buffer st. unfold interior_node. cbv zeta.
  match goal with |- context [nm_loop T rec ?mv ?a ?b ?c ?d ?e ?f ?g ?h ?i ?j ?k st] =>
    pose proof (nm_loop_outs rec Hrec mv a b c d e f g h i j k st) as HL;
    destruct (nm_loop T rec mv a b c d e f g h i j k st) as [[r|bv bm bc lg] st4] end;
  cbn [snd] in HL; [exact HL|].
  destruct (negb lg); [exact HL|]. destruct (negb _); [|exact HL].
  eapply outs_trans; [exact HL|apply outs_eq; reflexivity].
Qed.

Lemma negamax_outs d : forall ply a0 b0 ispv zh zph st, outs st (snd (negamax T orc d ply a0 b0 ispv zh zph st)).
Proof.
  induction d as [|d' IH]; intros ply a0 b0 ispv zh zph st; cbn [negamax]; cbv zeta;
  (match goal with |- context [node_prelude T orc ply ?rd a0 b0 zh st] =>
     pose proof (node_prelude_ext ply rd a0 b0 zh st) as [[_ E3] _];
     destruct (node_prelude T orc ply rd a0 b0 zh st) as [[r|alpha beta ttm buffer] st3] end);
  cbn [fst snd] in E3; try exact E3.
  - eapply outs_trans; [exact E3|apply leaf_node_outs].
  - eapply outs_trans; [exact E3|]. apply interior_node_outs. intros. apply IH.
Qed.

(* ---------- third walk: counters, flags, parameters and the transposition table ---------- *)
Lemma qs_loop_qframe (rec : Z -> Z -> N -> sstate -> vmove * sstate) :
  (forall a b z st, qframe st (snd (rec a b z st))) ->
  forall moves beta zph alpha bm bc st, qframe st (snd (qs_loop T rec moves beta zph alpha bm bc st)).
Proof.
  intros Hrec moves. induction moves as [|mv rest IH]; intros beta zph alpha bm bc st; cbn [qs_loop]; [apply qframe_refl|].
  destruct (make (s_board st) mv) as [b1|].
  - destruct (is_valid T b1); cbn [negb].
    + set (st2 := set_q_nodes (set_board st b1) (s_q_nodes (set_board st b1) + 1)).
      assert (E2 : exists zpx st3, (match zobrist_xor T mv with Some (_, p) => (p, st2) | None => (0, set_panicked st2 true) end) = (zpx, st3)
                                   /\ qframe st st3).
      { destruct (zobrist_xor T mv) as [[x p]|]; eexists; eexists; (split; [reflexivity|repeat split]). }
      destruct E2 as (zpx & st3 & -> & O3).
      pose proof (Hrec (- beta)%Z (- alpha)%Z (N.lxor zph zpx) st3) as O4.
      destruct (rec (- beta)%Z (- alpha)%Z (N.lxor zph zpx) st3) as [child st4]. cbn [snd] in O4.
      assert (E5 : qframe st (do_unmake st4 mv)).
      { eapply qframe_trans; [|apply do_unmake_qframe]. eapply qframe_trans; eassumption. }
      destruct (beta <=? - vm_value child)%Z; [exact E5|].
      destruct (alpha <? - vm_value child)%Z; (eapply qframe_trans; [exact E5|apply IH]).
    + eapply qframe_trans; [|apply IH]. eapply qframe_trans; [|apply do_unmake_qframe]. repeat split.
  - eapply qframe_trans; [|apply IH]. repeat split.
Qed.

Lemma quiescence_qframe fuel : forall alpha beta zph st, qframe st (snd (quiescence T fuel alpha beta zph st)).
Proof.
  induction fuel as [|k IH]; intros alpha beta zph st; cbn [quiescence]; [repeat split|].
  cbv zeta. destruct (beta <=? _)%Z; [apply qframe_refl|]. apply qs_loop_qframe. exact IH.
Qed.

Lemma any_move_legal_qframe moves : forall st, qframe st (snd (any_move_legal T moves st)).
Proof.
  induction moves as [|mv rest IH]; intro st; cbn [any_move_legal]; [apply qframe_refl|].
  destruct (make (s_board st) mv) as [b1|].
  - cbv zeta. assert (E1 : qframe st (do_unmake (set_board st b1) mv)).
    { eapply qframe_trans; [|apply do_unmake_qframe]. repeat split. }
    destruct (is_valid T b1); [exact E1|]. eapply qframe_trans; [exact E1|apply IH].
  - eapply qframe_trans; [|apply IH]. repeat split.
Qed.

Lemma leaf_node_qframe color alpha beta zph buffer st : qframe st (snd (leaf_node T color alpha beta zph buffer st)).
Proof.
  unfold leaf_node. pose proof (any_move_legal_qframe buffer st) as E1.
  destruct (any_move_legal T buffer st) as [legal st1]. cbn [snd] in E1.
  destruct (legal && _); [|exact E1]. eapply qframe_trans; [exact E1|apply quiescence_qframe].
Qed.

Lemma fold_apply_msg2 l : forall st,
  s_tt (fold_left apply_msg l st) = s_tt st /\ s_go (fold_left apply_msg l st) = s_go st.
Proof.
  induction l as [|m r IH]; intro st; cbn [fold_left]; [split; reflexivity|].
  destruct (IH (apply_msg st m)) as [B O]. rewrite B, O. destruct m; split; reflexivity.
Qed.

Lemma generate_info_frame2 st :
  s_tt (snd (generate_info T orc st)) = s_tt st /\ s_go (snd (generate_info T orc st)) = s_go st.
Proof. unfold generate_info, read_clock. sproj. split; reflexivity. Qed.

Lemma poll_block_frame2 st :
  s_tt (snd (poll_block T orc st)) = s_tt st /\ s_go (snd (poll_block T orc st)) = s_go st /\
  (forall r, fst (poll_block T orc st) = Some r -> vm_mv r = None) /\
  (should_check_flags orc st = false -> poll_block T orc st = (None, st)).
Proof.
  unfold poll_block, generate_info, read_clock. cbv zeta.
  destruct (fold_apply_msg2 (inbox orc (s_drains st)) st) as [F1 F2].
  destruct (should_check_flags orc st); [|repeat split; try reflexivity; discriminate].
  unfold check_messages.
  destruct (abort_at orc) as [[n mode]|]; [destruct (n =? _); [destruct (mode =? 1)|]|]; cbv beta iota zeta; sproj;
  try (destruct (g_movetime _) as [mt|]; [destruct (mt <? _)|]); cbn [fst snd]; sproj; rewrite ?F1, ?F2;
  (repeat split; try reflexivity; try discriminate; try (intros r [= <-]; reflexivity)).
Qed.

Lemma filter_search_moves_go st st' l : s_go st' = s_go st -> filter_search_moves st' l = filter_search_moves st l.
Proof. unfold filter_search_moves. intros ->. reflexivity. Qed.

Lemma filter_search_moves_length st l : (length (filter_search_moves st l) <= length l)%nat.
Proof.
  unfold filter_search_moves. destruct (g_searchmoves (s_go st)); [lia|].
  generalize (fun mv : move => existsb (umove_eqb (uci_of_move mv)) (u :: l0)). intro f.
  induction l as [|x r IH]; cbn [filter length]; [lia|]. destruct (f x); cbn [length]; lia.
Qed.

Lemma tt_probe_miss st zh rd a b n : tt_le n (s_tt st) -> n < rd ->
  exists ttm, tt_probe st zh rd a b = inr (a, b, ttm).
Proof.
  intros Ht Hn. unfold tt_probe. destruct (HashTable.get tt_entry (s_tt st) zh) as [e|] eqn:Eg; [|eexists; reflexivity].
  specialize (Ht zh e Eg). destruct (N.leb_spec rd (te_depth e)); [lia|]. eexists; reflexivity.
Qed.

Lemma node_prelude_spec2 ply rd a0 b0 zh st :
  let r := node_prelude T orc ply rd a0 b0 zh st in
  s_tt (snd r) = s_tt st /\ s_go (snd r) = s_go st /\
  (forall alpha beta ttm buffer, fst r = PreGo alpha beta ttm buffer ->
     buffer = if ply =? 0 then filter_search_moves st (gen_pseudo T (s_board st)) else gen_pseudo T (s_board st)) /\
  (forall n, tt_le n (s_tt st) -> n < rd -> forall v, fst r = PreReturn v -> vm_mv v = None) /\
  (should_check_flags orc st = false -> s_nm_nodes (snd r) = s_nm_nodes st + 1 /\ s_stop (snd r) = s_stop st).
Proof.
  unfold node_prelude. cbv zeta. pose proof (poll_block_frame2 st) as (Ht & Hgo & Hret & Hno). pose proof (poll_block_ext st) as [Hb _].
  destruct (poll_block T orc st) as [[r|] st1]; cbv beta iota zeta; cbn [fst snd] in *.
  - split; [exact Ht|split; [exact Hgo|split; [discriminate|split]]].
    + intros n _ _ v [= <-]. apply Hret. reflexivity.
    + intro Hf. specialize (Hno Hf). discriminate.
  - sproj. destruct (visit _ _ _ _ _) as [h' rep].
    assert (Hcnt : should_check_flags orc st = false ->
                   s_nm_nodes st1 + 1 = s_nm_nodes st + 1 /\ s_stop st1 = s_stop st).
    { intro Hf. specialize (Hno Hf). injection Hno as ->. split; reflexivity. }
    destruct rep.
    { cbn [fst snd]; sproj. split; [exact Ht|split; [exact Hgo|split; [discriminate|split; [|exact Hcnt]]]].
      intros n _ _ v [= <-]; reflexivity. }
    destruct (tt_probe _ zh rd a0 b0) as [r|[[alpha beta] ttm]] eqn:Ep.
    + cbn [fst snd]. sproj. split; [exact Ht|split; [exact Hgo|split; [discriminate|split; [|exact Hcnt]]]].
      intros n Hle Hn v _. exfalso.
      destruct (tt_probe_miss (set_history (set_nm_nodes st1 (s_nm_nodes st1 + 1)) h') zh rd a0 b0 n) as [x Hx];
        [sproj; rewrite Ht; exact Hle|exact Hn|]. rewrite Hx in Ep. discriminate.
    + destruct ((ply =? 0) && is_nil _); cbn [fst snd]; sproj.
      * split; [exact Ht|split; [exact Hgo|split; [discriminate|split; [|exact Hcnt]]]].
        intros n _ _ v [= <-]. reflexivity.
      * split; [exact Ht|split; [exact Hgo|split; [|split; [discriminate|exact Hcnt]]]].
        intros alpha' beta' ttm' buffer [= _ _ _ <-]. rewrite Hb.
        destruct (ply =? 0); [|reflexivity]. apply filter_search_moves_go. sproj. exact Hgo.
Qed.

Lemma nm_loop_inv2 (rec : Z -> Z -> bool -> N -> N -> sstate -> vmove * sstate) n :
  (forall a b pv z zp st, inv2 n st (snd (rec a b pv z zp st))) ->
  forall moves ispv pvm zh zph rd beta alpha bv bm bc lg st,
  inv2 n st (snd (nm_loop T rec moves ispv pvm zh zph rd beta alpha bv bm bc lg st)).
Proof.
  intros Hrec moves. induction moves as [|mv rest IH]; intros ispv pvm zh zph rd beta alpha bv bm bc lg st; cbn [nm_loop]; [apply inv2_refl|].
  destruct (make (s_board st) mv) as [b1|].
  - destruct (is_valid T b1); cbn [negb].
    + assert (E2 : exists zx zpx st2, (match zobrist_xor T mv with Some (x, p) => (x, p, set_board st b1) | None => (0, 0, set_panicked (set_board st b1) true) end) = (zx, zpx, st2)
                                   /\ inv2 n st st2).
      { destruct (zobrist_xor T mv) as [[x p]|]; do 3 eexists; (split; [reflexivity|apply inv2_eq; reflexivity]). }
      destruct E2 as (zx & zpx & st2 & -> & O2).
      pose proof (Hrec (- beta)%Z (- alpha)%Z (ispv && opt_move_eqb pvm mv) (N.lxor zh zx) (N.lxor zph zpx) st2) as O3.
      destruct (rec (- beta)%Z (- alpha)%Z (ispv && opt_move_eqb pvm mv) (N.lxor zh zx) (N.lxor zph zpx) st2) as [child st3].
      cbn [snd] in O3.
      assert (E4 : inv2 n st (do_unmake st3 mv)).
      { eapply inv2_trans; [|apply qframe_inv2; apply do_unmake_qframe]. eapply inv2_trans; eassumption. }
      destruct (s_stop st3); [exact E4|].
      destruct (bv <? - vm_value child)%Z; cbv zeta iota beta;
        (destruct (beta <=? _)%Z; [eapply inv2_trans; [exact E4|apply inv2_eq; reflexivity]|eapply inv2_trans; [exact E4|apply IH]]).
    + eapply inv2_trans; [|apply IH]. eapply inv2_trans; [|apply qframe_inv2; apply do_unmake_qframe]. apply inv2_eq; reflexivity.
  - eapply inv2_trans; [|apply IH]. apply inv2_eq; reflexivity.
Qed.

Lemma interior_node_inv2 rec n :
  (forall a b pv z zp st, inv2 n st (snd (rec a b pv z zp st))) ->
  forall color ply rd a0 ispv zh zph alpha beta ttm buffer st, rd <= n ->
  inv2 n st (snd (interior_node T rec color ply rd a0 ispv zh zph alpha beta ttm buffer st)).
Proof.
  intros Hrec color ply rd a0 ispv zh zph alpha beta ttm buffer st Hrd. unfold interior_node. cbv zeta.
  match goal with |- context [nm_loop T rec ?mv ?a ?b ?c ?d ?e ?f ?g ?h ?i ?j ?k st] =>
    pose proof (nm_loop_inv2 rec n Hrec mv a b c d e f g h i j k st) as HL;
    destruct (nm_loop T rec mv a b c d e f g h i j k st) as [[r|bv bm bc lg] st4] end;
  cbn [snd] in HL; [exact HL|].
  destruct (negb lg); [exact HL|]. destruct (negb _); [|exact HL].
  eapply inv2_trans; [exact HL|]. split; [reflexivity|]. sproj. intro Ht. apply tt_le_put; [exact Ht|exact Hrd].
Qed.

Lemma negamax_inv2 n d : forall ply a0 b0 ispv zh zph st, N.of_nat d <= n ->
  inv2 n st (snd (negamax T orc d ply a0 b0 ispv zh zph st)).
Proof.
  induction d as [|d' IH]; intros ply a0 b0 ispv zh zph st Hd; cbn [negamax]; cbv zeta;
  (match goal with |- context [node_prelude T orc ply ?rd a0 b0 zh st] =>
     pose proof (node_prelude_spec2 ply rd a0 b0 zh st) as (Ht & Hgo & _);
     destruct (node_prelude T orc ply rd a0 b0 zh st) as [[r|alpha beta ttm buffer] st3] end);
  cbn [fst snd] in Ht, Hgo; try (apply inv2_eq; assumption).
  - eapply inv2_trans; [apply inv2_eq; eassumption|]. apply qframe_inv2. apply leaf_node_qframe.
  - eapply inv2_trans; [apply inv2_eq; eassumption|]. apply interior_node_inv2; [|exact Hd].
    intros. apply IH. lia.
Qed.

(* ---------- C07: the first iteration cannot be interrupted ---------- *)
Lemma should_check_small st : 0 < s_nm_nodes st -> s_nm_nodes st < poll orc -> should_check_flags orc st = false.
Proof.
  intros H0 H1. unfold should_check_flags. rewrite N.mod_small by exact H1.
  destruct (N.eqb_spec (s_nm_nodes st) 0); [lia|reflexivity].
Qed.

Lemma negamax0_count ply a0 b0 ispv zh zph st : should_check_flags orc st = false ->
  s_nm_nodes (snd (negamax T orc 0 ply a0 b0 ispv zh zph st)) = s_nm_nodes st + 1 /\
  s_stop (snd (negamax T orc 0 ply a0 b0 ispv zh zph st)) = s_stop st.
Proof.
  intro Hf. cbn [negamax]. cbv zeta.
  pose proof (node_prelude_spec2 ply (N.of_nat 0) a0 b0 zh st) as (_ & _ & _ & _ & Hc). specialize (Hc Hf).
  destruct (node_prelude T orc ply (N.of_nat 0) a0 b0 zh st) as [[r|alpha beta ttm buffer] st3]; cbn [fst snd] in *; [exact Hc|].
  destruct (leaf_node_qframe (turn (s_board st)) alpha beta zph buffer st3) as (_ & Hn & Hs & _).
  rewrite Hn, Hs. exact Hc.
Qed.

Lemma nm_loop_count (rec : Z -> Z -> bool -> N -> N -> sstate -> vmove * sstate) :
  (forall a b pv z zp st, should_check_flags orc st = false ->
      s_nm_nodes (snd (rec a b pv z zp st)) = s_nm_nodes st + 1 /\ s_stop (snd (rec a b pv z zp st)) = s_stop st) ->
  forall moves ispv pvm zh zph rd beta alpha bv bm bc lg st,
  0 < s_nm_nodes st -> s_nm_nodes st + N.of_nat (length moves) <= poll orc ->
  s_stop (snd (nm_loop T rec moves ispv pvm zh zph rd beta alpha bv bm bc lg st)) = s_stop st.
Proof.
  intros Hrec moves. induction moves as [|mv rest IH]; intros ispv pvm zh zph rd beta alpha bv bm bc lg st H0 Hle; cbn [nm_loop]; [reflexivity|].
  cbn [length] in Hle. rewrite Nat2N.inj_succ in Hle.
  destruct (make (s_board st) mv) as [b1|].
  - destruct (is_valid T b1); cbn [negb].
    + assert (E2 : exists zx zpx st2, (match zobrist_xor T mv with Some (x, p) => (x, p, set_board st b1) | None => (0, 0, set_panicked (set_board st b1) true) end) = (zx, zpx, st2)
                                   /\ s_nm_nodes st2 = s_nm_nodes st /\ s_stop st2 = s_stop st).
      { destruct (zobrist_xor T mv) as [[x p]|]; do 3 eexists; (split; [reflexivity|split; reflexivity]). }
      destruct E2 as (zx & zpx & st2 & -> & N2 & S2).
      assert (Hf : should_check_flags orc st2 = false) by (apply should_check_small; lia).
      pose proof (Hrec (- beta)%Z (- alpha)%Z (ispv && opt_move_eqb pvm mv) (N.lxor zh zx) (N.lxor zph zpx) st2 Hf) as [N3 S3].
      destruct (rec (- beta)%Z (- alpha)%Z (ispv && opt_move_eqb pvm mv) (N.lxor zh zx) (N.lxor zph zpx) st2) as [child st3].
      cbn [snd] in N3, S3.
      destruct (do_unmake_qframe st3 mv) as (_ & N4 & S4 & _).
      destruct (s_stop st3) eqn:Es3; [cbn [snd]; congruence|].
      destruct (bv <? - vm_value child)%Z; cbv zeta iota beta;
        (destruct (beta <=? _)%Z; [cbn [snd]; sproj; congruence|rewrite IH by lia; congruence]).
    + destruct (do_unmake_qframe (set_board st b1) mv) as (_ & N4 & S4 & _). sproj.
      rewrite IH by lia. exact S4.
  - rewrite IH by (sproj; lia). reflexivity.
Qed.

(* the stop flag cannot be raised during a depth-1 search that starts with a node count of 0 when the position
   has fewer pseudo-legal moves than the polling period: the root is node 0 -> 1, each child sees a count in
   1 .. #moves, and nothing below the children is a negamax node *)
Lemma negamax1_not_interruptible a0 b0 ispv zh zph st :
  s_nm_nodes st = 0 -> N.of_nat (length (gen_pseudo T (s_board st))) < poll orc ->
  s_stop (snd (negamax T orc 1 0 a0 b0 ispv zh zph st)) = s_stop st.
Proof.
  intros Hn0 Hlen. cbn [negamax]. cbv zeta.
  assert (Hf : should_check_flags orc st = false).
  { unfold should_check_flags. rewrite Hn0. rewrite andb_false_r. reflexivity. }
  pose proof (node_prelude_spec2 0 (N.of_nat 1) a0 b0 zh st) as (_ & _ & Hbuf & _ & Hc). destruct (Hc Hf) as [N3 S3].
  destruct (node_prelude T orc 0 (N.of_nat 1) a0 b0 zh st) as [[r|alpha beta ttm buffer] st3]; cbn [fst snd] in *; [exact S3|].
  specialize (Hbuf _ _ _ _ eq_refl). change (0 =? 0) with true in Hbuf. cbv iota in Hbuf.
  unfold interior_node. cbv zeta.
  match goal with |- context [nm_loop T ?rec ?mv ?a ?b ?c ?d ?e ?f ?g ?h ?i ?j ?k st3] =>
    pose proof (nm_loop_count rec (fun a' b' pv z zp s Hs => negamax0_count (0 + 1) a' b' pv z zp s Hs) mv a b c d e f g h i j k st3) as HL;
    destruct (nm_loop T rec mv a b c d e f g h i j k st3) as [[r|bv bm bc lg] st4] end;
  cbn [snd] in HL; cbn [snd].
  - rewrite HL; [exact S3|lia|]. rewrite sort_moves_length, Hbuf, N3, Hn0.
    pose proof (filter_search_moves_length st (gen_pseudo T (s_board st))). lia.
  - assert (S4 : s_stop st4 = s_stop st).
    { rewrite HL; [exact S3|lia|]. rewrite sort_moves_length, Hbuf, N3, Hn0.
      pose proof (filter_search_moves_length st (gen_pseudo T (s_board st))). lia. }
    destruct (negb lg); [exact S4|]. destruct (negb _); exact S4.
Qed.

(* ---------- C07: a move returned by the root call is legal and one of the searched moves ---------- *)
Lemma negamax_root_legal d' a0 b0 ispv zh zph st :
  good (S d' + S Q) (s_board st) -> tt_le (N.of_nat d') (s_tt st) ->
  legal_at (fun m => In m (filter_search_moves st (gen_pseudo T (s_board st)))) (s_board st)
           (vm_mv (fst (negamax T orc (S d') 0 a0 b0 ispv zh zph st))).
Proof.
  intros Hg Ht. cbn [negamax]. cbv zeta.
  pose proof (node_prelude_spec2 0 (N.of_nat (S d')) a0 b0 zh st) as (_ & _ & Hbuf & Hret & _).
  pose proof (node_prelude_ext 0 (N.of_nat (S d')) a0 b0 zh st) as [[B3 _] _].
  destruct (node_prelude T orc 0 (N.of_nat (S d')) a0 b0 zh st) as [[r|alpha beta ttm buffer] st3]; cbn [fst snd] in *.
  - rewrite (Hret (N.of_nat d') Ht); [exact I|lia|reflexivity].
  - specialize (Hbuf _ _ _ _ eq_refl). change (0 =? 0) with true in Hbuf. cbv iota in Hbuf.
    match goal with |- context [interior_node T ?rec ?c ?p ?rd ?x ?pv ?z ?zp ?al ?be ?tm ?bu st3] =>
      destruct (interior_node_ext rec (d' + S Q)%nat (fun m => In m (filter_search_moves st (gen_pseudo T (s_board st))))
                  (fun a b pv z zp s Hs => negamax_ext d' (0 + 1) a b pv z zp s Hs) c p rd x pv z zp al be tm bu st3) as [_ HL] end.
    + rewrite B3. exact Hg.
    + rewrite B3, Hbuf. intros m Hm. split; [|exact Hm]. eapply filter_search_moves_in. exact Hm.
    + rewrite B3 in HL. exact HL.
Qed.

(* ---------- iterative deepening ---------- *)
Definition un {A} (r : A + A) : A := match r with inl x => x | inr x => x end.

Lemma iter_until_ind {A B} (PA : A -> Prop) (PB : B -> Prop) (step : A -> A + B) :
  (forall a, PA a -> match step a with inl a' => PA a' | inr b => PB b end) ->
  forall p a, PA a -> match iter_until p step a with inl a' => PA a' | inr b => PB b end.
Proof.
  intro Hs. induction p as [q IH|q IH|]; intros a Ha; cbn [iter_until].
  - pose proof (Hs a Ha) as H1. destruct (step a) as [a1|b1]; [|exact H1].
    pose proof (IH a1 H1) as H2. destruct (iter_until q step a1) as [a2|b2]; [|exact H2]. apply IH. exact H2.
  - pose proof (IH a Ha) as H1. destruct (iter_until q step a) as [a1|b1]; [|exact H1]. apply IH. exact H1.
  - apply Hs. exact Ha.
Qed.

(* the state after one iteration, whether the loop goes on or not *)
Definition id_next (mt : option N) (a : idstate) : idstate := un (id_step T orc mt a).
Definition non_aborted (it : iter_rec) : bool := negb (it_aborted it).
(* the result of the most recent iteration that was not aborted (the log is newest first) *)
Definition last_completed (log : list iter_rec) : option vmove := option_map it_result (find non_aborted log).

(* the moves the root call searches: filter_search_moves applied to the generated moves *)
Definition root_moves (g : go_params) (b : board) : list move :=
  match g_searchmoves g with
  | [] => gen_pseudo T b
  | sm => filter (fun mv => existsb (umove_eqb (uci_of_move mv)) sm) (gen_pseudo T b)
  end.
Lemma filter_root_moves st b : filter_search_moves st (gen_pseudo T b) = root_moves (s_go st) b.
Proof. reflexivity. Qed.
Definition root_legal (g : go_params) (b : board) (om : option move) : Prop := legal_at (fun m => In m (root_moves g b)) b om.

Definition root_call (a : idstate) : vmove * sstate :=
  negamax T orc (id_fuel a) 0 (loss_score T) (win_score T) (match s_pv (id_st a) with Some _ => true | None => false end)
          (zobrist_hash T (s_board (id_st a))) (pawn_hash T (s_board (id_st a))) (id_st a).

Lemma id_step_spec mt a :
  let a' := id_next mt a in
  (exists it, id_log a' = it :: id_log a /\ it_result it = fst (root_call a) /\
              (it_aborted it = true -> id_best a' = id_best a /\ id_step T orc mt a = inr a') /\
              (it_aborted it = false -> id_best a' = Some (it_result it))) /\
  id_fuel a' = S (id_fuel a) /\
  outs (id_st a) (id_st a') /\
  (good (id_fuel a + S Q) (s_board (id_st a)) -> s_board (id_st a') = s_board (id_st a)) /\
  inv2 (N.of_nat (id_fuel a)) (id_st a) (id_st a').
Proof.
  unfold id_next, id_step, root_call. cbv zeta.
  match goal with |- context [negamax T orc ?d ?p ?x ?y ?v ?z ?w (id_st a)] =>
    pose proof (negamax_outs d p x y v z w (id_st a)) as O1; pose proof (negamax_ext d p x y v z w (id_st a)) as X1;
    pose proof (negamax_inv2 (N.of_nat d) d p x y v z w (id_st a) (N.le_refl _)) as I1;
    destruct (negamax T orc d p x y v z w (id_st a)) as [current st1] end.
  cbn [fst snd] in O1, X1, I1. cbn [fst]. unfold read_clock. cbv beta iota zeta. sproj.
  destruct (s_stop st1 || match vm_mv current with Some _ => false | None => true end) eqn:Eab;
    cbn [negb orb]; cbv beta iota zeta;
    (match goal with |- context [generate_info T orc ?s] =>
       pose proof (generate_info_frame s) as [B4 O4]; pose proof (generate_info_frame2 s) as [T4 G4];
       destruct (generate_info T orc s) as [[nodes hf] st4] end);
    cbn [snd] in B4, O4, T4, G4; sproj.
  - (* aborted: keep the previous result, stop *)
    cbn [un id_log id_best id_fuel id_st]. split; [|split; [reflexivity|split; [|split]]].
    + eexists. split; [reflexivity|]. cbn [it_aborted it_result]. split; [reflexivity|]. split; [intros _; split; reflexivity|discriminate].
    + destruct O1 as (l & Hl & Fl). eexists (_ :: l).
      split; [sproj; rewrite O4, Hl; reflexivity|cbn [forallb is_info]; exact Fl].
    + intro Hg. sproj. rewrite B4. apply X1. exact Hg.
    + eapply inv2_trans; [exact I1|]. apply inv2_eq; sproj; assumption.
  - match goal with |- context [if ?c then inr ?x else inl ?y] => replace (un (if c then inr x else inl y)) with x by (destruct c; reflexivity) end.
    cbn [id_log id_best id_fuel id_st]. split; [|split; [reflexivity|split; [|split]]].
    + eexists. split; [reflexivity|]. cbn [it_aborted it_result]. split; [reflexivity|]. split; [discriminate|reflexivity].
    + destruct O1 as (l & Hl & Fl). eexists (_ :: l).
      split; [sproj; rewrite O4, Hl; reflexivity|cbn [forallb is_info]; exact Fl].
    + intro Hg. sproj. rewrite B4. apply X1. exact Hg.
    + eapply inv2_trans; [exact I1|]. apply inv2_eq; sproj; assumption.
Qed.

(* the move `best_move` announces, as a function of the iteration log *)
Definition announced (log : list iter_rec) : option umove :=
  match last_completed log with Some vm => option_map uci_of_move (vm_mv vm) | None => None end.

Record loop_inv (D : nat) (a0 a : idstate) : Prop := {
  li_fl : id_fuel a = S (length (id_log a));
  li_outs : outs (id_st a0) (id_st a);
  li_board : (length (id_log a) <= D)%nat -> good (D + S Q) (s_board (id_st a0)) -> s_board (id_st a) = s_board (id_st a0);
  li_best : id_best a = last_completed (id_log a);
  li_go : s_go (id_st a) = s_go (id_st a0);
  li_tt : tt_le (N.of_nat (length (id_log a))) (s_tt (id_st a));
  li_legal : (length (id_log a) <= D)%nat -> good (D + S Q) (s_board (id_st a0)) ->
             Forall (fun it => root_legal (s_go (id_st a0)) (s_board (id_st a0)) (vm_mv (it_result it))) (id_log a)
}.

Lemma loop_step D mt a0 a : loop_inv D a0 a -> forallb non_aborted (id_log a) = true ->
  match id_step T orc mt a with
  | inl a' => loop_inv D a0 a' /\ forallb non_aborted (id_log a') = true
  | inr b => loop_inv D a0 b /\ forallb non_aborted (tl (id_log b)) = true
  end.
Proof.
  intros [Hfl Hout Hboard Hbest Hgo Htt Hlegal] Hna.
  pose proof (id_step_spec mt a) as Hs. unfold id_next in Hs. cbv zeta in Hs.
  destruct Hs as ((it & Hlog & Hres & Hab & Hnab) & Hfuel & Hout' & Hboard' & [Hgo' Htt']).
  assert (Hinv : loop_inv D a0 (un (id_step T orc mt a))).
  { split.
    - rewrite Hfuel, Hlog, Hfl. reflexivity.
    - eapply outs_trans; eassumption.
    - rewrite Hlog. cbn [length]. intros Hle Hg.
      assert (Hb : s_board (id_st a) = s_board (id_st a0)) by (apply Hboard; [lia|exact Hg]).
      rewrite <- Hb. apply Hboard'. rewrite Hb. eapply good_le; [|exact Hg]. lia.
    - rewrite Hlog. unfold last_completed. cbn [find]. unfold non_aborted at 1.
      destruct (it_aborted it) eqn:Ea; cbn [negb].
      + destruct (Hab eq_refl) as [-> _]. exact Hbest.
      + cbn [option_map]. apply Hnab. reflexivity.
    - congruence.
    - rewrite Hlog. cbn [length]. rewrite <- Hfl. apply Htt'. rewrite Hfl. eapply tt_le_mono; [|exact Htt]. lia.
    - rewrite Hlog. cbn [length]. intros Hle Hg. constructor; [|apply Hlegal; [lia|exact Hg]].
      assert (Hb : s_board (id_st a) = s_board (id_st a0)) by (apply Hboard; [lia|exact Hg]).
      rewrite Hres. unfold root_call. rewrite Hfl.
      pose proof (negamax_root_legal (length (id_log a)) (loss_score T) (win_score T)
                    (match s_pv (id_st a) with Some _ => true | None => false end)
                    (zobrist_hash T (s_board (id_st a))) (pawn_hash T (s_board (id_st a))) (id_st a)) as HL.
      rewrite filter_root_moves, Hgo, Hb in HL. rewrite Hb. apply HL; [|exact Htt].
      eapply good_le; [|exact Hg]. lia. }
  destruct (id_step T orc mt a) as [x|x] eqn:Es; cbn [un] in *.
  - split; [exact Hinv|]. rewrite Hlog. cbn [forallb]. rewrite Hna, andb_true_r. unfold non_aborted.
    destruct (it_aborted it) eqn:Ea; [|reflexivity]. destruct (Hab eq_refl) as [_ H]. discriminate.
  - split; [exact Hinv|]. rewrite Hlog. exact Hna.
Qed.

Lemma try_set_pv_frame st :
  s_board (try_set_pv_from_continuation st) = s_board st /\ s_out (try_set_pv_from_continuation st) = s_out st
  /\ s_go (try_set_pv_from_continuation st) = s_go st /\ s_tt (try_set_pv_from_continuation st) = s_tt st.
Proof.
  unfold try_set_pv_from_continuation.
  repeat (match goal with |- context [match ?x with _ => _ end] => destruct x end); repeat split; reflexivity.
Qed.

Lemma best_move_spec st D :
  let '(bm, pm, log, st') := best_move T orc st in
  outs st st' /\
  ((length log <= D)%nat -> good (D + S Q) (s_board st) ->
     s_board st' = s_board st /\ Forall (fun it => root_legal (s_go st) (s_board st) (vm_mv (it_result it))) log) /\
  bm = announced log /\
  forallb non_aborted (tl log) = true.
Proof.
  unfold best_move. cbv zeta.
  set (st1 := set_killers _ _).
  set (st2 := if s_try_prev_pv st1 then try_set_pv_from_continuation st1 else st1).
  assert (F2 : s_board st2 = s_board st /\ s_out st2 = s_out st /\ s_go st2 = s_go st /\ s_tt st2 = HashTable.clear tt_entry (s_tt st)).
  { subst st2. destruct (s_try_prev_pv st1); [|repeat split; reflexivity]. destruct (try_set_pv_frame st1) as (B & O & G & TT). repeat split; assumption. }
  set (st3 := match g_movetime (s_go st2) with None => _ | Some _ => st2 end).
  assert (F3 : s_board st3 = s_board st /\ s_out st3 = s_out st /\ (forall b, root_moves (s_go st3) b = root_moves (s_go st) b)
               /\ s_tt st3 = HashTable.clear tt_entry (s_tt st)).
  { subst st3. destruct F2 as (B2 & O2 & G2 & T2).
    destruct (g_movetime (s_go st2)); [repeat split; try assumption; intro; rewrite G2; reflexivity|].
    sproj. repeat split; try assumption. intro b. rewrite <- G2. reflexivity. }
  destruct F3 as (B3 & O3 & G3 & T3). clearbody st3. clear F2.
  set (a0 := {| id_depth := 1; id_fuel := 1; id_best := None; id_uci_pv := None; id_score := None; id_log := []; id_st := st3 |}).
  set (p := match _ with Npos p => p | N0 => xH end).
  assert (I0 : loop_inv D a0 a0).
  { split; try reflexivity; [apply outs_refl| |intros; constructor]. cbn [id_st a0 id_log length]. rewrite T3. apply tt_le_clear. }
  pose proof (iter_until_ind (fun a => loop_inv D a0 a /\ forallb non_aborted (id_log a) = true)
                             (fun b => loop_inv D a0 b /\ forallb non_aborted (tl (id_log b)) = true)
                             (id_step T orc (g_movetime (s_go st3)))
                             (fun a H => loop_step D _ a0 a (proj1 H) (proj2 H)) p a0 (conj I0 eq_refl)) as HL.
  assert (HF : exists fin, (match iter_until p (id_step T orc (g_movetime (s_go st3))) a0 with inl a => a | inr a => a end) = fin
                           /\ loop_inv D a0 fin /\ forallb non_aborted (tl (id_log fin)) = true).
  { destruct (iter_until p _ a0) as [x|x]; exists x; (split; [reflexivity|]); destruct HL as [HI HN]; (split; [exact HI|]); [|exact HN].
    destruct (id_log x); [reflexivity|]. cbn [forallb tl] in *. apply andb_true_iff in HN. tauto. }
  destruct HF as (fin & -> & [Hfl Hout Hboard Hbest Hgo Htt Hlegal] & Hna).
  unfold read_clock. cbv beta iota zeta. cbn [id_st a0] in *. repeat split.
  - eapply outs_trans; [apply outs_eq; exact O3|]. eapply outs_trans; [exact Hout|]. apply outs_eq. reflexivity.
  - sproj. rewrite <- B3. apply Hboard; [assumption|]. rewrite B3. assumption.
  - rewrite B3 in Hlegal. specialize (Hlegal H H0). eapply Forall_impl; [|exact Hlegal].
    intros it Hit. unfold root_legal in *. rewrite G3 in Hit. exact Hit.
  - unfold announced. rewrite Hbest. reflexivity.
  - exact Hna.
Qed.

Lemma reset_for_go_frame st : s_board (reset_for_go st) = s_board st /\ s_out (reset_for_go st) = s_out st /\ s_go (reset_for_go st) = s_go st.
Proof. unfold reset_for_go. destruct (s_reset_next st); repeat split; reflexivity. Qed.

Lemma go_full_spec g st D :
  let '(log, st') := go_full T orc g st in
  (exists pm l, s_out st' = OBestmove (announced log) pm :: l ++ s_out st /\ forallb is_info l = true) /\
  forallb non_aborted (tl log) = true /\
  ((length log <= D)%nat -> good (D + S Q) (s_board st) ->
     s_board st' = s_board st /\ Forall (fun it => root_legal g (s_board st) (vm_mv (it_result it))) log).
Proof.
  unfold go_full. cbv zeta.
  set (st0 := set_reads _ _). destruct (reset_for_go_frame st0) as (B1 & O1 & G1).
  pose proof (best_move_spec (reset_for_go st0) D) as HB.
  destruct (best_move T orc (reset_for_go st0)) as [[[bm pm] log] st2].
  destruct HB as ((l & Hl & Fl) & Hboard & -> & Hna). repeat split.
  - exists pm, l. split; [|exact Fl]. sproj. rewrite Hl, O1. reflexivity.
  - exact Hna.
  - sproj. destruct Hboard as [Hb _]; [assumption|rewrite B1; assumption|]. rewrite Hb. exact B1.
  - destruct Hboard as [_ Hl']; [assumption|rewrite B1; assumption|]. rewrite B1, G1 in Hl'. exact Hl'.
Qed.

(* the announced move is a legal move of the position and one of the searched moves *)
Lemma announced_legal g b log :
  Forall (fun it => root_legal g b (vm_mv (it_result it))) log ->
  forall u, announced log = Some u -> exists m, u = uci_of_move m /\ In m (root_moves g b) /\ is_move_legal T b m = true.
Proof.
  intros HF u. unfold announced, last_completed. destruct (find non_aborted log) as [it|] eqn:Ef; cbn [option_map]; [|discriminate].
  apply find_some in Ef as [Hin _]. rewrite Forall_forall in HF. specialize (HF it Hin).
  destruct (vm_mv (it_result it)) as [m|]; cbn [option_map]; [|discriminate].
  intros [= <-]. exists m. destruct HF as [H1 H2]. repeat split; assumption.
Qed.

Lemma root_moves_spec g b m : In m (root_moves g b) ->
  In m (gen_pseudo T b) /\ (g_searchmoves g = [] \/ existsb (umove_eqb (uci_of_move m)) (g_searchmoves g) = true).
Proof.
  unfold root_moves. destruct (g_searchmoves g) as [|u r]; [intro H; split; [exact H|now left]|].
  intro H. apply filter_In in H as [H1 H2]. split; [exact H1|now right].
Qed.

(* the loop runs at most p times *)
Lemma iter_until_len mt p : forall a,
  (length (id_log (un (iter_until p (id_step T orc mt) a))) <= length (id_log a) + Pos.to_nat p)%nat.
Proof.
  assert (Hs : forall a, length (id_log (un (id_step T orc mt a))) = S (length (id_log a))).
  { intro a. pose proof (id_step_spec mt a) as Hs. unfold id_next in Hs. cbv zeta in Hs.
    destruct Hs as ((it & Hlog & _) & _). rewrite Hlog. reflexivity. }
  induction p as [q IH|q IH|]; intro a; cbn [iter_until].
  - rewrite Pos2Nat.inj_xI. pose proof (Hs a) as H1. destruct (id_step T orc mt a) as [a1|b1]; cbn [un] in *; [|lia].
    pose proof (IH a1) as H2. destruct (iter_until q (id_step T orc mt) a1) as [a2|b2]; cbn [un] in *; [|lia].
    pose proof (IH a2). lia.
  - rewrite Pos2Nat.inj_xO. pose proof (IH a) as H1. destruct (iter_until q (id_step T orc mt) a) as [a1|b1]; cbn [un] in *; [|lia].
    pose proof (IH a1). lia.
  - rewrite (Hs a). cbn. lia.
Qed.

(* `go depth dd` runs at most max(dd, 1) iterations *)
Lemma best_move_len st dd : g_depth (s_go st) = Some dd ->
  (length (snd (fst (best_move T orc st))) <= Pos.to_nat (match N.max dd 1 with Npos q => q | N0 => xH end))%nat.
Proof.
  intro Hd. unfold best_move. cbv zeta.
  set (st1 := set_killers _ _).
  set (st2 := if s_try_prev_pv st1 then try_set_pv_from_continuation st1 else st1).
  assert (G2 : s_go st2 = s_go st).
  { subst st2. destruct (s_try_prev_pv st1); [|reflexivity]. destruct (try_set_pv_frame st1) as (_ & _ & G & _). exact G. }
  rewrite G2, Hd.
  match goal with |- context [iter_until ?pp (id_step T orc ?mt) ?a0] =>
    pose proof (iter_until_len mt pp a0) as HL; destruct (iter_until pp (id_step T orc mt) a0) as [x|x] end;
  cbn [un id_log length] in HL; unfold read_clock; cbv beta iota zeta; cbn [fst snd]; lia.
Qed.

Lemma go_full_len g st dd : g_depth g = Some dd ->
  (length (fst (go_full T orc g st)) <= Pos.to_nat (match N.max dd 1 with Npos q => q | N0 => xH end))%nat.
Proof.
  intro Hd. unfold go_full. cbv zeta. set (st0 := set_reads _ _).
  pose proof (best_move_len (reset_for_go st0) dd) as HL.
  destruct (reset_for_go_frame st0) as (_ & _ & G1). rewrite G1 in HL. specialize (HL Hd).
  destruct (best_move T orc (reset_for_go st0)) as [[[bm pm] log] st2]. exact HL.
Qed.

End WithOracle.

(* ---------- sessions: Engine::accept + Search::idle ---------- *)
(* the board the engine must hold: only a successful `position` changes it *)
Definition track (b : board) (c : cmd) : board :=
  match c with
  | CPosition f ms => match position_result T f ms with PosOk b' _ _ => b' | _ => b end
  | _ => b
  end.

(* every search that is started begins on a good board and ends within D iterations *)
Fixpoint session_ok (cmds : list cmd) (st : sstate) : Prop :=
  match cmds with
  | [] => True
  | c :: r =>
      (match c with
       | CGo g o => exists D, (length (fst (go_full T o g st)) <= D)%nat /\ good (D + S Q) (s_board st)
       | _ => True
       end) /\ session_ok r (run_command T st c)
  end.

Lemma run_commands_quit cmds : forall st, s_quit st = true -> run_commands T cmds st = st.
Proof.
  unfold run_commands. induction cmds as [|c r IH]; intros st Hq; cbn [fold_left]; [reflexivity|].
  assert (E : run_command T st c = st) by (unfold run_command; rewrite Hq; reflexivity).
  rewrite E. apply IH. exact Hq.
Qed.

Lemma run_command_board st c :
  s_quit st = false ->
  (match c with
   | CGo g o => exists D, (length (fst (go_full T o g st)) <= D)%nat /\ good (D + S Q) (s_board st)
   | _ => True end) ->
  s_board (run_command T st c) = track (s_board st) c.
Proof.
  intros Hq Hc. unfold run_command. rewrite Hq. destruct c; cbn [track]; try reflexivity.
  - unfold set_position_from. destruct (position_result T f moves); reflexivity.
  - destruct Hc as (D & Hle & Hg). unfold go. pose proof (go_full_spec o g st D) as H.
    destruct (go_full T o g st) as [log st']. cbn [fst snd] in *. destruct H as (_ & _ & H). apply H; assumption.
  - destruct (print_fen (s_board st)); reflexivity.
Qed.

Lemma sessions_board cmds : forall st, session_ok cmds st -> s_quit (run_commands T cmds st) = false ->
  s_board (run_commands T cmds st) = fold_left track cmds (s_board st).
Proof.
  induction cmds as [|c r IH]; intros st Hok Hq; [reflexivity|].
  destruct (s_quit st) eqn:Hq0.
  - rewrite run_commands_quit in Hq by exact Hq0. congruence.
  - destruct Hok as [Hc Hr]. unfold run_commands in *. cbn [fold_left] in *.
    rewrite IH by assumption. f_equal. apply run_command_board; assumption.
Qed.

End Main.

(* ================================================================================================================
   The theorems of C09 and C07, with the hypotheses spelled out.
   ================================================================================================================ *)

(* C03 as an indexed family (see the comment at [good] above): make/unmake are inverse on [good (S n)] boards and
   lead to [good n] boards whenever the child passes `is_valid`; [Q] bounds the fuel of the capture search. *)
Definition C03_family (T : Tables.t) (good : nat -> board -> Prop) (Q : nat) : Prop :=
  (forall n b m, good (S n) b -> In m (gen_pseudo T b) ->
     exists b', make b m = Some b' /\ unmake b' m = Some b /\ (is_valid T b' = true -> good n b')) /\
  (forall n b, good (S n) b -> good n b) /\
  (forall n b, good n b -> (qfuel b <= Q)%nat).

Definition is_bestmove (m : omsg) : bool := match m with OBestmove _ _ => true | _ => false end.
Definition count_bestmove (l : list omsg) : nat := length (filter is_bestmove l).

Lemma count_bestmove_infos l : forallb is_info l = true -> count_bestmove l = 0%nat.
Proof.
  unfold count_bestmove. induction l as [|m r IH]; cbn [forallb filter]; [reflexivity|].
  intro H. apply andb_true_iff in H as [H1 H2]. destruct m; try discriminate. cbn [is_bestmove]. apply IH. exact H2.
Qed.

(* the empty family satisfies the hypotheses: used to read off the parts that need no hypothesis *)
Lemma C03_family_empty T : C03_family T (fun _ _ => False) 0.
Proof. repeat split; intros; contradiction. Qed.

Section Theorems.
Variable T : Tables.t.

(* ---- C09 ---- *)
Theorem C09_negamax_board_thm : forall good Q, C03_family T good Q ->
  forall orc d ply alpha beta is_pv zh zph st, good (d + S Q)%nat (s_board st) ->
  s_board (snd (negamax T orc d ply alpha beta is_pv zh zph st)) = s_board st.
Proof. intros good Q (H1 & H2 & H3) orc d ply a b pv zh zph st Hg. apply (negamax_ext T good Q H1 H2 H3 orc d ply a b pv zh zph st Hg). Qed.

Theorem C09_quiescence_board_thm : forall good Q, C03_family T good Q ->
  forall fuel alpha beta zph st, good fuel (s_board st) ->
  s_board (snd (quiescence T fuel alpha beta zph st)) = s_board st.
Proof. intros good Q (H1 & _ & _) fuel a b zph st Hg. apply (quiescence_ext T good H1 fuel a b zph st Hg). Qed.

Theorem C09_go_board_thm : forall good Q, C03_family T good Q ->
  forall orc g st D, (length (fst (go_full T orc g st)) <= D)%nat -> good (D + S Q)%nat (s_board st) ->
  s_board (go T orc g st) = s_board st.
Proof.
  intros good Q (H1 & H2 & H3) orc g st D Hle Hg. unfold go.
  pose proof (go_full_spec T good Q H1 H2 H3 orc g st D) as H.
  destruct (go_full T orc g st) as [log st']. cbn [fst snd] in *. destruct H as (_ & _ & H). apply H; assumption.
Qed.

Theorem C09_go_depth_board_thm : forall good Q, C03_family T good Q ->
  forall orc g st dd, g_depth g = Some dd ->
  good (Pos.to_nat (match N.max dd 1 with Npos q => q | N0 => xH end) + S Q)%nat (s_board st) ->
  s_board (go T orc g st) = s_board st.
Proof.
  intros good Q HF orc g st dd Hd Hg. eapply C09_go_board_thm; [exact HF| |exact Hg].
  destruct HF as (H1 & H2 & H3). apply (go_full_len T good Q H1 H2 H3). exact Hd.
Qed.

Theorem C09_sessions_thm : forall good Q, C03_family T good Q ->
  forall cmds st, session_ok T good Q cmds st -> s_quit (run_commands T cmds st) = false ->
  s_board (run_commands T cmds st) = fold_left (track T) cmds (s_board st).
Proof. intros good Q (H1 & H2 & H3). apply (sessions_board T good Q H1 H2 H3). Qed.

(* exactly one bestmove, it is the last message, everything before it is `info`, and the move is the one of the most
   recent iteration that was not aborted; only the last iteration of a go can be an aborted one *)
Theorem C09_bestmove_from_last_completed_thm : forall orc g st,
  let log := fst (go_full T orc g st) in
  (exists pm l, s_out (go T orc g st) = OBestmove (announced log) pm :: l ++ s_out st /\ forallb is_info l = true) /\
  forallb non_aborted (tl log) = true.
Proof.
  intros orc g st. destruct (C03_family_empty T) as (H1 & H2 & H3).
  pose proof (go_full_spec T _ _ H1 H2 H3 orc g st 0) as H. unfold go.
  destruct (go_full T orc g st) as [log st']. cbn [fst snd]. destruct H as (Ha & Hb & _). split; assumption.
Qed.

(* ---- C07 ---- *)
Theorem C07_one_bestmove_thm : forall orc g st,
  count_bestmove (s_out (go T orc g st)) = S (count_bestmove (s_out st)).
Proof.
  intros orc g st. destruct (C09_bestmove_from_last_completed_thm orc g st) as ((pm & l & -> & Hl) & _).
  unfold count_bestmove. cbn [filter is_bestmove length]. rewrite filter_app, app_length.
  fold (count_bestmove l). rewrite (count_bestmove_infos l Hl). reflexivity.
Qed.

Theorem C07_first_iteration_not_interruptible_thm : forall orc alpha beta is_pv zh zph st,
  s_nm_nodes st = 0 -> N.of_nat (length (gen_pseudo T (s_board st))) < poll orc ->
  s_stop (snd (negamax T orc 1 0 alpha beta is_pv zh zph st)) = s_stop st.
Proof. intros. apply negamax1_not_interruptible; assumption. Qed.

(* the announced move, when there is one, is a pseudo-legal move of the position that passes `is_valid` after `make`,
   and it is one of the `searchmoves` when these are given *)
Theorem C07_bestmove_legal_thm : forall good Q, C03_family T good Q ->
  forall orc g st D, (length (fst (go_full T orc g st)) <= D)%nat -> good (D + S Q)%nat (s_board st) ->
  forall u, announced (fst (go_full T orc g st)) = Some u ->
  exists m, u = uci_of_move m /\ In m (gen_pseudo T (s_board st)) /\ is_move_legal T (s_board st) m = true /\
            (g_searchmoves g = [] \/ existsb (umove_eqb (uci_of_move m)) (g_searchmoves g) = true).
Proof.
  intros good Q (H1 & H2 & H3) orc g st D Hle Hg u Hu.
  pose proof (go_full_spec T good Q H1 H2 H3 orc g st D) as H.
  destruct (go_full T orc g st) as [log st']. cbn [fst snd] in *. destruct H as (_ & _ & H).
  destruct (H Hle Hg) as [_ HF].
  destruct (announced_legal T g (s_board st) log HF u Hu) as (m & -> & Hin & Hl).
  destruct (root_moves_spec T g (s_board st) m Hin) as [Hp Hs].
  exists m. repeat split; assumption.
Qed.

(* no legal move among the searched moves: the answer is `bestmove 0000` *)
Theorem C07_no_legal_move_null_thm : forall good Q, C03_family T good Q ->
  forall orc g st D, (length (fst (go_full T orc g st)) <= D)%nat -> good (D + S Q)%nat (s_board st) ->
  (forall m, In m (root_moves T g (s_board st)) -> is_move_legal T (s_board st) m = false) ->
  announced (fst (go_full T orc g st)) = None.
Proof.
  intros good Q (H1 & H2 & H3) orc g st D Hle Hg Hno.
  destruct (announced (fst (go_full T orc g st))) as [u|] eqn:Hu; [|reflexivity]. exfalso.
  pose proof (go_full_spec T good Q H1 H2 H3 orc g st D) as H.
  destruct (go_full T orc g st) as [log st']. cbn [fst snd] in *. destruct H as (_ & _ & H).
  destruct (H Hle Hg) as [_ HF].
  destruct (announced_legal T g (s_board st) log HF u Hu) as (m & _ & Hin & Hl).
  rewrite (Hno m Hin) in Hl. discriminate.
Qed.

End Theorems.

(* C03: unmake after make restores the whole modelled position, for every move the generator can emit.

   Hypotheses of the main theorem and why each is there:
   * `wf b`            only two parts of it are used: every bitboard is below 2^64 (a push target computed from
                       an empty shifted mask is `ctz64 0 = 64`, which must not be an occupied square) and
                       `turn b < 2`.
   * `rights_wf b`     a castling right that is held implies the king and that rook stand on their original
                       squares.  `wf` does not say so and FEN parsing does not check it
                       (`4k3/8/8/8/8/8/8/4K3 w Q - 0 1` is accepted): castling then "moves" a rook that is not
                       there and unmake puts a rook on a1.  `C03_needs_rights_wf` below is that witness.
                       It holds in the start position and is preserved by every generated move (the
                       *_lost_* flags), so it holds in every position reachable in a game.
   * `tables_castle_ok T`  the castling EMPTY masks dumped from /repo contain the squares the king and the rook
                       land on (c1,d1 / f1,g1 / c8,d8 / f8,g8); discharged for Gen tables by vm_compute.
   * `half b < 4096`   the PREVIOUS_HALFMOVE field has 12 bits (`C03_halfmove_refuted_at_4096`).
   NOT needed: any condition on the en-passant square.  With a bogus e.p. square the capture "takes" whatever
   (or nothing) stands behind the target: make clears that bit in the passive PAWN board, unmake ORs it into
   the board of the piece that `piece_attacked` recorded, and because piece_attacked was read off the same
   square both are no-ops or exact inverses (lemma `ep_victim_roundtrip`). *)
Require Import Ink.Lib.Str.
Require Import NArith ZArith List Bool Lia.
Require Import Ink.Lib.Bits Ink.Model.Tables Ink.Model.Board Ink.Model.Fen Ink.Model.Notation.
Require Import Ink.Proofs.BitFacts Ink.Proofs.GenShape.
Import ListNotations.
Open Scope N_scope.

(* ================= piece boards of one side ================= *)
Ltac case_piece k := destruct k as [|[[[?|?|]|[?|?|]|]|[[?|?|]|[?|?|]|]|]].

Lemma set_occ_same p k : set_occ p k (occ_of p k) = p.
Proof. destruct p; case_piece k; reflexivity. Qed.

Lemma qs_set_occ p k v : qs (set_occ p k v) = qs p.
Proof. destruct p; case_piece k; reflexivity. Qed.
Lemma ks_set_occ p k v : ks (set_occ p k v) = ks p.
Proof. destruct p; case_piece k; reflexivity. Qed.
Lemma occ_of_set_rights p q r k : occ_of (set_rights p q r) k = occ_of p k.
Proof. destruct p; case_piece k; reflexivity. Qed.
Lemma set_occ_set_rights p q r k v : set_occ (set_rights p q r) k v = set_rights (set_occ p k v) q r.
Proof. destruct p; case_piece k; reflexivity. Qed.
Lemma set_rights_set_rights p q r q' r' : set_rights (set_rights p q r) q' r' = set_rights p q' r'.
Proof. destruct p; reflexivity. Qed.
Lemma set_rights_same p : set_rights p (qs p) (ks p) = p.
Proof. destruct p; reflexivity. Qed.
Lemma qs_set_rights p q r : qs (set_rights p q r) = q.
Proof. reflexivity. Qed.
Lemma ks_set_rights p q r : ks (set_rights p q r) = r.
Proof. reflexivity. Qed.

Lemma clr_occ_set_rights p q r k m : clr_occ (set_rights p q r) k m = set_rights (clr_occ p k m) q r.
Proof. unfold clr_occ. now rewrite occ_of_set_rights, set_occ_set_rights. Qed.
Lemma or_occ_set_rights p q r k m : or_occ (set_rights p q r) k m = set_rights (or_occ p k m) q r.
Proof. unfold or_occ. now rewrite occ_of_set_rights, set_occ_set_rights. Qed.
Lemma qs_clr_occ p k m : qs (clr_occ p k m) = qs p.
Proof. apply qs_set_occ. Qed.
Lemma ks_clr_occ p k m : ks (clr_occ p k m) = ks p.
Proof. apply ks_set_occ. Qed.
Lemma qs_or_occ p k m : qs (or_occ p k m) = qs p.
Proof. apply qs_set_occ. Qed.
Lemma ks_or_occ p k m : ks (or_occ p k m) = ks p.
Proof. apply ks_set_occ. Qed.
Lemma do_castle_set_rights p q r a b c d : do_castle (set_rights p q r) a b c d = set_rights (do_castle p a b c d) q r.
Proof. unfold do_castle. now rewrite !clr_occ_set_rights, !or_occ_set_rights. Qed.
Lemma qs_do_castle p a b c d : qs (do_castle p a b c d) = qs p.
Proof. unfold do_castle. now rewrite !qs_or_occ, !qs_clr_occ. Qed.
Lemma ks_do_castle p a b c d : ks (do_castle p a b c d) = ks p.
Proof. unfold do_castle. now rewrite !ks_or_occ, !ks_clr_occ. Qed.

(* a right is only taken away when it was held: giving it back restores the old value *)
Lemma restore_right (lost held : bool) : (lost = true -> held = true) ->
  (if lost then true else (if lost then false else held)) = held.
Proof. destruct lost; intros H; [symmetry; now apply H|reflexivity]. Qed.

(* ---------- round trips on one side ---------- *)
(* the mover's piece: clear s, set t / set s, clear t *)
Lemma mover_roundtrip p k sm tm : sub sm (occ_of p k) -> N.land (occ_of p k) tm = 0 ->
  clr_occ (or_occ (or_occ (clr_occ p k sm) k tm) k sm) k tm = p.
Proof.
  intros Hs Ht. destruct p; case_piece k; cbn in *; try reflexivity; f_equal; apply move_and_back; assumption.
Qed.

(* the same with unmake clearing t before setting s (the en-passant arm) *)
Lemma mover_roundtrip' p k sm tm : sub sm (occ_of p k) -> N.land (occ_of p k) tm = 0 ->
  or_occ (clr_occ (or_occ (clr_occ p k sm) k tm) k tm) k sm = p.
Proof.
  intros Hs Ht. destruct p; case_piece k; cbn in *; try reflexivity; f_equal; apply move_and_back'; assumption.
Qed.

(* promotion: pawn leaves s, piece `pr` appears on t / pawn back on s, piece removed from t *)
Lemma promo_roundtrip p pr sm tm : In pr PROMO_PIECES -> sub sm (pawns p) -> N.land (occ_of p pr) tm = 0 ->
  clr_occ (or_occ (or_occ (clr_occ p PAWN sm) pr tm) PAWN sm) pr tm = p.
Proof.
  intros Hpr Hs Ht. destruct p. destruct Hpr as [<-|[<-|[<-|[<-|[]]]]]; cbn in *; f_equal;
    first [apply clear_then_set; assumption | apply set_then_clear; assumption].
Qed.

(* the captured piece is exactly the passive piece standing on the target (or none) *)
Lemma piece_at_cases p t :
  let pa := piece_at p t in
  (pa = NO_PIECE \/ (In pa [PAWN; KNIGHT; BISHOP; ROOK; QUEEN; KING] /\ N.testbit (occ_of p pa) t = true)) /\
  (pa <> PAWN -> N.testbit (pawns p) t = false).
Proof.
  unfold piece_at, piece_at_mask. cbv zeta.
  destruct (nz (N.land (pawns p) (bit t))) eqn:E1.
  { apply nz_true, land_nonzero_testbit in E1. split; [right; split; [cbn [In]; tauto|exact E1]|congruence]. }
  apply nz_false, land_zero_testbit in E1.
  destruct (nz (N.land (knights p) (bit t))) eqn:E2.
  { apply nz_true, land_nonzero_testbit in E2. split; [right; split; [cbn [In]; tauto|exact E2]|intros _; exact E1]. }
  destruct (nz (N.land (bishops p) (bit t))) eqn:E3.
  { apply nz_true, land_nonzero_testbit in E3. split; [right; split; [cbn [In]; tauto|exact E3]|intros _; exact E1]. }
  destruct (nz (N.land (rooks p) (bit t))) eqn:E4.
  { apply nz_true, land_nonzero_testbit in E4. split; [right; split; [cbn [In]; tauto|exact E4]|intros _; exact E1]. }
  destruct (nz (N.land (queens p) (bit t))) eqn:E5.
  { apply nz_true, land_nonzero_testbit in E5. split; [right; split; [cbn [In]; tauto|exact E5]|intros _; exact E1]. }
  destruct (nz (N.land (kings p) (bit t))) eqn:E6.
  { apply nz_true, land_nonzero_testbit in E6. split; [right; split; [cbn [In]; tauto|exact E6]|intros _; exact E1]. }
  split; [now left|intros _; exact E1].
Qed.

Lemma or_occ_sub p k m : sub m (occ_of p k) -> or_occ p k m = p.
Proof. intros H. unfold or_occ. rewrite (set_sub _ _ H). apply set_occ_same. Qed.
Lemma or_occ_nopiece p m : or_occ p NO_PIECE m = p.
Proof. reflexivity. Qed.
Lemma clr_occ_nopiece p m : clr_occ p NO_PIECE m = p.
Proof. reflexivity. Qed.
Lemma clr_occ_disjoint p k m : N.land (occ_of p k) m = 0 -> clr_occ p k m = p.
Proof. intros H. unfold clr_occ. rewrite (clear_disjoint _ _ H). apply set_occ_same. Qed.
Lemma clr_then_or p k m : sub m (occ_of p k) -> or_occ (clr_occ p k m) k m = p.
Proof.
  intros H. destruct p; case_piece k; cbn in *; try reflexivity; f_equal; apply clear_then_set; try assumption.
Qed.

Lemma capture_roundtrip p t : or_occ (clr_occ p (piece_at p t) (bit t)) (piece_at p t) (bit t) = p.
Proof.
  destruct (piece_at_cases p t) as [[H0|[_ H1]] _].
  - rewrite H0. reflexivity.
  - apply clr_then_or. now apply sub_bit.
Qed.

(* en passant: make clears `v` in the passive PAWN board, unmake ORs `v` into the board of the piece that was
   found on square `a`.  v is the mask of a, or empty when a falls off the board. *)
Lemma ep_victim_roundtrip p a v : v = 0 \/ v = bit a ->
  or_occ (clr_occ p PAWN v) (piece_at p a) v = p.
Proof.
  intros [->| ->].
  - unfold clr_occ. rewrite clear_0, set_occ_same. unfold or_occ. rewrite N.lor_0_r. apply set_occ_same.
  - destruct (piece_at_cases p a) as [[H0|[Hin H1]] Hp].
    + rewrite H0, or_occ_nopiece. apply clr_occ_disjoint. apply land_bit_0. apply Hp. rewrite H0. discriminate.
    + destruct (N.eq_dec (piece_at p a) PAWN) as [E|E].
      * rewrite E in *. apply clr_then_or. now apply sub_bit.
      * rewrite clr_occ_disjoint by (apply land_bit_0; now apply Hp).
        apply or_occ_sub. now apply sub_bit.
Qed.

Lemma castle_roundtrip p rf kf rt kt :
  sub (bit rf) (rooks p) -> N.land (rooks p) (bit rt) = 0 -> sub (bit kf) (kings p) -> N.land (kings p) (bit kt) = 0 ->
  do_castle (do_castle p rf kf rt kt) rt kt rf kf = p.
Proof.
  intros H1 H2 H3 H4. destruct p. unfold do_castle. cbn in *. f_equal; apply move_and_back'; assumption.
Qed.

(* ================= make / unmake split into "pieces and rights" and "the rest" ================= *)
Definition assemble (wt : bool) (a p : pstate) (t e f h : N) : board :=
  if wt then {| white := a; black := p; turn := t; ep := e; full := f; half := h |}
  else {| white := p; black := a; turn := t; ep := e; full := f; half := h |}.

Definition sides_make (wt : bool) (act0 pas0 : pstate) (m : move) : option (pstate * pstate) :=
  let act1 := set_rights act0 (if self_lost_qs m then false else qs act0) (if self_lost_ks m then false else ks act0) in
  let pas1 := set_rights pas0 (if opp_lost_qs m then false else qs pas0) (if opp_lost_ks m then false else ks pas0) in
  let sm := bit (src m) in let tm := bit (dst m) in
  if castle m then
    match castle_squares (dst m) with
    | Some (rf, rt) => Some (do_castle act1 rf (src m) rt (dst m), pas1)
    | None => None
    end
  else if ep_attack m then
    let a := or_occ (clr_occ act1 PAWN sm) PAWN tm in
    let victim := if wt then w64 (N.shiftl tm 8) else N.shiftr tm 8 in
    Some (a, clr_occ pas1 PAWN victim)
  else if negb (promo m =? NO_PIECE) then
    let a := or_occ (clr_occ act1 PAWN sm) (promo m) tm in
    Some (a, clr_occ pas1 (piece_attacked m) tm)
  else
    let a := or_occ (clr_occ act1 (piece_moved m) sm) (piece_moved m) tm in
    Some (a, clr_occ pas1 (piece_attacked m) tm).

(* `wt` is the mover's colour, i.e. the negation of is_white_turn of the board being unmade *)
Definition sides_unmake (wt : bool) (act0 pas0 : pstate) (m : move) : option (pstate * pstate) :=
  let act1 := set_rights act0 (if self_lost_qs m then true else qs act0) (if self_lost_ks m then true else ks act0) in
  let pas1 := set_rights pas0 (if opp_lost_qs m then true else qs pas0) (if opp_lost_ks m then true else ks pas0) in
  let sm := bit (src m) in let tm := bit (dst m) in
  if castle m then
    match castle_squares (dst m) with
    | Some (rf, rt) => Some (do_castle act1 rt (dst m) rf (src m), pas1)
    | None => None
    end
  else if ep_attack m then
    let a := or_occ (clr_occ act1 PAWN tm) PAWN sm in
    let victim := if negb wt then N.shiftr tm 8 else w64 (N.shiftl tm 8) in
    Some (a, or_occ pas1 (piece_attacked m) victim)
  else if negb (promo m =? NO_PIECE) then
    let p := or_occ pas1 (piece_attacked m) tm in
    let a := clr_occ (or_occ act1 PAWN sm) (promo m) tm in
    Some (a, p)
  else
    let p := or_occ pas1 (piece_attacked m) tm in
    let a := clr_occ (or_occ act1 (piece_moved m) sm) (piece_moved m) tm in
    Some (a, p).

Lemma make_split b m :
  make b m = match sides_make (is_white_turn b) (active b) (passive b) m with
             | None => None
             | Some (a, p) => Some (assemble (is_white_turn b) a p (opposite (turn b)) (next_ep m) (full b + turn b)
                                             (if half_reset m then 0 else half b + 1))
             end.
Proof. reflexivity. Qed.

Lemma unmake_split t a p e f h m : t = 0 \/ t = 1 ->
  unmake (assemble (t =? WHITE) a p (opposite t) e f h) m =
  match sides_unmake (t =? WHITE) a p m with
  | None => None
  | Some (a', p') => Some (assemble (t =? WHITE) a' p' t (prev_ep m) (f - (1 - opposite t)) (prev_half m))
  end.
Proof. intros [->| ->]; reflexivity. Qed.

Lemma board_assemble b : b = assemble (is_white_turn b) (active b) (passive b) (turn b) (ep b) (full b) (half b).
Proof. destruct b as [w k t e f h]. unfold active, passive, is_white_turn, assemble. cbn. destruct (t =? WHITE); reflexivity. Qed.

(* ================= the four kinds of move, on the two sides ================= *)
Record flags_ok (act0 pas0 : pstate) (m : move) : Prop := {
  fo_sq : self_lost_qs m = true -> qs act0 = true;
  fo_sk : self_lost_ks m = true -> ks act0 = true;
  fo_oq : opp_lost_qs m = true -> qs pas0 = true;
  fo_ok : opp_lost_ks m = true -> ks pas0 = true
}.

Definition roundtrip (wt : bool) (act0 pas0 : pstate) (m : move) : Prop :=
  exists a p, sides_make wt act0 pas0 m = Some (a, p) /\ sides_unmake wt a p m = Some (act0, pas0).

Ltac push_rights :=
  repeat first [ rewrite clr_occ_set_rights | rewrite or_occ_set_rights | rewrite do_castle_set_rights
               | rewrite set_rights_set_rights | rewrite qs_set_rights | rewrite ks_set_rights
               | rewrite qs_clr_occ | rewrite ks_clr_occ | rewrite qs_or_occ | rewrite ks_or_occ
               | rewrite qs_do_castle | rewrite ks_do_castle ].

Lemma rights_back p lq lk : (lq = true -> qs p = true) -> (lk = true -> ks p = true) ->
  set_rights p (if lq then true else (if lq then false else qs p)) (if lk then true else (if lk then false else ks p)) = p.
Proof. intros H1 H2. rewrite (restore_right lq _ H1), (restore_right lk _ H2). apply set_rights_same. Qed.

Lemma ordinary_roundtrip wt act0 pas0 m :
  flags_ok act0 pas0 m -> castle m = false -> ep_attack m = false -> promo m = NO_PIECE ->
  sub (bit (src m)) (occ_of act0 (piece_moved m)) -> N.land (occ_of act0 (piece_moved m)) (bit (dst m)) = 0 ->
  piece_attacked m = piece_at pas0 (dst m) ->
  roundtrip wt act0 pas0 m.
Proof.
  intros [F1 F2 F3 F4] Hc He Hp Hs Ht Ha. unfold roundtrip, sides_make, sides_unmake. cbv zeta.
  rewrite Hc, He, Hp. cbn [negb]. change (NO_PIECE =? NO_PIECE) with true. cbn [negb].
  eexists. eexists. split; [reflexivity|]. f_equal. f_equal.
  - push_rights. rewrite (mover_roundtrip act0 _ _ _ Hs Ht). now apply rights_back.
  - push_rights. rewrite Ha, capture_roundtrip. now apply rights_back.
Qed.

Lemma promotion_roundtrip wt act0 pas0 m :
  flags_ok act0 pas0 m -> castle m = false -> ep_attack m = false -> In (promo m) PROMO_PIECES ->
  sub (bit (src m)) (pawns act0) -> N.land (occ_of act0 (promo m)) (bit (dst m)) = 0 ->
  piece_attacked m = piece_at pas0 (dst m) ->
  roundtrip wt act0 pas0 m.
Proof.
  intros [F1 F2 F3 F4] Hc He Hp Hs Ht Ha. unfold roundtrip, sides_make, sides_unmake. cbv zeta.
  rewrite Hc, He.
  assert (Hnz : negb (promo m =? NO_PIECE) = true).
  { destruct Hp as [<-|[<-|[<-|[<-|[]]]]]; reflexivity. }
  rewrite Hnz.
  eexists. eexists. split; [reflexivity|]. f_equal. f_equal.
  - push_rights. rewrite (promo_roundtrip act0 _ _ _ Hp Hs Ht). now apply rights_back.
  - push_rights. rewrite Ha, capture_roundtrip. now apply rights_back.
Qed.

Lemma victim_cases (wt : bool) t :
  let v := if wt then w64 (N.shiftl (bit t) 8) else N.shiftr (bit t) 8 in
  let a := if wt then t + 8 else t - 8 in
  v = 0 \/ v = bit a.
Proof.
  cbv zeta. destruct wt.
  - rewrite bit_shiftl8. destruct (t + 8 <? 64); [now right|now left].
  - rewrite bit_shiftr8. destruct (8 <=? t); [now right|now left].
Qed.

Lemma ep_roundtrip (wt : bool) act0 pas0 m :
  flags_ok act0 pas0 m -> castle m = false -> ep_attack m = true ->
  sub (bit (src m)) (pawns act0) -> N.land (pawns act0) (bit (dst m)) = 0 ->
  piece_attacked m = piece_at pas0 (if wt then dst m + 8 else dst m - 8) ->
  roundtrip wt act0 pas0 m.
Proof.
  intros [F1 F2 F3 F4] Hc He Hs Ht Ha. unfold roundtrip, sides_make, sides_unmake. cbv zeta.
  rewrite Hc, He.
  eexists. eexists. split; [reflexivity|]. f_equal. f_equal.
  - push_rights. rewrite (mover_roundtrip' act0 PAWN _ _ Hs Ht). now apply rights_back.
  - push_rights. rewrite Ha.
    replace (if negb wt then N.shiftr (bit (dst m)) 8 else w64 (N.shiftl (bit (dst m)) 8))
      with (if wt then w64 (N.shiftl (bit (dst m)) 8) else N.shiftr (bit (dst m)) 8) by (destruct wt; reflexivity).
    rewrite (ep_victim_roundtrip pas0 _ _ (victim_cases wt (dst m))). now apply rights_back.
Qed.

Lemma castling_roundtrip wt act0 pas0 m rf rt :
  flags_ok act0 pas0 m -> castle m = true -> castle_squares (dst m) = Some (rf, rt) ->
  sub (bit rf) (rooks act0) -> N.land (rooks act0) (bit rt) = 0 ->
  sub (bit (src m)) (kings act0) -> N.land (kings act0) (bit (dst m)) = 0 ->
  roundtrip wt act0 pas0 m.
Proof.
  intros [F1 F2 F3 F4] Hc Hsq H1 H2 H3 H4. unfold roundtrip, sides_make, sides_unmake. cbv zeta.
  rewrite Hc, Hsq.
  eexists. eexists. split; [reflexivity|]. f_equal. f_equal.
  - push_rights. rewrite (castle_roundtrip act0 _ _ _ _ H1 H2 H3 H4). now apply rights_back.
  - push_rights. now apply rights_back.
Qed.

(* ================= side conditions ================= *)
(* a held castling right implies king and rook on their original squares *)
Definition rights_wf (b : board) : bool :=
  (negb (qs (white b)) || (N.testbit (rooks (white b)) A1 && N.testbit (kings (white b)) E1)) &&
  (negb (ks (white b)) || (N.testbit (rooks (white b)) H1 && N.testbit (kings (white b)) E1)) &&
  (negb (qs (black b)) || (N.testbit (rooks (black b)) A8 && N.testbit (kings (black b)) E8)) &&
  (negb (ks (black b)) || (N.testbit (rooks (black b)) H8 && N.testbit (kings (black b)) E8)).

(* the castling EMPTY masks cover the landing squares of king and rook *)
Definition tables_castle_ok (T : Tables.t) : bool :=
  N.testbit (wq_empty T) C1 && N.testbit (wq_empty T) D1 && N.testbit (wk_empty T) F1 && N.testbit (wk_empty T) G1 &&
  N.testbit (bq_empty T) C8 && N.testbit (bq_empty T) D8 && N.testbit (bk_empty T) F8 && N.testbit (bk_empty T) G8.

Lemma rights_wf_elim b : rights_wf b = true ->
  (qs (white b) = true -> N.testbit (rooks (white b)) A1 = true /\ N.testbit (kings (white b)) E1 = true) /\
  (ks (white b) = true -> N.testbit (rooks (white b)) H1 = true /\ N.testbit (kings (white b)) E1 = true) /\
  (qs (black b) = true -> N.testbit (rooks (black b)) A8 = true /\ N.testbit (kings (black b)) E8 = true) /\
  (ks (black b) = true -> N.testbit (rooks (black b)) H8 = true /\ N.testbit (kings (black b)) E8 = true).
Proof.
  unfold rights_wf. rewrite !andb_true_iff. intros (((H1 & H2) & H3) & H4).
  split; [|split; [|split]]; intros E.
  - rewrite E in H1. cbn [negb orb] in H1. now apply andb_true_iff in H1.
  - rewrite E in H2. cbn [negb orb] in H2. now apply andb_true_iff in H2.
  - rewrite E in H3. cbn [negb orb] in H3. now apply andb_true_iff in H3.
  - rewrite E in H4. cbn [negb orb] in H4. now apply andb_true_iff in H4.
Qed.

Section WithTables.
Variable T : Tables.t.

Lemma flags_ok_mk b s t pc ic ie pr epo : flags_ok (active b) (passive b) (mk T b s t pc ic ie pr epo).
Proof.
  unfold mk. cbv zeta. constructor; cbn [self_lost_qs self_lost_ks opp_lost_qs opp_lost_ks]; intros H.
  - now apply andb_true_iff in H as [H _].
  - now apply andb_true_iff in H as [H _].
  - now apply andb_true_iff in H as [H _].
  - apply andb_true_iff in H as [H _]. now apply andb_true_iff in H as [_ H].
Qed.

Lemma mk_attacked_noep b s t pc ic pr epo :
  piece_attacked (mk T b s t pc ic false pr epo) = piece_at (passive b) t.
Proof. unfold mk. cbv zeta. cbn [piece_attacked]. destruct (is_white_turn b); now rewrite ?N.add_0_r, ?N.sub_0_r. Qed.

Lemma mk_attacked_ep b s t pc ic pr epo :
  piece_attacked (mk T b s t pc ic true pr epo) = piece_at (passive b) (if is_white_turn b then t + 8 else t - 8).
Proof. reflexivity. Qed.

Lemma cleared_not_in_active b att t k :
  N.testbit (clear att (full_occ (active b))) t = true -> N.land (occ_of (active b) k) (bit t) = 0.
Proof.
  intros H. rewrite clear_testbit in H. apply andb_true_iff in H as [_ H]. apply negb_true_iff in H.
  apply land_bit_0. destruct (N.testbit (occ_of (active b) k) t) eqn:E; [|reflexivity].
  apply occ_of_sub_full in E. congruence.
Qed.

Lemma single_push_cases b s : single_push b s = 0 \/ exists k, single_push b s = bit k.
Proof.
  unfold single_push. destruct (is_white_turn b).
  - rewrite bit_shiftr8. destruct (8 <=? s); [right; eexists; reflexivity|now left].
  - rewrite bit_shiftl8. destruct (s + 8 <? 64); [right; eexists; reflexivity|now left].
Qed.

Lemma double_push_cases b s : double_push b s = 0 \/ exists k, double_push b s = bit k.
Proof.
  unfold double_push. destruct (single_push_cases b s) as [->|(k & ->)]; destruct (is_white_turn b).
  - left. apply N.shiftr_0_l.
  - left. rewrite N.shiftl_0_l. reflexivity.
  - rewrite bit_shiftr8. destruct (8 <=? k); [right; eexists; reflexivity|now left].
  - rewrite bit_shiftl8. destruct (k + 8 <? 64); [right; eexists; reflexivity|now left].
Qed.

(* the target of a push is not one of the mover's squares (64 when the shifted mask is empty) *)
Lemma push_target_free b x k : wf b = true -> (x = 0 \/ exists j, x = bit j) -> N.land x (all_occ b) = 0 ->
  N.land (occ_of (active b) k) (bit (ctz64 x)) = 0.
Proof.
  intros Hwf Hx Hfree. apply land_bit_0.
  destruct (N.testbit (occ_of (active b) k) (ctz64 x)) eqn:E; [exfalso|reflexivity].
  destruct Hx as [->|(j & ->)].
  - rewrite ctz64_0 in E. rewrite (testbit_small _ 64 64) in E; [discriminate| |lia].
    apply occ_of_lt. now apply active_bounded.
  - rewrite ctz64_bit in E. apply occ_of_sub_full in E.
    assert (X : N.testbit (all_occ b) j = true) by (unfold all_occ; now rewrite N.lor_spec, E).
    rewrite N.land_comm in Hfree. rewrite (land_zero_testbit _ _ Hfree) in X. discriminate.
Qed.

Lemma castle_landing_free b e sq :
  N.land (all_occ b) e = 0 -> N.testbit e sq = true -> forall k, N.land (occ_of (active b) k) (bit sq) = 0.
Proof.
  intros H Hsq k. apply land_bit_0. destruct (N.testbit (occ_of (active b) k) sq) eqn:E; [exfalso|reflexivity].
  apply occ_of_sub_full in E.
  assert (X : N.testbit (all_occ b) sq = true) by (unfold all_occ; now rewrite N.lor_spec, E).
  rewrite (land_0_testbit _ _ sq H Hsq) in X. discriminate.
Qed.

Theorem generated_roundtrip b m :
  wf b = true -> rights_wf b = true -> tables_castle_ok T = true -> generated T b m ->
  roundtrip (is_white_turn b) (active b) (passive b) m.
Proof.
  intros Hwf Hr HT (s & t & pc & ic & ie & pr & epo & Hc & ->).
  pose proof (flags_ok_mk b s t pc ic ie pr epo) as HF.
  destruct Hc as [s t pc att Hin Hs Ht | s t pr Hs Ht Hrk Hpr | s t Hs Ht Hrk | s pr Hs Hfree Hrk Hpr
                 | s Hs Hfree Hrk | s Hs Hfree Hrk Hdr Hfree2 | Hwt Hq He | Hwt Hq He | Hwt Hq He | Hwt Hq He].
  - (* knight, bishop, rook, queen, king *)
    apply ordinary_roundtrip; try reflexivity; try exact HF.
    + now apply sub_bit.
    + exact (cleared_not_in_active b att t pc Ht).
    + apply mk_attacked_noep.
  - (* capture with promotion *)
    apply promotion_roundtrip; try reflexivity; try exact HF.
    + exact Hpr.
    + now apply sub_bit.
    + exact (cleared_not_in_active b _ t pr Ht).
    + apply mk_attacked_noep.
  - (* pawn capture, possibly en passant *)
    destruct (t =? ep b).
    + apply ep_roundtrip; try reflexivity; try exact HF.
      * now apply sub_bit.
      * exact (cleared_not_in_active b _ t PAWN Ht).
    + apply ordinary_roundtrip; try reflexivity; try exact HF.
      * now apply sub_bit.
      * exact (cleared_not_in_active b _ t PAWN Ht).
      * apply mk_attacked_noep.
  - (* push with promotion *)
    apply promotion_roundtrip; try reflexivity; try exact HF.
    + exact Hpr.
    + now apply sub_bit.
    + exact (push_target_free b _ pr Hwf (single_push_cases b s) Hfree).
    + apply mk_attacked_noep.
  - (* single push *)
    apply ordinary_roundtrip; try reflexivity; try exact HF.
    + now apply sub_bit.
    + exact (push_target_free b _ PAWN Hwf (single_push_cases b s) Hfree).
    + apply mk_attacked_noep.
  - (* double push *)
    apply ordinary_roundtrip; try reflexivity; try exact HF.
    + now apply sub_bit.
    + exact (push_target_free b _ PAWN Hwf (double_push_cases b s) Hfree2).
    + apply mk_attacked_noep.
  - (* white O-O-O *)
    destruct (rights_wf_elim b Hr) as (R & _). destruct (R Hq) as [Rr Rk].
    unfold tables_castle_ok in HT. rewrite !andb_true_iff in HT.
    destruct HT as (((((((T1 & T2) & T3) & T4) & T5) & T6) & T7) & T8).
    assert (Ea : active b = white b) by (unfold active; now rewrite Hwt).
    apply (castling_roundtrip _ _ _ _ A1 D1); try reflexivity; try exact HF; rewrite ?Ea.
    + now apply sub_bit.
    + rewrite <- Ea. exact (castle_landing_free b _ D1 He T2 ROOK).
    + now apply sub_bit.
    + rewrite <- Ea. exact (castle_landing_free b _ C1 He T1 KING).
  - (* white O-O *)
    destruct (rights_wf_elim b Hr) as (_ & R & _). destruct (R Hq) as [Rr Rk].
    unfold tables_castle_ok in HT. rewrite !andb_true_iff in HT.
    destruct HT as (((((((T1 & T2) & T3) & T4) & T5) & T6) & T7) & T8).
    assert (Ea : active b = white b) by (unfold active; now rewrite Hwt).
    apply (castling_roundtrip _ _ _ _ H1 F1); try reflexivity; try exact HF; rewrite ?Ea.
    + now apply sub_bit.
    + rewrite <- Ea. exact (castle_landing_free b _ F1 He T3 ROOK).
    + now apply sub_bit.
    + rewrite <- Ea. exact (castle_landing_free b _ G1 He T4 KING).
  - (* black O-O-O *)
    destruct (rights_wf_elim b Hr) as (_ & _ & R & _). destruct (R Hq) as [Rr Rk].
    unfold tables_castle_ok in HT. rewrite !andb_true_iff in HT.
    destruct HT as (((((((T1 & T2) & T3) & T4) & T5) & T6) & T7) & T8).
    assert (Ea : active b = black b) by (unfold active; now rewrite Hwt).
    apply (castling_roundtrip _ _ _ _ A8 D8); try reflexivity; try exact HF; rewrite ?Ea.
    + now apply sub_bit.
    + rewrite <- Ea. exact (castle_landing_free b _ D8 He T6 ROOK).
    + now apply sub_bit.
    + rewrite <- Ea. exact (castle_landing_free b _ C8 He T5 KING).
  - (* black O-O *)
    destruct (rights_wf_elim b Hr) as (_ & _ & _ & R). destruct (R Hq) as [Rr Rk].
    unfold tables_castle_ok in HT. rewrite !andb_true_iff in HT.
    destruct HT as (((((((T1 & T2) & T3) & T4) & T5) & T6) & T7) & T8).
    assert (Ea : active b = black b) by (unfold active; now rewrite Hwt).
    apply (castling_roundtrip _ _ _ _ H8 F8); try reflexivity; try exact HF; rewrite ?Ea.
    + now apply sub_bit.
    + rewrite <- Ea. exact (castle_landing_free b _ F8 He T7 ROOK).
    + now apply sub_bit.
    + rewrite <- Ea. exact (castle_landing_free b _ G8 He T8 KING).
Qed.

End WithTables.

(* ================= C03 ================= *)
Section C03.
Variable T : Tables.t.
Hypothesis HT : tables_castle_ok T = true.

Theorem generated_unmake_make b m :
  wf b = true -> rights_wf b = true -> generated T b m -> half b < 4096 ->
  exists b', make b m = Some b' /\ unmake b' m = Some b.
Proof.
  intros Hwf Hr Hg Hh.
  destruct (generated_roundtrip T b m Hwf Hr HT Hg) as (a & p & Hm & Hu).
  destruct Hg as (s & t & pc & ic & ie & pr & epo & _ & ->).
  destruct (wf_elim b Hwf) as (_ & _ & Hturn & _). apply turn_cases in Hturn.
  rewrite make_split, Hm. eexists. split; [reflexivity|].
  unfold is_white_turn. rewrite (unmake_split (turn b) a p _ _ _ _ Hturn).
  fold (is_white_turn b). rewrite Hu. f_equal.
  assert (E1 : prev_ep (mk T b s t pc ic ie pr epo) = ep b) by reflexivity.
  assert (E2 : prev_half (mk T b s t pc ic ie pr epo) = half b).
  { change (half b mod 4096 = half b). now apply N.mod_small. }
  assert (E3 : full b + turn b - (1 - opposite (turn b)) = full b).
  { unfold opposite. destruct Hturn as [-> | ->]; lia. }
  rewrite E1, E2, E3. symmetry. apply board_assemble.
Qed.

(* the main theorem *)
Theorem C03_unmake_make b m :
  wf b = true -> rights_wf b = true -> In m (gen_pseudo T b) -> half b < 4096 ->
  exists b', make b m = Some b' /\ unmake b' m = Some b.
Proof. intros Hwf Hr Hin. apply generated_unmake_make; try assumption. now apply gen_pseudo_cases. Qed.

(* the same for the quiescence generator *)
Theorem C03_unmake_make_nonquiet b m :
  wf b = true -> rights_wf b = true -> In m (gen_nonquiet T b) -> half b < 4096 ->
  exists b', make b m = Some b' /\ unmake b' m = Some b.
Proof. intros Hwf Hr Hin. apply generated_unmake_make; try assumption. now apply gen_nonquiet_cases. Qed.

(* both hashes are functions of the modelled position, so they come back too *)
Theorem C03_hashes b m :
  wf b = true -> rights_wf b = true -> In m (gen_pseudo T b) -> half b < 4096 ->
  exists b' b'', make b m = Some b' /\ unmake b' m = Some b'' /\
                 zobrist_hash T b'' = zobrist_hash T b /\ pawn_hash T b'' = pawn_hash T b.
Proof.
  intros Hwf Hr Hin Hh. destruct (C03_unmake_make b m Hwf Hr Hin Hh) as (b' & H1 & H2).
  exists b', b. repeat split; assumption.
Qed.

(* ---------- whole lines ---------- *)
Fixpoint make_all (b : board) (ms : list move) : option board :=
  match ms with
  | [] => Some b
  | m :: r => match make b m with Some b' => make_all b' r | None => None end
  end.

(* every move is pseudo-legal in the position where it is made, and every position on the way satisfies the
   hypotheses of C03_unmake_make *)
Fixpoint line_ok (b : board) (ms : list move) : Prop :=
  match ms with
  | [] => True
  | m :: r => wf b = true /\ rights_wf b = true /\ half b < 4096 /\ In m (gen_pseudo T b) /\
              forall b', make b m = Some b' -> line_ok b' r
  end.

Lemma unmake_all_none ms : unmake_all None ms = None.
Proof. destruct ms; reflexivity. Qed.

Lemma unmake_all_app ms1 : forall x ms2, unmake_all x (ms1 ++ ms2) = unmake_all (unmake_all x ms1) ms2.
Proof.
  induction ms1 as [|m r IH]; intros x ms2; cbn [app unmake_all]; [reflexivity|].
  destruct x as [bx|]; [apply IH|]. symmetry. apply unmake_all_none.
Qed.

Theorem C03_line ms : forall b b',
  line_ok b ms -> make_all b ms = Some b' -> unmake_all (Some b') (rev ms) = Some b.
Proof.
  induction ms as [|m r IH]; intros b b' Hok Hmk; cbn [make_all rev] in *.
  - injection Hmk as <-. reflexivity.
  - destruct Hok as (Hwf & Hr & Hh & Hin & Hnext).
    destruct (C03_unmake_make b m Hwf Hr Hin Hh) as (b1 & H1 & H2).
    rewrite H1 in Hmk. rewrite unmake_all_app, (IH b1 b' (Hnext b1 H1) Hmk).
    cbn [unmake_all]. exact H2.
Qed.

Theorem C03_line_total ms : forall b, line_ok b ms -> exists b', make_all b ms = Some b'.
Proof.
  induction ms as [|m r IH]; intros b Hok; cbn [make_all].
  - now exists b.
  - destruct Hok as (Hwf & Hr & Hh & Hin & Hnext).
    destruct (C03_unmake_make b m Hwf Hr Hin Hh) as (b1 & H1 & _). rewrite H1. exact (IH b1 (Hnext b1 H1)).
Qed.

End C03.

(* ================= the tables of the current /repo, witnesses ================= *)
Require Ink.Gen.Tables.
Notation gen_tables := Ink.Gen.Tables.tables.

Lemma gen_tables_castle_ok : tables_castle_ok gen_tables = true.
Proof. vm_compute. reflexivity. Qed.

Lemma find_first_In {A} (f : A -> bool) l x : find_first f l = Some x -> In x l.
Proof.
  induction l as [|y r IH]; cbn [find_first]; [discriminate|].
  destruct (f y); [intros [= ->]; now left|intros H; right; now apply IH].
Qed.

Definition dummy_move : move :=
  {| piece_moved := 0; piece_attacked := 0; self_lost_ks := false; self_lost_qs := false; opp_lost_ks := false;
     opp_lost_qs := false; castle := false; ep_attack := false; src := 0; dst := 0; half_reset := false;
     prev_half := 0; prev_ep := 0; next_ep := 0; promo := 0; side := 0; mvvlva := 0%Z |}.
Definition dummy_board : board :=
  {| white := empty_pstate; black := empty_pstate; turn := 0; ep := 0; full := 0; half := 0 |}.
Definition board_of_text (s : str) : board := match from_fen_string s with inr b => b | inl _ => dummy_board end.
Definition pick_move (b : board) (f : move -> bool) : move :=
  match find_first f (gen_pseudo gen_tables b) with Some m => m | None => dummy_move end.
Definition after_make (b : board) (m : move) : board := match make b m with Some b' => b' | None => dummy_board end.
Definition after_unmake (b : board) (m : move) : board := match unmake b m with Some b' => b' | None => dummy_board end.

Lemma pick_move_In b f : (match find_first f (gen_pseudo gen_tables b) with Some _ => true | None => false end) = true ->
  In (pick_move b f) (gen_pseudo gen_tables b).
Proof.
  unfold pick_move. destruct (find_first f (gen_pseudo gen_tables b)) as [m|] eqn:E; [intros _|discriminate].
  exact (find_first_In f _ m E).
Qed.

(* rights_wf is necessary: a FEN-accepted board with the right `Q` but no rook on a1.  The generator emits
   O-O-O, make/unmake leave a white rook on a1 that was never there. *)
Definition cx_rights_board : board := board_of_text (lit "4k3/8/8/8/8/8/8/4K3 w Q - 0 1").
Definition cx_rights_move : move := pick_move cx_rights_board castle.

Lemma C03_needs_rights_wf : exists b m b' b'',
  wf b = true /\ rights_wf b = false /\ half b < 4096 /\ In m (gen_pseudo gen_tables b) /\
  make b m = Some b' /\ unmake b' m = Some b'' /\
  rooks (white b) = 0 /\ rooks (white b'') = bit A1.
Proof.
  exists cx_rights_board, cx_rights_move, (after_make cx_rights_board cx_rights_move),
         (after_unmake (after_make cx_rights_board cx_rights_move) cx_rights_move).
  split; [vm_compute; reflexivity|]. split; [vm_compute; reflexivity|]. split; [vm_compute; reflexivity|].
  split; [apply pick_move_In; vm_compute; reflexivity|].
  split; [vm_compute; reflexivity|]. split; [vm_compute; reflexivity|].
  split; vm_compute; reflexivity.
Qed.

(* the 12-bit PREVIOUS_HALFMOVE field is the limit: at clock 4096 the clock comes back as 0 *)
Definition cx_half_board : board := board_of_text (lit "rnbqkbnr/pppppppp/8/8/8/8/PPPPPPPP/RNBQKBNR w KQkq - 4096 1").
Definition cx_half_move : move := pick_move cx_half_board (fun m => piece_moved m =? KNIGHT).

Lemma C03_halfmove_refuted_at_4096 : exists b m b' b'',
  wf b = true /\ rights_wf b = true /\ In m (gen_pseudo gen_tables b) /\ half b = 4096 /\
  make b m = Some b' /\ unmake b' m = Some b'' /\ half b'' = 0.
Proof.
  exists cx_half_board, cx_half_move, (after_make cx_half_board cx_half_move),
         (after_unmake (after_make cx_half_board cx_half_move) cx_half_move).
  split; [vm_compute; reflexivity|]. split; [vm_compute; reflexivity|].
  split; [apply pick_move_In; vm_compute; reflexivity|].
  split; [vm_compute; reflexivity|]. split; [vm_compute; reflexivity|]. split; vm_compute; reflexivity.
Qed.

(* a bogus en-passant square does no harm (no `ep_wf` hypothesis is needed): black knight on the e.p. square e6,
   nothing on e5; d5xe6 is generated as an e.p. capture and still taken back exactly *)
Definition cx_ep_board : board := board_of_text (lit "4k3/8/4n3/3P4/8/8/8/4K3 w - e6 0 1").
Definition cx_ep_move : move := pick_move cx_ep_board ep_attack.

Lemma C03_bogus_ep_still_restored : exists b m b',
  wf b = true /\ In m (gen_pseudo gen_tables b) /\ ep_attack m = true /\ piece_attacked m = NO_PIECE /\
  make b m = Some b' /\ unmake b' m = Some b.
Proof.
  exists cx_ep_board, cx_ep_move, (after_make cx_ep_board cx_ep_move).
  split; [vm_compute; reflexivity|]. split; [apply pick_move_In; vm_compute; reflexivity|].
  split; [vm_compute; reflexivity|]. split; [vm_compute; reflexivity|]. split; vm_compute; reflexivity.
Qed.

(* the defect fixed in /repo commit 866d7e7, frozen: `(value << SHIFT) as u64` shifted in u32, so only the
   low 32 - 25 = 7 bits of the clock survived *)
Definition prev_half_pinned (h : N) : N := (h * 2 ^ 25 mod 2 ^ 32) / 2 ^ 25.
Example pinned_loses_bits : prev_half_pinned 130 = 2.
Proof. vm_compute. reflexivity. Qed.

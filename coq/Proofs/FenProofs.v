(* C12: the FEN reader and writer of the model (Model/Fen.v) against the independent FEN spec (Spec/FenSpec.v). *)
Require Import Ink.Lib.Str.
Require Import NArith ZArith List Bool Lia.
Require Import Ink.Lib.Bits Ink.Model.Board Ink.Model.Fen Ink.Spec.Rules Ink.Spec.FenSpec Ink.Proofs.Abs Ink.Proofs.StrProofs.
Import ListNotations.
Open Scope N_scope.

Arguments N.add : simpl never.
Arguments N.sub : simpl never.
Arguments N.mul : simpl never.
Arguments N.div : simpl never.
Arguments N.modulo : simpl never.
Arguments N.eqb : simpl never.
Arguments N.ltb : simpl never.
Arguments N.leb : simpl never.
Arguments N.pow : simpl never.
Arguments Z.add : simpl never.
Arguments Z.mul : simpl never.
Arguments N.testbit : simpl never.
Arguments N.lor : simpl never.
Arguments N.land : simpl never.
Arguments N.shiftl : simpl never.
Arguments bit : simpl never.

(* ================================================================================================== *)
(* 1. bitboards <-> cell lists                                                                        *)
(* ================================================================================================== *)

Definition code (kd : kind) : N :=
  match kd with Pawn => 1 | Knight => 2 | Bishop => 3 | Rook => 4 | Queen => 5 | King => 6 end.
Lemma kind_of_code kd : kind_of (code kd) = Some kd.
Proof. destruct kd; reflexivity. Qed.

Definition piece_eqb (a b : piece) : bool := color_eqb (fst a) (fst b) && kind_eqb (snd a) (snd b).
Lemma piece_eqb_eq a b : piece_eqb a b = true <-> a = b.
Proof. destruct a as [[] []], b as [[] []]; cbn; split; congruence. Qed.

(* the bitboard that holds the pieces [pc] *)
Definition bb (w k : pstate) (pc : piece) : N :=
  occ_of (match fst pc with White => w | Black => k end) (code (snd pc)).

(* (w,k) hold exactly the pieces listed in L (square i <-> i-th entry; squares beyond L are empty) *)
Definition InvL (w k : pstate) (L : list (option piece)) : Prop :=
  forall pc sq, N.testbit (bb w k pc) sq = true <-> nth_error L (N.to_nat sq) = Some (Some pc).

Lemma land_bit_eq0 x sq : (N.land x (bit sq) =? 0) = negb (N.testbit x sq).
Proof.
  destruct (N.testbit x sq) eqn:E; cbn [negb].
  - apply N.eqb_neq. intros H. apply (f_equal (fun y => N.testbit y sq)) in H.
    rewrite N.land_spec, bit_spec, E, N.eqb_refl, N.bits_0 in H. discriminate.
  - apply N.eqb_eq. apply N.bits_inj_0. intros i. rewrite N.land_spec, bit_spec.
    destruct (N.eqb_spec i sq) as [->|]; [now rewrite E|apply andb_false_r].
Qed.
Lemma nz_land_bit x sq : nz (N.land x (bit sq)) = N.testbit x sq.
Proof. unfold nz. rewrite land_bit_eq0. apply negb_involutive. Qed.

Lemma piece_at_cases p sq :
  piece_at p sq =
  if N.testbit (pawns p) sq then 1 else if N.testbit (knights p) sq then 2 else if N.testbit (bishops p) sq then 3
  else if N.testbit (rooks p) sq then 4 else if N.testbit (queens p) sq then 5 else if N.testbit (kings p) sq then 6 else 0.
Proof. unfold piece_at, piece_at_mask. now rewrite !nz_land_bit. Qed.

Lemma InvL_bit w k L pc' sq : InvL w k L ->
  N.testbit (bb w k pc') sq = match nth_error L (N.to_nat sq) with Some (Some pc) => piece_eqb pc pc' | _ => false end.
Proof.
  intros H. specialize (H pc' sq). destruct (nth_error L (N.to_nat sq)) as [[pc|]|].
  - destruct (piece_eqb pc pc') eqn:E.
    + apply piece_eqb_eq in E. subst. now apply H.
    + destruct (N.testbit (bb w k pc') sq); [|reflexivity]. destruct H as [H _]. specialize (H eq_refl).
      injection H as ->. assert (piece_eqb pc' pc' = true) by now apply piece_eqb_eq. congruence.
  - destruct (N.testbit (bb w k pc') sq); [|reflexivity]. destruct H as [H _]. now specialize (H eq_refl).
  - destruct (N.testbit (bb w k pc') sq); [|reflexivity]. destruct H as [H _]. now specialize (H eq_refl).
Qed.

(* the cell the abstraction reads off a pair of player states *)
Definition cellf (w k : pstate) (sq : N) : option piece :=
  match kind_of (piece_at w sq) with
  | Some kd => Some (White, kd)
  | None => match kind_of (piece_at k sq) with Some kd => Some (Black, kd) | None => None end
  end.

Lemma InvL_bits12 w k L sq : InvL w k L ->
  let o := match nth_error L (N.to_nat sq) with Some (Some pc) => piece_eqb pc | _ => fun _ => false end in
  N.testbit (pawns w) sq = o (White, Pawn) /\ N.testbit (knights w) sq = o (White, Knight) /\
  N.testbit (bishops w) sq = o (White, Bishop) /\ N.testbit (rooks w) sq = o (White, Rook) /\
  N.testbit (queens w) sq = o (White, Queen) /\ N.testbit (kings w) sq = o (White, King) /\
  N.testbit (pawns k) sq = o (Black, Pawn) /\ N.testbit (knights k) sq = o (Black, Knight) /\
  N.testbit (bishops k) sq = o (Black, Bishop) /\ N.testbit (rooks k) sq = o (Black, Rook) /\
  N.testbit (queens k) sq = o (Black, Queen) /\ N.testbit (kings k) sq = o (Black, King).
Proof.
  intros H. cbv zeta.
  pose proof (fun pc => InvL_bit w k L pc sq H) as B.
  repeat split.
  - rewrite (B (White, Pawn) : N.testbit (pawns w) sq = _). now destruct (nth_error L (N.to_nat sq)) as [[?|]|].
  - rewrite (B (White, Knight) : N.testbit (knights w) sq = _). now destruct (nth_error L (N.to_nat sq)) as [[?|]|].
  - rewrite (B (White, Bishop) : N.testbit (bishops w) sq = _). now destruct (nth_error L (N.to_nat sq)) as [[?|]|].
  - rewrite (B (White, Rook) : N.testbit (rooks w) sq = _). now destruct (nth_error L (N.to_nat sq)) as [[?|]|].
  - rewrite (B (White, Queen) : N.testbit (queens w) sq = _). now destruct (nth_error L (N.to_nat sq)) as [[?|]|].
  - rewrite (B (White, King) : N.testbit (kings w) sq = _). now destruct (nth_error L (N.to_nat sq)) as [[?|]|].
  - rewrite (B (Black, Pawn) : N.testbit (pawns k) sq = _). now destruct (nth_error L (N.to_nat sq)) as [[?|]|].
  - rewrite (B (Black, Knight) : N.testbit (knights k) sq = _). now destruct (nth_error L (N.to_nat sq)) as [[?|]|].
  - rewrite (B (Black, Bishop) : N.testbit (bishops k) sq = _). now destruct (nth_error L (N.to_nat sq)) as [[?|]|].
  - rewrite (B (Black, Rook) : N.testbit (rooks k) sq = _). now destruct (nth_error L (N.to_nat sq)) as [[?|]|].
  - rewrite (B (Black, Queen) : N.testbit (queens k) sq = _). now destruct (nth_error L (N.to_nat sq)) as [[?|]|].
  - rewrite (B (Black, King) : N.testbit (kings k) sq = _). now destruct (nth_error L (N.to_nat sq)) as [[?|]|].
Qed.

Lemma InvL_cell w k L sq : InvL w k L -> cellf w k sq = nth (N.to_nat sq) L None.
Proof.
  intros H. unfold cellf. rewrite !piece_at_cases.
  destruct (InvL_bits12 w k L sq H) as (B1&B2&B3&B4&B5&B6&B7&B8&B9&B10&B11&B12).
  cbv zeta in *. rewrite B1,B2,B3,B4,B5,B6,B7,B8,B9,B10,B11,B12.
  destruct (nth_error L (N.to_nat sq)) as [[pc|]|] eqn:E.
  - rewrite (nth_error_nth _ _ _ E). destruct pc as [[] []]; reflexivity.
  - rewrite (nth_error_nth _ _ _ E). reflexivity.
  - apply nth_error_None in E. rewrite nth_overflow by assumption. reflexivity.
Qed.

Lemma InvL_empty : InvL empty_pstate empty_pstate [].
Proof.
  intros pc sq. replace (bb empty_pstate empty_pstate pc) with 0 by (destruct pc as [[] []]; reflexivity).
  rewrite N.bits_0. destruct (N.to_nat sq); cbn; split; discriminate.
Qed.

Lemma nth_error_snoc {A} (L : list A) a n b :
  nth_error (L ++ [a]) n = Some b <-> nth_error L n = Some b \/ (n = length L /\ a = b).
Proof.
  destruct (Nat.lt_ge_cases n (length L)) as [Hlt|Hge].
  - rewrite nth_error_app1 by assumption. split; [now left|]. intros [H|[H _]]; [assumption|lia].
  - rewrite nth_error_app2 by assumption. assert (Hn : nth_error L n = None) by now apply nth_error_None.
    rewrite Hn. destruct (n - length L)%nat eqn:E.
    + cbn. split; [intros [= <-]; right; split; [lia|reflexivity]|]. intros [H|[_ ->]]; [discriminate|reflexivity].
    + cbn. destruct n0; cbn; (split; [discriminate|]); (intros [H|[H _]]; [discriminate|lia]).
Qed.

Lemma nth_error_app_nones {A} (L : list (option A)) v n x :
  nth_error (L ++ repeat None v) n = Some (Some x) <-> nth_error L n = Some (Some x).
Proof.
  destruct (Nat.lt_ge_cases n (length L)) as [Hlt|Hge].
  - now rewrite nth_error_app1 by assumption.
  - rewrite nth_error_app2 by assumption. assert (Hn : nth_error L n = None) by now apply nth_error_None.
    rewrite Hn. split; [|discriminate]. intros H. apply nth_error_In, repeat_spec in H. discriminate.
Qed.

Lemma occ_or_occ p kd kd' m :
  occ_of (or_occ p (code kd) m) (code kd') = if kind_eqb kd kd' then N.lor (occ_of p (code kd)) m else occ_of p (code kd').
Proof. destruct kd, kd'; reflexivity. Qed.

(* the effect of [place] on the twelve bitboards *)
Definition placed (w k : pstate) (pc : piece) (sq : N) : pstate * pstate :=
  match fst pc with
  | White => (or_occ w (code (snd pc)) (bit sq), k)
  | Black => (w, or_occ k (code (snd pc)) (bit sq))
  end.

Lemma piece_of_char_cases c pc : piece_of_char c = Some pc ->
  In (c, pc) [(80, (White, Pawn)); (78, (White, Knight)); (66, (White, Bishop)); (82, (White, Rook)); (81, (White, Queen));
              (75, (White, King)); (112, (Black, Pawn)); (110, (Black, Knight)); (98, (Black, Bishop)); (114, (Black, Rook));
              (113, (Black, Queen)); (107, (Black, King))].
Proof.
  unfold piece_of_char.
  repeat match goal with
  | |- (if ?c =? ?n then _ else _) = _ -> _ => destruct (N.eqb_spec c n) as [->|?]; [intros [= <-]; cbn; tauto|]
  end. discriminate.
Qed.

Lemma place_spec w k c pc sq : piece_of_char c = Some pc -> place w k c sq = placed w k pc sq.
Proof.
  intros H. apply piece_of_char_cases in H. cbn [In] in H.
  repeat (destruct H as [H|H]; [injection H as <- <-; reflexivity|]). contradiction.
Qed.

Lemma piece_char_not_digit c pc : piece_of_char c = Some pc -> is_ascii_digit c = false /\ is_piece_letter c = true.
Proof.
  intros H. apply piece_of_char_cases in H. cbn [In] in H.
  repeat (destruct H as [H|H]; [injection H as <- <-; split; reflexivity|]). contradiction.
Qed.

Lemma bb_placed w k pc sq pc' :
  bb (fst (placed w k pc sq)) (snd (placed w k pc sq)) pc' =
  if piece_eqb pc pc' then N.lor (bb w k pc) (bit sq) else bb w k pc'.
Proof.
  destruct pc as [[] kd], pc' as [[] kd']; unfold placed, bb, piece_eqb; cbn [fst snd color_eqb andb];
    try rewrite occ_or_occ; reflexivity.
Qed.

Lemma InvL_placed w k L pc sq : InvL w k L -> sq = N.of_nat (length L) ->
  InvL (fst (placed w k pc sq)) (snd (placed w k pc sq)) (L ++ [Some pc]).
Proof.
  intros H Hsq pc' x. rewrite bb_placed, nth_error_snoc.
  destruct (piece_eqb pc pc') eqn:E.
  - apply piece_eqb_eq in E. subst pc'. rewrite N.lor_spec, bit_spec, orb_true_iff, (H pc x), N.eqb_eq.
    split; (intros [A|A]; [now left|right]).
    + subst. split; [now rewrite Nat2N.id|reflexivity].
    + destruct A as [A _]. subst sq. rewrite <- A. now rewrite N2Nat.id.
  - rewrite (H pc' x). split; [now left|]. intros [A|[_ A]]; [assumption|].
    injection A as <-. assert (piece_eqb pc pc = true) by now apply piece_eqb_eq. congruence.
Qed.

Lemma InvL_nones w k L v : InvL w k L -> InvL w k (L ++ repeat None v).
Proof. intros H pc x. rewrite nth_error_app_nones. apply H. Qed.

(* one rank: the placement loop writes exactly the cells the spec reads *)
Lemma place_rank_inv g : forall pd cs w k L file rank w' k',
  read_rank g pd = Some cs -> InvL w k L -> N.of_nat (length L) = file + 8 * rank ->
  place_rank w k g file rank = (w', k') -> InvL w' k' (L ++ cs).
Proof.
  induction g as [|c r IH]; intros pd cs w k L file rank w' k' Hr HI Hl Hp.
  - cbn in Hr, Hp. injection Hr as <-. injection Hp as <- <-. now rewrite app_nil_r.
  - cbn [read_rank] in Hr. cbn [place_rank] in Hp.
    destruct ((49 <=? c) && (c <=? 56)) eqn:Ed.
    + destruct pd; [discriminate|]. destruct (read_rank r true) as [cs'|] eqn:Er; [|discriminate].
      injection Hr as <-.
      assert (Hd : is_ascii_digit c = true).
      { apply andb_true_iff in Ed as [A B]. apply N.leb_le in A, B. apply is_ascii_digit_range. lia. }
      rewrite Hd in Hp. rewrite app_assoc.
      eapply IH; [exact Er|apply InvL_nones; exact HI| |exact Hp].
      rewrite app_length, repeat_length, Nat2N.inj_add, N2Nat.id. unfold digit_val. lia.
    + destruct (piece_of_char c) as [pc|] eqn:Epc; [|discriminate].
      destruct (read_rank r false) as [cs'|] eqn:Er; [|discriminate]. injection Hr as <-.
      destruct (piece_char_not_digit _ _ Epc) as [Hd _]. rewrite Hd in Hp.
      rewrite (place_spec _ _ _ _ _ Epc) in Hp.
      pose proof (InvL_placed w k L pc (file + 8 * rank) HI (eq_sym Hl)) as HI'.
      destruct (placed w k pc (file + 8 * rank)) as [w1 k1]. cbn [fst snd] in HI'.
      change (L ++ Some pc :: cs') with (L ++ [Some pc] ++ cs'). rewrite app_assoc.
      eapply IH; [exact Er|exact HI'| |exact Hp].
      rewrite app_length, Nat2N.inj_add. cbn [length]. lia.
Qed.

Lemma read_ranks_length gs : forall cs, read_ranks gs = Some cs -> length cs = (8 * length gs)%nat.
Proof.
  induction gs as [|g r IH]; intros cs; cbn [read_ranks].
  - intros [= <-]. reflexivity.
  - destruct (read_rank g false) as [c1|]; [|discriminate]. destruct (read_ranks r) as [rest|]; [|discriminate].
    destruct (Nat.eqb_spec (length c1) 8); [|discriminate]. intros [= <-].
    rewrite app_length, (IH rest eq_refl). cbn [length]. lia.
Qed.

Lemma place_ranks_inv gs : forall cs w k L rank w' k',
  read_ranks gs = Some cs -> InvL w k L -> N.of_nat (length L) = 8 * rank ->
  place_ranks w k gs rank = (w', k') -> InvL w' k' (L ++ cs).
Proof.
  induction gs as [|g r IH]; intros cs w k L rank w' k' Hr HI Hl Hp.
  - cbn in Hr, Hp. injection Hr as <-. injection Hp as <- <-. now rewrite app_nil_r.
  - cbn [read_ranks] in Hr. cbn [place_ranks] in Hp.
    destruct (read_rank g false) as [c1|] eqn:E1; [|discriminate].
    destruct (read_ranks r) as [rest|] eqn:E2; [|discriminate].
    destruct (Nat.eqb_spec (length c1) 8) as [H8|]; [|discriminate]. injection Hr as <-.
    destruct (place_rank w k g 0 rank) as [w1 k1] eqn:Epr.
    rewrite app_assoc. eapply IH; [reflexivity| | |exact Hp].
    + eapply place_rank_inv; [exact E1|exact HI| |exact Epr]. lia.
    + rewrite app_length, H8, Nat2N.inj_add. change (N.of_nat 8) with 8. lia.
Qed.

Lemma map_nth_seq {A} (d : A) (L : list A) : map (fun i => nth i L d) (seq 0 (length L)) = L.
Proof.
  induction L as [|a L IH]; [reflexivity|]. cbn [length seq map nth]. f_equal.
  rewrite <- seq_shift, map_map. exact IH.
Qed.

Lemma InvL_cells w k L : InvL w k L -> length L = 64%nat ->
  map (fun i => cellf w k (N.of_nat i)) (seq 0 64) = L.
Proof.
  intros H Hl. transitivity (map (fun i => nth i L None) (seq 0 64)).
  - apply map_ext. intros i. rewrite (InvL_cell w k L _ H). now rewrite Nat2N.id.
  - rewrite <- Hl. apply map_nth_seq.
Qed.

Lemma cell_of_cellf b sq : cell_of b sq = cellf (white b) (black b) sq.
Proof. reflexivity. Qed.

(* ================================================================================================== *)
(* 2. the recogniser: regex groups + validate_ranks  <->  the spec's grammar                          *)
(* ================================================================================================== *)

Definition cw (c : N) : N := if is_ascii_digit c then digit_val c else 1.
Lemma fold_count_acc g : forall a,
  fold_left (fun a c => a + (if is_ascii_digit c then digit_val c else 1)) g a =
  a + fold_left (fun a c => a + (if is_ascii_digit c then digit_val c else 1)) g 0.
Proof.
  induction g as [|c r IH]; intros a; cbn [fold_left]; [lia|]. rewrite IH. rewrite (IH (0 + _)). lia.
Qed.
Lemma rank_count_cons c r : rank_count (c :: r) = cw c + rank_count r.
Proof. unfold rank_count, cw. cbn [fold_left]. rewrite fold_count_acc. lia. Qed.
Lemma rank_count_nil : rank_count [] = 0.
Proof. reflexivity. Qed.

Definition head_not_digit (g : str) : Prop := match g with c :: _ => is_ascii_digit c = false | [] => True end.

Lemma adjacent_cons a r : adjacent_digits (a :: r) =
  (is_ascii_digit a && match r with b :: _ => is_ascii_digit b | [] => false end) || adjacent_digits r.
Proof. destruct r as [|b r]; [now rewrite andb_false_r|reflexivity]. Qed.

Lemma digit18 c : (49 <=? c) && (c <=? 56) = true -> is_ascii_digit c = true /\ 1 <= digit_val c <= 8 /\ is_placement_char c = true.
Proof.
  intros H. unfold is_placement_char. rewrite H, orb_true_r. apply andb_true_iff in H as [A B]. apply N.leb_le in A, B.
  split; [apply is_ascii_digit_range; lia|]. unfold digit_val. split; [lia|reflexivity].
Qed.

(* spec accepts a rank  ==>  every character is allowed, no two digits are adjacent, the cells are counted right *)
Lemma read_rank_model g : forall pd cs, read_rank g pd = Some cs ->
  forallb is_placement_char g = true /\ N.of_nat (length cs) = rank_count g /\ adjacent_digits g = false /\
  (length g <= length cs)%nat /\ (pd = true -> head_not_digit g).
Proof.
  induction g as [|c r IH]; intros pd cs Hr.
  - cbn in Hr. injection Hr as <-. repeat split; cbn; auto.
  - cbn [read_rank] in Hr. rewrite rank_count_cons, adjacent_cons. cbn [forallb length].
    destruct ((49 <=? c) && (c <=? 56)) eqn:Ed.
    + destruct pd; [discriminate|]. destruct (read_rank r true) as [cs'|] eqn:Er; [|discriminate]. injection Hr as <-.
      destruct (digit18 c Ed) as (Hd & Hv & Hpc). destruct (IH true cs' Er) as (I1 & I2 & I3 & I4 & I5).
      specialize (I5 eq_refl). unfold cw. rewrite Hd, Hpc, I1, I3.
      rewrite app_length, repeat_length, Nat2N.inj_add, N2Nat.id, I2. unfold digit_val in *.
      repeat split; try reflexivity; try lia; try discriminate.
      destruct r as [|b r]; [reflexivity|]. cbn in I5. now rewrite I5.
    + destruct (piece_of_char c) as [pc|] eqn:Epc; [|discriminate].
      destruct (read_rank r false) as [cs'|] eqn:Er; [|discriminate]. injection Hr as <-.
      destruct (piece_char_not_digit _ _ Epc) as [Hd Hl]. destruct (IH false cs' Er) as (I1 & I2 & I3 & I4 & _).
      rewrite I1, I3. unfold cw, is_placement_char. rewrite Hd, Hl. cbn [length orb andb].
      rewrite Nat2N.inj_succ, I2. repeat split; try reflexivity; try lia. intros _. exact Hd.
Qed.

Lemma piece_letter_char c : is_piece_letter c = true -> exists pc, piece_of_char c = Some pc.
Proof.
  unfold is_piece_letter. rewrite mem_chr_In. intros H. cbn in H.
  repeat (destruct H as [H|H]; [subst c; eexists; reflexivity|]). contradiction.
Qed.

Lemma model_read_rank g : forall pd, forallb is_placement_char g = true -> adjacent_digits g = false ->
  (pd = true -> head_not_digit g) -> exists cs, read_rank g pd = Some cs.
Proof.
  induction g as [|c r IH]; intros pd Hf Ha Hh.
  - now exists [].
  - cbn [forallb] in Hf. apply andb_true_iff in Hf as [Hc Hf]. rewrite adjacent_cons in Ha.
    apply orb_false_iff in Ha as [Ha1 Ha2]. cbn [read_rank].
    destruct ((49 <=? c) && (c <=? 56)) eqn:Ed.
    + destruct (digit18 c Ed) as (Hd & _ & _).
      destruct pd; [specialize (Hh eq_refl); cbn in Hh; congruence|].
      destruct (IH true Hf Ha2) as [cs' E].
      * intros _. rewrite Hd in Ha1. destruct r as [|b r]; [exact I|]. exact Ha1.
      * rewrite E. eexists. reflexivity.
    + unfold is_placement_char in Hc. rewrite Ed, orb_false_r in Hc. destruct (piece_letter_char c Hc) as [pc Epc].
      rewrite Epc. destruct (IH false Hf Ha2) as [cs' E]; [discriminate|]. rewrite E. eexists. reflexivity.
Qed.

Lemma placement_len_le_count g : forallb is_placement_char g = true -> N.of_nat (length g) <= rank_count g.
Proof.
  induction g as [|c r IH]; [cbn; lia|]. cbn [forallb length]. intros H. apply andb_true_iff in H as [Hc Hf].
  rewrite rank_count_cons, Nat2N.inj_succ. specialize (IH Hf).
  assert (1 <= cw c).
  { unfold cw, is_placement_char in *. destruct ((49 <=? c) && (c <=? 56)) eqn:Ed.
    - destruct (digit18 c Ed) as (Hd & Hv & _). rewrite Hd. lia.
    - rewrite orb_false_r in Hc. destruct (piece_letter_char c Hc) as [pc Epc].
      destruct (piece_char_not_digit _ _ Epc) as [Hd _]. rewrite Hd. lia. }
  lia.
Qed.

(* one rank: model accepts <-> spec reads 8 cells *)
Lemma rank_accept_iff g :
  (rank_group_ok g = true /\ validate_rank g = None) <-> (exists cs, read_rank g false = Some cs /\ length cs = 8%nat).
Proof.
  unfold rank_group_ok, validate_rank. split.
  - intros [H1 H2]. apply andb_true_iff in H1 as [H1 Hf].
    destruct (N.eqb_spec (rank_count g) 8) as [Hc|]; [|discriminate]. cbn [negb] in H2.
    destruct (adjacent_digits g) eqn:Ha; [discriminate|].
    destruct (model_read_rank g false Hf Ha ltac:(discriminate)) as [cs E]. exists cs. split; [exact E|].
    destruct (read_rank_model g false cs E) as (_ & I2 & _). lia.
  - intros (cs & E & Hl). destruct (read_rank_model g false cs E) as (I1 & I2 & I3 & I4 & _).
    assert (Hc : rank_count g = 8) by lia. rewrite Hc, I3, I1. cbn [N.eqb negb]. split; [|reflexivity].
    rewrite andb_true_r. apply andb_true_iff. split; apply N.leb_le; [|lia].
    destruct g; [cbn in Hc; discriminate|]. cbn [length]. lia.
Qed.

Lemma ranks_accept_iff gs :
  (forallb rank_group_ok gs = true /\ validate_ranks gs = None) <-> (exists cs, read_ranks gs = Some cs).
Proof.
  induction gs as [|g r IH]; cbn [forallb validate_ranks read_ranks].
  - split; [now exists []|auto].
  - split.
    + intros [H1 H2]. apply andb_true_iff in H1 as [Hg Hr].
      destruct (validate_rank g) eqn:Ev; [discriminate|].
      destruct (proj1 (rank_accept_iff g) (conj Hg Ev)) as (c1 & E1 & L1).
      destruct (proj1 IH (conj Hr H2)) as (rest & E2). rewrite E1, E2, L1. cbn. eexists. reflexivity.
    + intros (cs & H). destruct (read_rank g false) as [c1|] eqn:E1; [|discriminate].
      destruct (read_ranks r) as [rest|] eqn:E2; [|discriminate].
      destruct (Nat.eqb_spec (length c1) 8) as [L1|]; [|discriminate].
      destruct (proj2 (rank_accept_iff g) (ex_intro _ c1 (conj E1 L1))) as [Hg Ev].
      destruct (proj2 IH (ex_intro _ rest eq_refl)) as [Hr Hv]. rewrite Hg, Hr, Ev. auto.
Qed.

(* ================================================================================================== *)
(* 3. the other fields                                                                                *)
(* ================================================================================================== *)

(* the body of FenSpec.read after the split into fields *)
Definition build (p c k e : str) (h f : N) : option pos :=
  match (if Nat.eqb (length (split_on 47 p)) 8 then read_ranks (split_on 47 p) else None), rights_of k with
  | Some cs, Some (k1, q1, k2, q2) =>
      let side := if str_eqb c (lit "w") then Some White else if str_eqb c (lit "b") then Some Black else None in
      let ep := if str_eqb e (lit "-") then Some None else match square_of e with Some x => Some (Some x) | None => None end in
      match side, ep with
      | Some sd, Some ep' => Some {| cells := cs; to_move := sd; wk := k1; wq := q1; bk := k2; bq := q2; epsq := ep'; halfc := h; fullc := f |}
      | _, _ => None end
  | _, _ => None end.

Lemma read_unfold s : read s =
  match split_on 32 s with
  | [p; c; k; e] => build p c k e 0 1
  | [p; c; k; e; h; f] =>
      if digits_only h && digits_only f then
        match parse_dec h, parse_dec f with Some hn, Some fn => build p c k e hn fn | _, _ => None end
      else None
  | _ => None
  end.
Proof. reflexivity. Qed.

(* the position denoted by the fields, in terms of the model's own field readers *)
Definition fields_pos (cs : list (option piece)) (c k e : str) (h f : N) : pos :=
  {| cells := cs; to_move := if str_eqb c (lit "b") then Black else White;
     wk := contains_chr 75 k; wq := contains_chr 81 k; bk := contains_chr 107 k; bq := contains_chr 113 k;
     epsq := if str_eqb e (lit "-") then None else Some (Z.of_N (square_of_text e));
     halfc := h; fullc := f |}.

(* The implementation uses square 0 (= a8) as "no e.p. square": an e.p. field "a8" reads as "-".
   (a8 is never an e.p. target of a legal position: those are on ranks 3 and 6.) *)
Definition norm_a8 (p : pos) : pos :=
  {| cells := cells p; to_move := to_move p; wk := wk p; wq := wq p; bk := bk p; bq := bq p;
     epsq := match epsq p with Some 0%Z => None | x => x end; halfc := halfc p; fullc := fullc p |}.
Lemma norm_a8_id p : epsq p <> Some 0%Z -> norm_a8 p = p.
Proof. destruct p as [cs tm a b c d [[|z|z]|] h f]; cbn; intros H; try reflexivity. congruence. Qed.

Lemma castle_ok_rights k : castle_ok k = true ->
  rights_of k = Some (contains_chr 75 k, contains_chr 81 k, contains_chr 107 k, contains_chr 113 k).
Proof.
  unfold castle_ok. rewrite mem_str_In. intros H. vm_compute in H.
  repeat (destruct H as [H|H]; [subst k; reflexivity|]). contradiction.
Qed.

Lemma rights_castle_ok k r : rights_of k = Some r -> castle_ok k = true.
Proof.
  unfold rights_of. destruct (str_eqb k (lit "-")) eqn:E.
  - apply str_eqb_eq in E. subst k. reflexivity.
  - generalize (contains_chr 75 k) (contains_chr 81 k) (contains_chr 107 k) (contains_chr 113 k). intros b1 b2 b3 b4.
    cbv zeta. destruct (nonempty k && str_eqb k _) eqn:E2; [|discriminate]. intros _.
    apply andb_true_iff in E2 as [Hn E2]. apply str_eqb_eq in E2.
    destruct b1, b2, b3, b4; cbn [app] in E2; subst k; try reflexivity. discriminate.
Qed.

Lemma ep_ok_square e : ep_ok e = true ->
  (if str_eqb e (lit "-") then Some None else match square_of e with Some x => Some (Some x) | None => None end) =
  Some (if str_eqb e (lit "-") then None else Some (Z.of_N (square_of_text e))).
Proof.
  unfold ep_ok. destruct (str_eqb e (lit "-")); [reflexivity|]. cbn [orb].
  destruct e as [|f [|r [|? ?]]]; try discriminate. unfold square_text_ok, square_of, square_of_text. intros H. rewrite H.
  do 2 f_equal. apply andb_true_iff in H as [H H4]. apply andb_true_iff in H as [H H3]. apply andb_true_iff in H as [H1 H2].
  apply N.leb_le in H1, H2, H3, H4. lia.
Qed.

Lemma square_ep_ok e x :
  (if str_eqb e (lit "-") then Some None else match square_of e with Some x => Some (Some x) | None => None end) = Some x ->
  ep_ok e = true.
Proof.
  unfold ep_ok. destruct (str_eqb e (lit "-")); [reflexivity|]. cbn [orb].
  destruct e as [|f [|r [|? ?]]]; try discriminate. unfold square_text_ok, square_of.
  destruct (_ && _); [reflexivity|discriminate].
Qed.

Definition core_cond (p c k e : str) : bool :=
  placement_ok p && (str_eqb c (lit "w") || str_eqb c (lit "b")) && castle_ok k && ep_ok e.

(* model accepts the four core fields  ==>  the spec reads them, as the position [fields_pos] *)
Lemma core_decode p c k e : core_cond p c k e = true -> validate_ranks (split_on 47 p) = None ->
  exists cs, length cs = 64%nat /\ read_ranks (split_on 47 p) = Some cs /\
             forall h f, build p c k e h f = Some (fields_pos cs c k e h f).
Proof.
  unfold core_cond, placement_ok. intros H Hv. cbv zeta in H.
  apply andb_true_iff in H as [H He]. apply andb_true_iff in H as [H Hk]. apply andb_true_iff in H as [H Hc].
  apply andb_true_iff in H as [Hl Hg].
  destruct (proj1 (ranks_accept_iff _) (conj Hg Hv)) as [cs Hcs]. exists cs.
  pose proof (read_ranks_length _ _ Hcs) as Hlen. apply Nat.eqb_eq in Hl. rewrite Hl in Hlen.
  split; [exact Hlen|]. split; [exact Hcs|]. intros h f. unfold build.
  rewrite Hl, Hcs, (castle_ok_rights k Hk). cbn [Nat.eqb]. cbv zeta. rewrite (ep_ok_square e He).
  unfold fields_pos. destruct (str_eqb c (lit "w")) eqn:Ew.
  - apply str_eqb_eq in Ew. subst c. reflexivity.
  - cbn [orb] in Hc. rewrite Hc. reflexivity.
Qed.

(* spec reads the four core fields  ==>  the model accepts them *)
Lemma build_core p c k e h f q : build p c k e h f = Some q ->
  core_cond p c k e = true /\ validate_ranks (split_on 47 p) = None /\ halfc q = h /\ fullc q = f.
Proof.
  unfold build, core_cond, placement_ok. cbv zeta.
  destruct (Nat.eqb (length (split_on 47 p)) 8) eqn:El; [|discriminate].
  destruct (read_ranks (split_on 47 p)) as [cs|] eqn:Er; [|discriminate].
  destruct (rights_of k) as [[[[k1 q1] k2] q2]|] eqn:Ek; [|discriminate].
  destruct (proj2 (ranks_accept_iff _) (ex_intro _ cs Er)) as [Hg Hv]. rewrite Hg, Hv, (rights_castle_ok _ _ Ek).
  destruct (if str_eqb c (lit "w") then Some White else if str_eqb c (lit "b") then Some Black else None) as [sd|] eqn:Es;
    [|discriminate].
  destruct (if str_eqb e (lit "-") then Some None else match square_of e with Some x => Some (Some x) | None => None end)
    as [ep'|] eqn:Ee; [|discriminate].
  rewrite (square_ep_ok _ _ Ee). intros [= <-]. cbn [halfc fullc]. repeat split; try reflexivity.
  destruct (str_eqb c (lit "w")); [reflexivity|]. destruct (str_eqb c (lit "b")); [reflexivity|discriminate].
Qed.

(* ================================================================================================== *)
(* 4. Fen -> board                                                                                    *)
(* ================================================================================================== *)

Lemma pos_ext (p q : pos) : cells p = cells q -> to_move p = to_move q -> wk p = wk q -> wq p = wq q -> bk p = bk q ->
  bq p = bq q -> epsq p = epsq q -> halfc p = halfc q -> fullc p = fullc q -> p = q.
Proof. destruct p, q; cbn. intros; subst; reflexivity. Qed.

Lemma bb_set_rights w k a b c d pc : bb (set_rights w a b) (set_rights k c d) pc = bb w k pc.
Proof. destruct pc as [[] []]; reflexivity. Qed.
Lemma InvL_set_rights w k a b c d L : InvL w k L -> InvL (set_rights w a b) (set_rights k c d) L.
Proof. intros H pc sq. rewrite bb_set_rights. apply H. Qed.

Definition clock_of (x : option str) (dflt : N) : N :=
  match x with Some t => match parse_u32 t with Some n => n | None => 0 end | None => dflt end.

Lemma board_of_fen_abs f cs : read_ranks (split_on 47 (f_placement f)) = Some cs -> length cs = 64%nat ->
  abs (board_of_fen f) = norm_a8 (fields_pos cs (f_color f) (f_castle f) (f_ep f) (clock_of (f_half f) 0) (clock_of (f_full f) 1))
  /\ InvL (white (board_of_fen f)) (black (board_of_fen f)) cs.
Proof.
  intros Hr Hl. unfold board_of_fen.
  destruct (place_ranks empty_pstate empty_pstate (split_on 47 (f_placement f)) 0) as [w k] eqn:Ep.
  assert (HI : InvL w k cs).
  { change cs with ([] ++ cs). apply (place_ranks_inv _ cs empty_pstate empty_pstate [] 0 w k Hr InvL_empty eq_refl Ep). }
  split; [|cbn [white black]; now apply InvL_set_rights].
  apply pos_ext; unfold abs, norm_a8, fields_pos; cbn [cells to_move wk wq bk bq epsq halfc fullc white black turn ep half full ks qs set_rights].
  - rewrite <- (InvL_cells w k cs HI Hl). apply map_ext. intros i. reflexivity.
  - destruct (str_eqb (f_color f) (lit "b")); reflexivity.
  - reflexivity.
  - reflexivity.
  - reflexivity.
  - reflexivity.
  - destruct (str_eqb (f_ep f) (lit "-")); [reflexivity|].
    destruct (N.eqb_spec (square_of_text (f_ep f)) NO_SQUARE) as [E|E].
    + unfold NO_SQUARE in E. rewrite E. reflexivity.
    + unfold NO_SQUARE in E. destruct (square_of_text (f_ep f)); [contradiction|reflexivity].
  - reflexivity.
  - reflexivity.
Qed.

(* ================================================================================================== *)
(* 5. reading: model vs spec                                                                          *)
(* ================================================================================================== *)

(* no square holds a white and a black piece (what print_fen / get_colored_piece needs) *)
Definition disjoint (b : board) : Prop :=
  forall sq, sq < 64 -> piece_at (white b) sq = NO_PIECE \/ piece_at (black b) sq = NO_PIECE.

Lemma InvL_disjoint w k L sq : InvL w k L -> piece_at w sq = NO_PIECE \/ piece_at k sq = NO_PIECE.
Proof.
  intros H. rewrite !piece_at_cases.
  destruct (InvL_bits12 w k L sq H) as (B1&B2&B3&B4&B5&B6&B7&B8&B9&B10&B11&B12).
  cbv zeta in *. rewrite B1,B2,B3,B4,B5,B6,B7,B8,B9,B10,B11,B12.
  destruct (nth_error L (N.to_nat sq)) as [[pc|]|]; [destruct pc as [[] []]|..]; cbn; auto.
Qed.

Lemma digits_only_split h : nonempty h && forallb is_ascii_digit h = digits_only h.
Proof. reflexivity. Qed.

Lemma clock_ok_parse h : clock_ok h = true -> exists n, parse_u32 h = Some n /\ parse_dec h = Some n /\ digits_only h = true.
Proof.
  unfold clock_ok. intros H. apply andb_true_iff in H as [H Hp]. destruct (parse_u32 h) as [n|] eqn:E; [|discriminate].
  exists n. apply andb_true_iff in H as [H1 H2]. split; [reflexivity|]. split; [now apply parse_u32_dec|].
  unfold digits_only. now rewrite H1, H2.
Qed.

Theorem decode_spec s b : from_fen_string s = inr b -> s <> lit "startpos" ->
  exists p, read s = Some p /\ abs b = norm_a8 p /\ InvL (white b) (black b) (cells p) /\ length (cells p) = 64%nat.
Proof.
  unfold from_fen_string. destruct (fen_from_str s) as [er|f] eqn:E; [discriminate|]. intros [= <-] Hs.
  unfold fen_from_str in E. apply str_eqb_neq in Hs. rewrite Hs in E. cbv zeta in E. rewrite read_unfold.
  destruct (split_on 32 s) as [|p [|c [|k [|e [|h [|fl [|x r]]]]]]]; try discriminate.
  - change (placement_ok p && (str_eqb c (lit "w") || str_eqb c (lit "b")) && castle_ok k && ep_ok e) with (core_cond p c k e) in E.
    destruct (core_cond p c k e) eqn:C; [|discriminate].
    destruct (validate_ranks (split_on 47 p)) eqn:V; [discriminate|]. injection E as <-.
    destruct (core_decode p c k e C V) as (cs & Hl & Hr & Hb). exists (fields_pos cs c k e 0 1).
    split; [apply Hb|].
    destruct (board_of_fen_abs {| f_text := s; f_placement := p; f_color := c; f_castle := k; f_ep := e;
                                  f_half := None; f_full := None |} cs Hr Hl) as [A I].
    split; [exact A|]. split; assumption.
  - change (placement_ok p && (str_eqb c (lit "w") || str_eqb c (lit "b")) && castle_ok k && ep_ok e) with (core_cond p c k e) in E.
    destruct (nonempty h && forallb is_ascii_digit h && nonempty fl && forallb is_ascii_digit fl) eqn:G; [|discriminate].
    destruct (core_cond p c k e) eqn:C; [|discriminate].
    destruct (validate_ranks (split_on 47 p)) eqn:V; [discriminate|].
    destruct (clock_ok h && clock_ok fl) eqn:K; [|discriminate]. injection E as <-.
    apply andb_true_iff in K as [Kh Kf].
    destruct (clock_ok_parse h Kh) as (hn & Ph & Dh & Oh). destruct (clock_ok_parse fl Kf) as (fn & Pf & Df & Of).
    destruct (core_decode p c k e C V) as (cs & Hl & Hr & Hb). exists (fields_pos cs c k e hn fn).
    rewrite Oh, Of, Dh, Df. cbn [andb]. split; [apply Hb|].
    destruct (board_of_fen_abs {| f_text := s; f_placement := p; f_color := c; f_castle := k; f_ep := e;
                                  f_half := Some h; f_full := Some fl |} cs Hr Hl) as [A I].
    cbn [clock_of f_half f_full f_color f_castle f_ep] in A. rewrite Ph, Pf in A.
    split; [exact A|]. split; assumption.
Qed.

Theorem accepts_spec s p : read s = Some p -> halfc p < 2^32 -> fullc p < 2^32 -> exists b, from_fen_string s = inr b.
Proof.
  intros Hr Hh Hf. unfold from_fen_string.
  assert (exists f, fen_from_str s = inr f) as [f ->]; [|eexists; reflexivity].
  unfold fen_from_str. destruct (str_eqb s (lit "startpos")); [eexists; reflexivity|]. cbv zeta.
  rewrite read_unfold in Hr.
  destruct (split_on 32 s) as [|pl [|c [|k [|e [|h [|fl [|x r]]]]]]]; try discriminate.
  - change (placement_ok pl && (str_eqb c (lit "w") || str_eqb c (lit "b")) && castle_ok k && ep_ok e) with (core_cond pl c k e).
    destruct (build_core _ _ _ _ _ _ _ Hr) as (C & V & _). rewrite C, V. eexists. reflexivity.
  - change (placement_ok pl && (str_eqb c (lit "w") || str_eqb c (lit "b")) && castle_ok k && ep_ok e) with (core_cond pl c k e).
    destruct (digits_only h && digits_only fl) eqn:G; [|discriminate].
    destruct (parse_dec h) as [hn|] eqn:Ph; [|discriminate]. destruct (parse_dec fl) as [fn|] eqn:Pf; [|discriminate].
    destruct (build_core _ _ _ _ _ _ _ Hr) as (C & V & Eh & Ef). rewrite C, V. subst hn fn.
    apply andb_true_iff in G as [Gh Gf]. pose proof Gh as Gh'. pose proof Gf as Gf'.
    unfold digits_only in Gh', Gf'. apply andb_true_iff in Gh' as [Nh Dh]. apply andb_true_iff in Gf' as [Nf Df].
    rewrite Nh, Dh, Nf, Df. cbn [andb]. unfold clock_ok. rewrite Nh, Dh, Nf, Df.
    rewrite (parse_dec_u32 h _ Nh Dh Ph Hh), (parse_dec_u32 fl _ Nf Df Pf Hf). cbn [andb]. eexists. reflexivity.
Qed.

Theorem rejects_spec s : read s = None -> s <> lit "startpos" -> exists e, from_fen_string s = inl e.
Proof.
  intros Hr Hs. destruct (from_fen_string s) as [e|b] eqn:E; [eexists; reflexivity|].
  destruct (decode_spec s b E Hs) as (p & Hp & _). congruence.
Qed.

Lemma startpos_is_start : from_fen_string (lit "startpos") = from_fen_string STARTPOS.
Proof. vm_compute. reflexivity. Qed.

(* ================================================================================================== *)
(* 6. writing: print_fen b = render (abs b)                                                            *)
(* ================================================================================================== *)

Lemma piece_at_range p sq : In (piece_at p sq) [0; 1; 2; 3; 4; 5; 6].
Proof.
  rewrite piece_at_cases.
  destruct (N.testbit (pawns p) sq), (N.testbit (knights p) sq), (N.testbit (bishops p) sq), (N.testbit (rooks p) sq),
           (N.testbit (queens p) sq), (N.testbit (kings p) sq); cbn; tauto.
Qed.

Definition dig (empty : N) : str := if 0 <? empty then [48 + empty] else [].

Lemma print_rank_step b rank f r empty :
  piece_at (white b) (f + 8 * rank) = NO_PIECE \/ piece_at (black b) (f + 8 * rank) = NO_PIECE ->
  print_rank b rank (f :: r) empty =
  match cell_of b (f + 8 * rank) with
  | Some pc => match print_rank b rank r 0 with Some t => Some (dig empty ++ [char_of_piece pc] ++ t) | None => None end
  | None => print_rank b rank r (empty + 1)
  end.
Proof.
  intros H. cbn [print_rank]. cbv zeta. unfold cell_of.
  pose proof (piece_at_range (white b) (f + 8 * rank)) as Rw. pose proof (piece_at_range (black b) (f + 8 * rank)) as Rk.
  revert H Rw Rk. generalize (piece_at (white b) (f + 8 * rank)) (piece_at (black b) (f + 8 * rank)). intros pw pk H Rw Rk.
  cbn [In] in Rw, Rk.
  destruct H as [-> | ->].
  - repeat (destruct Rk as [<-|Rk]; [reflexivity|]). contradiction.
  - repeat (destruct Rw as [<-|Rw]; [reflexivity|]). contradiction.
Qed.

Lemma print_rank_render b rank files : forall empty,
  (forall f, In f files -> piece_at (white b) (f + 8 * rank) = NO_PIECE \/ piece_at (black b) (f + 8 * rank) = NO_PIECE) ->
  print_rank b rank files empty = Some (render_row (map (fun f => cell_of b (f + 8 * rank)) files) empty).
Proof.
  induction files as [|f r IH]; intros empty H.
  - reflexivity.
  - rewrite print_rank_step by (apply H; now left). cbn [map render_row].
    destruct (cell_of b (f + 8 * rank)) as [pc|].
    + rewrite IH by (intros; apply H; now right). reflexivity.
    + apply IH. intros; apply H; now right.
Qed.

Lemma print_ranks_render b : disjoint b ->
  print_ranks b [0; 1; 2; 3; 4; 5; 6; 7] = Some (map (fun r => render_row r 0) (rows 8 (cells (abs b)))).
Proof.
  intros D. cbn [print_ranks].
  assert (Hd : forall rank, rank < 8 -> forall f, In f [0; 1; 2; 3; 4; 5; 6; 7] ->
               piece_at (white b) (f + 8 * rank) = NO_PIECE \/ piece_at (black b) (f + 8 * rank) = NO_PIECE).
  { intros rank Hr f Hf. apply D. cbn [In] in Hf. lia. }
  rewrite !print_rank_render by (apply Hd; lia).
  reflexivity.
Qed.

Lemma sq_text_of_N x : sq_text (Z.of_N x) = square_text x.
Proof.
  unfold sq_text, square_text, fileZ, rowZ. change 8%Z with (Z.of_N 8).
  now rewrite <- N2Z.inj_mod, <- N2Z.inj_div, !N2Z.id.
Qed.

Theorem print_is_render b : disjoint b -> print_fen b = Some (render (abs b)).
Proof.
  intros D. unfold print_fen, render. rewrite (print_ranks_render b D). f_equal.
  cbn [to_move wk wq bk bq epsq halfc fullc abs].
  f_equal. f_equal. f_equal; [unfold is_white_turn, WHITE; now destruct (turn b =? 0)|].
  f_equal. f_equal. f_equal. f_equal.
  unfold NO_SQUARE. destruct (ep b =? 0); [reflexivity|]. now rewrite sq_text_of_N.
Qed.

Theorem print_total b : disjoint b -> print_fen b <> None.
Proof. intros D. rewrite (print_is_render b D). discriminate. Qed.

(* ================================================================================================== *)
(* 7. the spec's reader and renderer are mutually inverse                                              *)
(* ================================================================================================== *)

Lemma char_of_piece_of_char c pc : piece_of_char c = Some pc -> char_of_piece pc = c.
Proof.
  intros H. apply piece_of_char_cases in H. cbn [In] in H.
  repeat (destruct H as [H|H]; [injection H as <- <-; reflexivity|]). contradiction.
Qed.
Lemma piece_of_char_of_piece pc : piece_of_char (char_of_piece pc) = Some pc /\
  (49 <=? char_of_piece pc) && (char_of_piece pc <=? 56) = false /\ 58 <= char_of_piece pc.
Proof. destruct pc as [[] []]; vm_compute; repeat split; discriminate. Qed.

(* render_row after read_rank gives the text back *)
Lemma read_rank_render g : forall pd cs e, read_rank g pd = Some cs -> (if pd then 0 < e else e = 0) ->
  render_row cs e = (if pd then [48 + e] else []) ++ g.
Proof.
  induction g as [|c r IH]; intros pd cs e Hr He.
  - cbn in Hr. injection Hr as <-. cbn [render_row]. destruct pd.
    + apply N.ltb_lt in He. now rewrite He.
    + subst e. reflexivity.
  - cbn [read_rank] in Hr. destruct ((49 <=? c) && (c <=? 56)) eqn:Ed.
    + destruct pd; [discriminate|]. subst e. destruct (read_rank r true) as [cs'|] eqn:Er; [|discriminate].
      injection Hr as <-. destruct (digit18 c Ed) as (_ & Hv & _). unfold digit_val in Hv.
      assert (Hrep : forall v x, render_row (repeat None v ++ cs') x = render_row cs' (x + N.of_nat v)).
      { induction v as [|v IHv]; intros x; cbn [repeat app render_row]; [f_equal; lia|]. rewrite IHv. f_equal. lia. }
      rewrite Hrep, N2Nat.id. rewrite (IH true cs' (0 + (c - 48)) Er) by lia. cbn [app]. f_equal. lia.
    + destruct (piece_of_char c) as [pc|] eqn:Epc; [|discriminate].
      destruct (read_rank r false) as [cs'|] eqn:Er; [|discriminate]. injection Hr as <-.
      cbn [render_row]. rewrite (IH false cs' 0 Er eq_refl), (char_of_piece_of_char _ _ Epc). cbn [app].
      destruct pd.
      * apply N.ltb_lt in He. now rewrite He.
      * subst e. reflexivity.
Qed.

Lemma firstn_skipn_app {A} (a b : list A) n : length a = n -> firstn n (a ++ b) = a /\ skipn n (a ++ b) = b.
Proof. intros <-. induction a as [|x a [IH1 IH2]]; cbn; [auto|]. split; congruence. Qed.

Lemma rows_read_ranks gs : forall cs, read_ranks gs = Some cs ->
  map (fun r => render_row r 0) (rows (length gs) cs) = gs.
Proof.
  induction gs as [|g r IH]; intros cs; cbn [read_ranks length rows map]; [reflexivity|].
  destruct (read_rank g false) as [c1|] eqn:E1; [|discriminate]. destruct (read_ranks r) as [rest|] eqn:E2; [|discriminate].
  destruct (Nat.eqb_spec (length c1) 8) as [L1|]; [|discriminate]. intros [= <-].
  destruct (firstn_skipn_app c1 rest 8 L1) as [-> ->]. rewrite (IH rest eq_refl).
  now rewrite (read_rank_render g false c1 0 E1 eq_refl).
Qed.

Lemma rights_render k k1 q1 k2 q2 : rights_of k = Some (k1, q1, k2, q2) ->
  (match (if k1 then [75] else []) ++ (if q1 then [81] else []) ++ (if k2 then [107] else []) ++ (if q2 then [113] else []) with
   | [] => [45] | x :: y => x :: y end) = k.
Proof.
  unfold rights_of. destruct (str_eqb k (lit "-")) eqn:E.
  - apply str_eqb_eq in E. subst k. intros [= <- <- <- <-]. reflexivity.
  - generalize (contains_chr 75 k) (contains_chr 81 k) (contains_chr 107 k) (contains_chr 113 k). intros b1 b2 b3 b4.
    cbv zeta. destruct (nonempty k && str_eqb k _) eqn:E2; [|discriminate]. intros [= <- <- <- <-].
    apply andb_true_iff in E2 as [Hn E2]. apply str_eqb_eq in E2.
    destruct b1, b2, b3, b4; cbn [app] in E2; subst k; try reflexivity. discriminate.
Qed.

Lemma square_of_sq_text e x : square_of e = Some x -> sq_text x = e.
Proof.
  destruct e as [|f [|r [|? ?]]]; try discriminate. unfold square_of.
  destruct ((97 <=? f) && (f <=? 104) && (49 <=? r) && (r <=? 56)) eqn:H; [|discriminate].
  intros Hx. assert (Hx' : x = (Z.of_N (f - 97) + 8 * (8 - Z.of_N (r - 48)))%Z) by congruence. clear Hx. subst x.
  apply andb_true_iff in H as [H H4]. apply andb_true_iff in H as [H H3]. apply andb_true_iff in H as [H1 H2].
  apply N.leb_le in H1, H2, H3, H4. unfold sq_text, fileZ, rowZ.
  assert (E : (Z.of_N (f - 97) + 8 * (8 - Z.of_N (r - 48)) = Z.of_N (f - 97) + (8 - Z.of_N (r - 48)) * 8)%Z) by lia.
  rewrite E. rewrite Z.mod_add, Z.div_add by lia. rewrite Z.mod_small, Z.div_small by lia.
  f_equal; [lia|]. f_equal. lia.
Qed.

(* what the spec's renderer produces for a grammatical text: the same text with the clocks written canonically *)
Lemma build_render p c k e h f q : build p c k e h f = Some q ->
  render q = join [32] [p; c; k; e; show_N h; show_N f].
Proof.
  unfold build.
  destruct (Nat.eqb_spec (length (split_on 47 p)) 8) as [El|]; [|discriminate].
  destruct (read_ranks (split_on 47 p)) as [cs|] eqn:Er; [|discriminate].
  destruct (rights_of k) as [[[[k1 q1] k2] q2]|] eqn:Ek; [|discriminate]. cbv zeta.
  destruct (if str_eqb c (lit "w") then Some White else if str_eqb c (lit "b") then Some Black else None) as [sd|] eqn:Es;
    [|discriminate].
  destruct (if str_eqb e (lit "-") then Some None else match square_of e with Some x => Some (Some x) | None => None end)
    as [ep'|] eqn:Ee; [|discriminate].
  intros [= <-]. unfold render. cbn [cells to_move wk wq bk bq epsq halfc fullc join].
  assert (Hp : join [47] (map (fun r => render_row r 0) (rows 8 cs)) = p).
  { rewrite <- El, (rows_read_ranks _ _ Er). apply join_split_on. }
  assert (Hc : match sd with White => [119] | Black => [98] end = c).
  { destruct (str_eqb c (lit "w")) eqn:Ew.
    - apply str_eqb_eq in Ew. injection Es as <-. now subst c.
    - destruct (str_eqb c (lit "b")) eqn:Eb; [|discriminate]. apply str_eqb_eq in Eb. injection Es as <-. now subst c. }
  assert (He : match ep' with None => [45] | Some x => sq_text x end = e).
  { destruct (str_eqb e (lit "-")) eqn:E1.
    - apply str_eqb_eq in E1. injection Ee as <-. now subst e.
    - destruct (square_of e) as [x|] eqn:E2; [|discriminate]. injection Ee as <-. now apply square_of_sq_text. }
  pose proof (rights_render k k1 q1 k2 q2 Ek) as Hk.
  rewrite Hp, Hc. do 4 f_equal. f_equal.
  - destruct ((if k1 then [75] else []) ++ (if q1 then [81] else []) ++ (if k2 then [107] else []) ++ (if q2 then [113] else []))
      as [|x y]; exact Hk.
  - do 2 f_equal. exact He.
Qed.

Definition canon_of (s : str) : str :=
  match split_on 32 s with
  | [p; c; k; e] => join [32] [p; c; k; e; show_N 0; show_N 1]
  | [p; c; k; e; h; f] =>
      join [32] [p; c; k; e; match parse_dec h with Some n => show_N n | None => h end;
                            match parse_dec f with Some n => show_N n | None => f end]
  | _ => s
  end.

Theorem read_render_canon s p : read s = Some p -> render p = canon_of s.
Proof.
  rewrite read_unfold. unfold canon_of.
  destruct (split_on 32 s) as [|pl [|c [|k [|e [|h [|fl [|x r]]]]]]]; try discriminate.
  - apply build_render.
  - destruct (digits_only h && digits_only fl); [|discriminate].
    destruct (parse_dec h) as [hn|]; [|discriminate]. destruct (parse_dec fl) as [fn|]; [|discriminate].
    apply build_render.
Qed.

(* a text is its own canonical form when it has six fields and the clocks have no leading zero *)
Definition no_leading_zero (h : str) : Prop := h = [48] \/ hd 0 h <> 48.
Lemma canon_of_id s p : read s = Some p -> length (split_on 32 s) = 6%nat ->
  no_leading_zero (nth 4 (split_on 32 s) []) -> no_leading_zero (nth 5 (split_on 32 s) []) -> canon_of s = s.
Proof.
  rewrite read_unfold. unfold canon_of. intros Hr Hl Hh Hf. rewrite <- (join_split_on 32 s) at 2.
  destruct (split_on 32 s) as [|pl [|c [|k [|e [|h [|fl [|x r]]]]]]]; try discriminate.
  cbn [nth] in Hh, Hf.
  destruct (digits_only h && digits_only fl) eqn:G; [|discriminate]. apply andb_true_iff in G as [Gh Gf].
  unfold digits_only in Gh, Gf. apply andb_true_iff in Gh as [_ Dh]. apply andb_true_iff in Gf as [_ Df].
  destruct (parse_dec h) as [hn|] eqn:Ph; [|discriminate]. destruct (parse_dec fl) as [fn|] eqn:Pf; [|discriminate].
  now rewrite (show_N_parse_dec h hn Dh Hh Ph), (show_N_parse_dec fl fn Df Hf Pf).
Qed.

(* ---- render then read ---- *)
Lemma render_row_chars cs : forall e x, In x (render_row cs e) -> 48 <= x.
Proof.
  induction cs as [|[pc|] r IH]; intros e x; cbn [render_row].
  - destruct (0 <? e); [|intros []]. intros [<-|[]]. lia.
  - intros H. apply in_app_or in H as [H|H].
    + destruct (0 <? e); [|destruct H]. destruct H as [<-|[]]. lia.
    + cbn [app] in H. destruct H as [<-|H]; [|now apply IH in H].
      destruct (piece_of_char_of_piece pc) as (_ & _ & H). lia.
  - apply IH.
Qed.

Lemma repeat_snoc {A} (a : A) n : repeat a (S n) = repeat a n ++ [a].
Proof. induction n as [|n IH]; [reflexivity|]. cbn [repeat app] in *. now rewrite <- IH. Qed.

Lemma render_read_rank cs : forall e, e + N.of_nat (length cs) <= 8 ->
  read_rank (render_row cs e) false = Some (repeat None (N.to_nat e) ++ cs).
Proof.
  induction cs as [|[pc|] r IH]; intros e He; cbn [render_row length] in *.
  - destruct (N.ltb_spec 0 e) as [Hp|Hp].
    + cbn [read_rank]. replace ((49 <=? 48 + e) && (48 + e <=? 56)) with true
        by (symmetry; apply andb_true_iff; split; apply N.leb_le; lia).
      replace (48 + e - 48) with e by lia. reflexivity.
    + assert (e = 0) by lia. subst e. reflexivity.
  - destruct (piece_of_char_of_piece pc) as (P1 & P2 & _).
    assert (Hr : read_rank (render_row r 0) false = Some r) by (apply (IH 0); lia).
    destruct (N.ltb_spec 0 e) as [Hp|Hp].
    + cbn [app read_rank]. replace ((49 <=? 48 + e) && (48 + e <=? 56)) with true
        by (symmetry; apply andb_true_iff; split; apply N.leb_le; lia).
      rewrite P2, P1, Hr. replace (48 + e - 48) with e by lia. reflexivity.
    + assert (e = 0) by lia. subst e. cbn [app read_rank]. rewrite P2, P1, Hr. reflexivity.
  - rewrite IH by lia. replace (N.to_nat (e + 1)) with (S (N.to_nat e)) by lia.
    rewrite repeat_snoc, <- app_assoc. reflexivity.
Qed.

Lemma rows_length n : forall cs, length (rows n cs) = n.
Proof. induction n as [|n IH]; intros cs; cbn [rows length]; [reflexivity|]. now rewrite IH. Qed.

Lemma rows_chars n : forall cs r x, In r (rows n cs) -> In x (render_row r 0) -> 48 <= x.
Proof. intros cs r x _. apply render_row_chars. Qed.

Lemma render_read_ranks n : forall cs, length cs = (8 * n)%nat ->
  read_ranks (map (fun r => render_row r 0) (rows n cs)) = Some cs.
Proof.
  induction n as [|n IH]; intros cs Hl; cbn [rows map read_ranks].
  - destruct cs; [reflexivity|discriminate].
  - assert (H8 : length (firstn 8 cs) = 8%nat) by (rewrite firstn_length; lia).
    rewrite (render_read_rank (firstn 8 cs) 0) by (rewrite H8; cbn; lia).
    rewrite IH by (rewrite skipn_length; lia). cbn [N.to_nat repeat app]. rewrite H8. cbn [Nat.eqb].
    now rewrite firstn_skipn.
Qed.

Definition pos_ok (p : pos) : Prop :=
  length (cells p) = 64%nat /\ match epsq p with None => True | Some e => (0 <= e < 64)%Z end /\
  halfc p <= 2^200 /\ fullc p <= 2^200.

Lemma square_of_of_text e : (0 <= e < 64)%Z -> square_of (sq_text e) = Some e /\ str_eqb (sq_text e) (lit "-") = false.
Proof.
  intros He. unfold sq_text, fileZ, rowZ, square_of.
  pose proof (Z.mod_pos_bound e 8 ltac:(lia)) as Hm.
  assert (Hd : (0 <= e / 8 < 8)%Z) by (split; [apply Z.div_pos; lia|apply Z.div_lt_upper_bound; lia]).
  pose proof (Z.div_mod e 8 ltac:(lia)) as Hdm. revert Hm Hd Hdm. generalize (e mod 8)%Z (e / 8)%Z. intros m d Hm Hd Hdm.
  split.
  - replace ((97 <=? 97 + Z.to_N m) && (97 + Z.to_N m <=? 104) && (49 <=? 48 + (8 - Z.to_N d)) && (48 + (8 - Z.to_N d) <=? 56))
      with true by (symmetry; repeat (apply andb_true_iff; split); apply N.leb_le; lia).
    f_equal. lia.
  - cbn [str_eqb lit]. apply andb_false_r.
Qed.

Lemma join6 a b c d e f : a ++ [32] ++ b ++ [32] ++ c ++ [32] ++ d ++ [32] ++ e ++ [32] ++ f = join [32] [a; b; c; d; e; f].
Proof. reflexivity. Qed.

Theorem render_read p : pos_ok p -> read (render p) = Some p.
Proof.
  intros (Hl & He & Hh & Hf). rewrite read_unfold. unfold render. rewrite join6.
  set (P := join [47] (map (fun r => render_row r 0) (rows 8 (cells p)))).
  set (C := match to_move p with White => [119] | Black => [98] end).
  set (K := match (if wk p then [75] else []) ++ (if wq p then [81] else []) ++ (if bk p then [107] else []) ++ (if bq p then [113] else [])
            with [] => [45] | _ => (if wk p then [75] else []) ++ (if wq p then [81] else []) ++ (if bk p then [107] else []) ++ (if bq p then [113] else []) end).
  set (E := match epsq p with None => [45] | Some e => sq_text e end).
  assert (HP : ~ In 32 P /\ split_on 47 P = map (fun r => render_row r 0) (rows 8 (cells p))).
  { split.
    - intros H. apply In_join in H as [H|(r & Hr & Hx)]; [discriminate|].
      apply in_map_iff in Hr as (cs & <- & _). apply render_row_chars in Hx. lia.
    - apply split_on_join.
      + intros H. apply (f_equal (@length _)) in H. rewrite map_length, rows_length in H. discriminate.
      + intros r Hr Hx. apply in_map_iff in Hr as (cs & <- & _). apply render_row_chars in Hx. lia. }
  destruct HP as [HP1 HP2].
  assert (HC : ~ In 32 C) by (unfold C; destruct (to_move p); cbn; intros [H|[]]; discriminate).
  assert (HK : ~ In 32 K /\ rights_of K = Some (wk p, wq p, bk p, bq p)).
  { unfold K. destruct (wk p), (wq p), (bk p), (bq p); (split; [cbn; intuition discriminate|reflexivity]). }
  destruct HK as [HK1 HK2].
  assert (HE : ~ In 32 E).
  { unfold E. destruct (epsq p) as [e|]; [|cbn; intuition discriminate]. unfold sq_text. cbn [In].
    intros [H|[H|[]]]; lia. }
  rewrite split_on_join.
  2: discriminate.
  2: { intros x [<-|[<-|[<-|[<-|[<-|[<-|[]]]]]]]; try assumption; apply show_N_notin; reflexivity. }
  assert (Dh : digits_only (show_N (halfc p)) = true) by (unfold digits_only; now rewrite show_N_nonempty, show_N_digits).
  assert (Df : digits_only (show_N (fullc p)) = true) by (unfold digits_only; now rewrite show_N_nonempty, show_N_digits).
  rewrite Dh, Df, (parse_dec_show_N _ Hh), (parse_dec_show_N _ Hf). cbn [andb].
  unfold build. rewrite HP2, map_length, rows_length. cbn [Nat.eqb].
  rewrite (render_read_ranks 8 (cells p)) by (rewrite Hl; reflexivity). rewrite HK2. cbv zeta.
  subst C E. clear HP1 HP2 HC HK1 HK2 HE K P Dh Df.
  destruct p as [cs tm a b c d [e|] h f]; cbn [Rules.cells Rules.to_move Rules.wk Rules.wq Rules.bk Rules.bq Rules.epsq Rules.halfc Rules.fullc] in *.
  - destruct (square_of_of_text e He) as [E1 E2]. rewrite E2, E1. destruct tm; reflexivity.
  - destruct tm; reflexivity.
Qed.

(* ================================================================================================== *)
(* 8. boards: well-formedness, injectivity of the abstraction, print/parse round trips                 *)
(* ================================================================================================== *)

(* the part of Board.wf that FEN output depends on: twelve pairwise disjoint 64-bit sets *)
Definition boards_ok (b : board) : bool :=
  forallb (fun x => x <? 18446744073709551616) (bbs b) && disjoint_all 0 (bbs b).

Lemma wf_boards_ok b : wf b = true -> boards_ok b = true /\ turn b < 2 /\ ep b < 64.
Proof.
  unfold wf, boards_ok. intros H.
  apply andb_true_iff in H as [H _]. apply andb_true_iff in H as [H He]. apply andb_true_iff in H as [H Ht].
  apply andb_true_iff in H as [H _]. apply andb_true_iff in H as [H _].
  split; [exact H|]. split; now apply N.ltb_lt.
Qed.

Lemma land0_bits x y : N.land x y = 0 -> forall i, N.testbit x i = true -> N.testbit y i = true -> False.
Proof. intros H i Hx Hy. apply (f_equal (fun z => N.testbit z i)) in H. rewrite N.land_spec, Hx, Hy, N.bits_0 in H. discriminate. Qed.

Lemma disjoint_all_acc l : forall acc, disjoint_all acc l = true -> forall x, In x l -> N.land acc x = 0.
Proof.
  induction l as [|x0 r IH]; intros acc H x Hx; [destruct Hx|]. cbn [disjoint_all] in H.
  apply andb_true_iff in H as [H0 Hr]. apply N.eqb_eq in H0. destruct Hx as [<-|Hx]; [exact H0|].
  specialize (IH _ Hr x Hx). apply N.bits_inj_0. intros i.
  apply (f_equal (fun z => N.testbit z i)) in IH. rewrite N.land_spec, N.lor_spec, N.bits_0 in IH.
  rewrite N.land_spec. destruct (N.testbit acc i); [exact IH|reflexivity].
Qed.

Lemma disjoint_all_pair l : forall acc, disjoint_all acc l = true ->
  forall i j x y, (i < j)%nat -> nth_error l i = Some x -> nth_error l j = Some y -> N.land x y = 0.
Proof.
  induction l as [|x0 r IH]; intros acc H i j x y Hij Hi Hj; [destruct i; discriminate|].
  cbn [disjoint_all] in H. apply andb_true_iff in H as [_ Hr].
  destruct j as [|j]; [lia|]. cbn [nth_error] in Hj. destruct i as [|i].
  - cbn in Hi. injection Hi as <-. pose proof (disjoint_all_acc r _ Hr y (nth_error_In _ _ Hj)) as H.
    apply N.bits_inj_0. intros n. apply (f_equal (fun z => N.testbit z n)) in H.
    rewrite N.land_spec, N.lor_spec, N.bits_0 in H. rewrite N.land_spec.
    destruct (N.testbit x0 n); [|reflexivity]. now rewrite orb_true_r in H.
  - cbn [nth_error] in Hi. apply (IH _ Hr i j x y); [lia|assumption|assumption].
Qed.

Definition idx (pc : piece) : nat :=
  (match fst pc with White => 0 | Black => 6 end + N.to_nat (code (snd pc)) - 1)%nat.
Lemma bbs_idx b pc : nth_error (bbs b) (idx pc) = Some (bb (white b) (black b) pc).
Proof. destruct pc as [[] []]; reflexivity. Qed.
Lemma idx_inj pc pc' : idx pc = idx pc' -> pc = pc'.
Proof. destruct pc as [[] []], pc' as [[] []]; cbn; intros H; try reflexivity; discriminate. Qed.

Lemma testbit_lt x n sq : x < 2 ^ n -> N.testbit x sq = true -> sq < n.
Proof.
  intros Hx Hb. destruct (N.lt_ge_cases sq n) as [|Hge]; [assumption|exfalso].
  destruct (N.eq_dec x 0) as [->|Hne]; [rewrite N.bits_0 in Hb; discriminate|].
  rewrite N.bits_above_log2 in Hb; [discriminate|].
  apply N.lt_le_trans with n; [|assumption]. apply N.log2_lt_pow2; lia.
Qed.

Lemma boards_ok_props b : boards_ok b = true ->
  (forall pc sq, N.testbit (bb (white b) (black b) pc) sq = true -> sq < 64) /\
  (forall pc pc' sq, N.testbit (bb (white b) (black b) pc) sq = true ->
                     N.testbit (bb (white b) (black b) pc') sq = true -> pc = pc').
Proof.
  unfold boards_ok. intros H. apply andb_true_iff in H as [Hb Hd]. split.
  - intros pc sq Ht. rewrite forallb_forall in Hb.
    pose proof (Hb _ (nth_error_In _ _ (bbs_idx b pc))) as Hlt. apply N.ltb_lt in Hlt.
    apply (testbit_lt (bb (white b) (black b) pc) 64 sq); [exact Hlt|exact Ht].
  - intros pc pc' sq H1 H2. apply idx_inj.
    destruct (Nat.lt_trichotomy (idx pc) (idx pc')) as [Hlt|[Heq|Hgt]]; [exfalso|exact Heq|exfalso].
    + apply (land0_bits _ _ (disjoint_all_pair _ _ Hd _ _ _ _ Hlt (bbs_idx b pc) (bbs_idx b pc')) sq H1 H2).
    + apply (land0_bits _ _ (disjoint_all_pair _ _ Hd _ _ _ _ Hgt (bbs_idx b pc') (bbs_idx b pc)) sq H2 H1).
Qed.

Lemma cellf_of_bits w k sq (o : piece -> bool) : (forall pc', N.testbit (bb w k pc') sq = o pc') ->
  cellf w k sq =
  if o (White, Pawn) then Some (White, Pawn) else if o (White, Knight) then Some (White, Knight)
  else if o (White, Bishop) then Some (White, Bishop) else if o (White, Rook) then Some (White, Rook)
  else if o (White, Queen) then Some (White, Queen) else if o (White, King) then Some (White, King)
  else if o (Black, Pawn) then Some (Black, Pawn) else if o (Black, Knight) then Some (Black, Knight)
  else if o (Black, Bishop) then Some (Black, Bishop) else if o (Black, Rook) then Some (Black, Rook)
  else if o (Black, Queen) then Some (Black, Queen) else if o (Black, King) then Some (Black, King) else None.
Proof.
  intros B. unfold cellf. rewrite !piece_at_cases.
  rewrite (B (White, Pawn) : N.testbit (pawns w) sq = _), (B (White, Knight) : N.testbit (knights w) sq = _),
          (B (White, Bishop) : N.testbit (bishops w) sq = _), (B (White, Rook) : N.testbit (rooks w) sq = _),
          (B (White, Queen) : N.testbit (queens w) sq = _), (B (White, King) : N.testbit (kings w) sq = _),
          (B (Black, Pawn) : N.testbit (pawns k) sq = _), (B (Black, Knight) : N.testbit (knights k) sq = _),
          (B (Black, Bishop) : N.testbit (bishops k) sq = _), (B (Black, Rook) : N.testbit (rooks k) sq = _),
          (B (Black, Queen) : N.testbit (queens k) sq = _), (B (Black, King) : N.testbit (kings k) sq = _).
  destruct (o (White, Pawn)), (o (White, Knight)), (o (White, Bishop)), (o (White, Rook)), (o (White, Queen)), (o (White, King));
    try reflexivity.
  destruct (o (Black, Pawn)), (o (Black, Knight)), (o (Black, Bishop)), (o (Black, Rook)), (o (Black, Queen)), (o (Black, King));
    reflexivity.
Qed.

(* cellf reads a set bit back, when the twelve sets are pairwise disjoint at that square *)
Lemma cellf_bit w k sq :
  (forall pc pc', N.testbit (bb w k pc) sq = true -> N.testbit (bb w k pc') sq = true -> pc = pc') ->
  forall pc, N.testbit (bb w k pc) sq = true <-> cellf w k sq = Some pc.
Proof.
  intros Hp pc. rewrite (cellf_of_bits w k sq (fun pc' => N.testbit (bb w k pc') sq)) by reflexivity.
  split.
  - intros H.
    assert (Ho : forall pc', N.testbit (bb w k pc') sq = piece_eqb pc pc').
    { intros pc'. destruct (piece_eqb pc pc') eqn:E; [apply piece_eqb_eq in E; now subst|].
      destruct (N.testbit (bb w k pc') sq) eqn:E'; [|reflexivity].
      rewrite (Hp pc pc' H E') in E. assert (piece_eqb pc' pc' = true) by now apply piece_eqb_eq. congruence. }
    rewrite !Ho. destruct pc as [[] []]; reflexivity.
  - repeat match goal with |- (if ?c then _ else _) = _ -> _ => let E := fresh "E" in destruct c eqn:E; [intros [= <-]; exact E|] end.
    discriminate.
Qed.

Lemma nth_error_map_seq {A} (f : nat -> A) n i : nth_error (map f (seq 0 n)) i = if (i <? n)%nat then Some (f i) else None.
Proof.
  destruct (Nat.ltb_spec i n) as [H|H].
  - rewrite nth_error_map, (nth_error_nth' (seq 0 n) 0%nat) by (now rewrite seq_length). now rewrite seq_nth.
  - apply nth_error_None. now rewrite map_length, seq_length.
Qed.

(* the twelve bitboards are exactly described by the cell list of the abstraction *)
Definition tight (b : board) : Prop := InvL (white b) (black b) (cells (abs b)).

Lemma boards_ok_tight b : boards_ok b = true -> tight b.
Proof.
  intros H. destruct (boards_ok_props b H) as [Hlt Hpw]. intros pc sq. cbn [cells abs].
  rewrite nth_error_map_seq. destruct (Nat.ltb_spec (N.to_nat sq) 64) as [H64|H64].
  - rewrite N2Nat.id, cell_of_cellf. rewrite (cellf_bit (white b) (black b) sq (fun p p' => Hpw p p' sq) pc).
    split; [now intros ->|now intros [= ->]].
  - split; [|discriminate]. intros Ht. apply Hlt in Ht. lia.
Qed.

Lemma InvL_inj w k w' k' L : InvL w k L -> InvL w' k' L -> forall pc, bb w k pc = bb w' k' pc.
Proof.
  intros H H' pc. apply N.bits_inj. intros i. apply Bool.eq_iff_eq_true. now rewrite (H pc i), (H' pc i).
Qed.

Theorem abs_inj b b' : tight b -> tight b' -> turn b < 2 -> turn b' < 2 -> abs b = abs b' -> b = b'.
Proof.
  unfold tight. intros T T' Ht Ht' E. rewrite <- E in T'.
  pose proof (InvL_inj _ _ _ _ _ T T') as Hbb.
  pose proof (Hbb (White, Pawn)) as W1. pose proof (Hbb (White, Knight)) as W2. pose proof (Hbb (White, Bishop)) as W3.
  pose proof (Hbb (White, Rook)) as W4. pose proof (Hbb (White, Queen)) as W5. pose proof (Hbb (White, King)) as W6.
  pose proof (Hbb (Black, Pawn)) as B1. pose proof (Hbb (Black, Knight)) as B2. pose proof (Hbb (Black, Bishop)) as B3.
  pose proof (Hbb (Black, Rook)) as B4. pose proof (Hbb (Black, Queen)) as B5. pose proof (Hbb (Black, King)) as B6.
  cbn [bb fst snd code occ_of] in W1, W2, W3, W4, W5, W6, B1, B2, B3, B4, B5, B6.
  pose proof (f_equal to_move E) as Em. pose proof (f_equal wk E) as E1. pose proof (f_equal wq E) as E2.
  pose proof (f_equal bk E) as E3. pose proof (f_equal bq E) as E4. pose proof (f_equal epsq E) as Ee.
  pose proof (f_equal halfc E) as Eh. pose proof (f_equal fullc E) as Ef.
  clear E T T' Hbb.
  destruct b as [[wp wn wb wr wq0 wk0 wqs wks] [kp kn kb kr kq kk kqs kks] t e f h].
  destruct b' as [[wp' wn' wb' wr' wq0' wk0' wqs' wks'] [kp' kn' kb' kr' kq' kk' kqs' kks'] t' e' f' h'].
  cbn [abs to_move Rules.wk Rules.wq Rules.bk Rules.bq epsq halfc fullc white black turn ep full half pawns knights bishops rooks queens kings qs ks] in *.
  subst.
  assert (t = t').
  { destruct (N.eqb_spec t 0), (N.eqb_spec t' 0); try discriminate; lia. }
  assert (e = e').
  { destruct (N.eqb_spec e 0), (N.eqb_spec e' 0); try discriminate; [congruence|]. injection Ee as Ee. lia. }
  subst. reflexivity.
Qed.

Lemma board_of_fen_turn f : turn (board_of_fen f) < 2.
Proof.
  unfold board_of_fen. destruct (place_ranks _ _ _ _) as [w k]. cbn [turn].
  destruct (str_eqb _ _); unfold BLACK, WHITE; lia.
Qed.
Lemma from_fen_turn s b : from_fen_string s = inr b -> turn b < 2.
Proof.
  unfold from_fen_string. destruct (fen_from_str s); [discriminate|]. intros [= <-]. apply board_of_fen_turn.
Qed.

Lemma cells_norm_a8 p : cells (norm_a8 p) = cells p.
Proof. reflexivity. Qed.

Lemma startpos_neq : STARTPOS <> lit "startpos".
Proof. discriminate. Qed.

(* every board the reader returns is tight (hence disjoint) *)
Lemma parsed_tight s b : from_fen_string s = inr b -> tight b.
Proof.
  intros H. assert (exists s', s' <> lit "startpos" /\ from_fen_string s' = inr b) as (s' & Hs' & H').
  { destruct (str_eqb s (lit "startpos")) eqn:E.
    - apply str_eqb_eq in E. subst s. exists STARTPOS. split; [exact startpos_neq|]. now rewrite <- startpos_is_start.
    - apply str_eqb_neq in E. now exists s. }
  destruct (decode_spec s' b H' Hs') as (p & _ & A & I & _). unfold tight. now rewrite A, cells_norm_a8.
Qed.

Lemma tight_disjoint b : tight b -> disjoint b.
Proof. intros T sq _. apply (InvL_disjoint _ _ _ sq T). Qed.

Lemma abs_pos_ok b : ep b < 64 -> half b < 2^32 -> full b < 2^32 -> pos_ok (abs b) /\ epsq (abs b) <> Some 0%Z.
Proof.
  intros He Hh Hf. unfold pos_ok. cbn [abs cells epsq halfc fullc]. rewrite map_length, seq_length.
  assert (2^32 <= 2^200) by (apply N.pow_le_mono_r; lia).
  destruct (N.eqb_spec (ep b) 0) as [E|E].
  - repeat split; try lia. discriminate.
  - repeat split; try lia. intros [= H0]. lia.
Qed.

Lemma read_startpos_None : read (lit "startpos") = None.
Proof. vm_compute. reflexivity. Qed.

(* printing then parsing gives the same board back, exactly *)
Theorem print_parse b : boards_ok b = true -> turn b < 2 -> ep b < 64 -> half b < 2^32 -> full b < 2^32 ->
  exists s, print_fen b = Some s /\ from_fen_string s = inr b.
Proof.
  intros Hok Ht He Hh Hf. pose proof (boards_ok_tight b Hok) as T.
  exists (render (abs b)). split; [apply print_is_render, tight_disjoint, T|].
  destruct (abs_pos_ok b He Hh Hf) as [Hpos Hne].
  pose proof (render_read (abs b) Hpos) as Hr.
  destruct (accepts_spec _ _ Hr) as [b' Hb']; [exact Hh|exact Hf|]. rewrite Hb'. f_equal.
  assert (Hs : render (abs b) <> lit "startpos") by (intros E; rewrite E, read_startpos_None in Hr; discriminate).
  destruct (decode_spec _ _ Hb' Hs) as (p & Hp & A & _). rewrite Hr in Hp. injection Hp as <-.
  rewrite (norm_a8_id _ Hne) in A.
  apply abs_inj; [eapply parsed_tight; exact Hb'|exact T|eapply from_fen_turn; exact Hb'|exact Ht|exact A].
Qed.

(* parsing then printing gives the spec's rendering of the decoded position *)
Theorem parse_print s b : from_fen_string s = inr b -> print_fen b = Some (render (abs b)).
Proof. intros H. apply print_is_render, tight_disjoint. eapply parsed_tight; exact H. Qed.

Theorem parse_print_canon s b p : from_fen_string s = inr b -> read s = Some p -> epsq p <> Some 0%Z ->
  print_fen b = Some (canon_of s).
Proof.
  intros H Hr Hne. rewrite (parse_print s b H). f_equal.
  assert (Hs : s <> lit "startpos") by (intros E; rewrite E, read_startpos_None in Hr; discriminate).
  destruct (decode_spec s b H Hs) as (p' & Hp' & A & _). rewrite Hr in Hp'. injection Hp' as <-.
  rewrite A, (norm_a8_id _ Hne). now apply read_render_canon.
Qed.

(* ================================================================================================== *)
(* 9. C12: the statements                                                                             *)
(* ================================================================================================== *)

Lemma build_ep p c k e h f q : build p c k e h f = Some q ->
  match epsq q with None => [45] | Some x => sq_text x end = e.
Proof.
  unfold build.
  destruct (if Nat.eqb (length (split_on 47 p)) 8 then read_ranks (split_on 47 p) else None) as [cs|]; [|discriminate].
  destruct (rights_of k) as [[[[k1 q1] k2] q2]|]; [|discriminate]. cbv zeta.
  destruct (if str_eqb c (lit "w") then Some White else if str_eqb c (lit "b") then Some Black else None) as [sd|]; [|discriminate].
  destruct (str_eqb e (lit "-")) eqn:E1.
  - apply str_eqb_eq in E1. intros H. assert (Hq : epsq q = None) by (injection H as <-; reflexivity). rewrite Hq. now subst e.
  - destruct (square_of e) as [x|] eqn:E2; [|discriminate]. intros H.
    assert (Hq : epsq q = Some x) by (injection H as <-; reflexivity). rewrite Hq. now apply square_of_sq_text.
Qed.

(* the only grammatical e.p. field the implementation cannot represent is "a8" *)
Lemma read_ep_a8 s p : read s = Some p -> epsq p = Some 0%Z -> nth 3 (split_on 32 s) [] = lit "a8".
Proof.
  rewrite read_unfold. intros H H0.
  destruct (split_on 32 s) as [|pl [|c [|k [|e [|h [|fl [|x r]]]]]]]; try discriminate; cbn [nth].
  - apply build_ep in H. rewrite H0 in H. now subst e.
  - destruct (digits_only h && digits_only fl); [|discriminate].
    destruct (parse_dec h) as [hn|]; [|discriminate]. destruct (parse_dec fl) as [fn|]; [|discriminate].
    apply build_ep in H. rewrite H0 in H. now subst e.
Qed.

(* Totality.  [from_fen_string] is a total function into [fen_err + board]: the model has no panic outcome for reading
   (the Rust `unwrap`s in FenParseExt are unreachable once Fen::from_str has accepted; since the u32 fix this includes
   the clock parses).  So "no input makes the parser panic" is the trivial statement below; the writer is the one with
   a panic outcome ([print_fen] = None), and [C12_print_total] is the real statement. *)
Theorem C12_total : forall s, (exists e, from_fen_string s = inl e) \/ (exists b, from_fen_string s = inr b).
Proof. intros s. destruct (from_fen_string s) as [e|b]; [left|right]; eexists; reflexivity. Qed.

Theorem C12_print_total : forall b, disjoint b -> print_fen b <> None.
Proof. exact print_total. Qed.

Theorem C12_wf_disjoint : forall b, wf b = true -> disjoint b.
Proof. intros b H. destruct (wf_boards_ok b H) as [Hok _]. apply tight_disjoint, boards_ok_tight, Hok. Qed.

Theorem C12_parsed_disjoint : forall s b, from_fen_string s = inr b -> disjoint b.
Proof. intros s b H. eapply tight_disjoint, parsed_tight, H. Qed.

(* Decoding is exact.  [norm_a8] only rewrites the e.p. square a8 (= the implementation's NO_SQUARE) to "none". *)
Theorem C12_decode_exact : forall s b, from_fen_string s = inr b -> s <> lit "startpos" ->
  exists p, FenSpec.read s = Some p /\ abs b = norm_a8 p /\ disjoint b.
Proof.
  intros s b H Hs. destruct (decode_spec s b H Hs) as (p & Hp & A & _). exists p.
  split; [exact Hp|]. split; [exact A|]. eapply C12_parsed_disjoint, H.
Qed.

Theorem C12_decode_exact_not_a8 : forall s b, from_fen_string s = inr b -> s <> lit "startpos" ->
  nth 3 (split_on 32 s) [] <> lit "a8" -> FenSpec.read s = Some (abs b) /\ disjoint b.
Proof.
  intros s b H Hs Ha. destruct (C12_decode_exact s b H Hs) as (p & Hp & A & D). split; [|exact D].
  rewrite A, norm_a8_id; [exact Hp|]. intros H0. apply Ha. eapply read_ep_a8; eassumption.
Qed.

Theorem C12_startpos : from_fen_string (lit "startpos") = from_fen_string STARTPOS.
Proof. exact startpos_is_start. Qed.

Theorem C12_accepts : forall s p, FenSpec.read s = Some p -> halfc p < 2^32 /\ fullc p < 2^32 ->
  exists b, from_fen_string s = inr b.
Proof. intros s p H [Hh Hf]. eapply accepts_spec; eassumption. Qed.

Theorem C12_rejects : forall s, FenSpec.read s = None -> s <> lit "startpos" -> exists e, from_fen_string s = inl e.
Proof. exact rejects_spec. Qed.

(* acceptance, as an equivalence *)
Theorem C12_accept_iff : forall s, s <> lit "startpos" ->
  ((exists b, from_fen_string s = inr b) <-> (exists p, FenSpec.read s = Some p /\ halfc p < 2^32 /\ fullc p < 2^32)).
Proof.
  intros s Hs. split.
  - intros [b H]. destruct (decode_spec s b H Hs) as (p & Hp & A & _). exists p. split; [exact Hp|].
    assert (Hh : halfc p = half b) by (change (halfc p) with (halfc (norm_a8 p)); now rewrite <- A).
    assert (Hf : fullc p = full b) by (change (fullc p) with (fullc (norm_a8 p)); now rewrite <- A).
    rewrite Hh, Hf. clear - H Hs. unfold from_fen_string in H. destruct (fen_from_str s) as [|f] eqn:E; [discriminate|].
    injection H as <-. unfold fen_from_str in E. apply str_eqb_neq in Hs. rewrite Hs in E. cbv zeta in E.
    unfold board_of_fen. destruct (place_ranks _ _ _ _) as [w k]. cbn [half full].
    destruct (split_on 32 s) as [|pl [|c [|k0 [|e [|h [|fl [|x r]]]]]]]; try discriminate.
    + destruct (_ && _); [|discriminate]. destruct (validate_ranks _); [discriminate|]. injection E as <-.
      cbn [f_half f_full]. split; reflexivity.
    + destruct (nonempty h && _ && _ && _); [|discriminate]. destruct (placement_ok pl && _ && _ && _); [|discriminate].
      destruct (validate_ranks _); [discriminate|]. destruct (clock_ok h && clock_ok fl); [|discriminate]. injection E as <-.
      cbn [f_half f_full]. split.
      * destruct (parse_u32 h) eqn:P; [eapply parse_u32_lt; exact P|reflexivity].
      * destruct (parse_u32 fl) eqn:P; [eapply parse_u32_lt; exact P|reflexivity].
  - intros (p & Hp & Hh & Hf). eapply accepts_spec; eassumption.
Qed.

(* print then parse: the same board, field for field (no normalisation needed) *)
Theorem C12_print_parse : forall b, boards_ok b = true -> turn b < 2 -> ep b < 64 -> half b < 2^32 -> full b < 2^32 ->
  exists s, print_fen b = Some s /\ from_fen_string s = inr b.
Proof. exact print_parse. Qed.

Theorem C12_print_parse_wf : forall b, wf b = true -> half b < 2^32 -> full b < 2^32 ->
  exists s, print_fen b = Some s /\ from_fen_string s = inr b.
Proof. intros b H Hh Hf. destruct (wf_boards_ok b H) as (Hok & Ht & He). now apply print_parse. Qed.

(* parse then print: the spec's rendering of the decoded position = the canonical form of the input *)
Theorem C12_parse_print : forall s b, from_fen_string s = inr b ->
  exists s', print_fen b = Some s' /\ s' = FenSpec.render (abs b).
Proof. intros s b H. eexists. split; [eapply parse_print; exact H|reflexivity]. Qed.

Theorem C12_parse_print_canon : forall s b p, from_fen_string s = inr b -> FenSpec.read s = Some p -> epsq p <> Some 0%Z ->
  print_fen b = Some (canon_of s).
Proof. exact parse_print_canon. Qed.

Theorem C12_parse_print_id : forall s b p, from_fen_string s = inr b -> FenSpec.read s = Some p -> epsq p <> Some 0%Z ->
  length (split_on 32 s) = 6%nat ->
  no_leading_zero (nth 4 (split_on 32 s) []) -> no_leading_zero (nth 5 (split_on 32 s) []) ->
  print_fen b = Some s.
Proof.
  intros s b p H Hr Hne Hl H4 H5. rewrite (parse_print_canon s b p H Hr Hne). f_equal. eapply canon_of_id; eassumption.
Qed.

(* the spec's own reader and renderer are mutually inverse *)
Theorem C12_spec_render_read : forall p, pos_ok p -> FenSpec.read (FenSpec.render p) = Some p.
Proof. exact render_read. Qed.
Theorem C12_spec_read_render : forall s p, FenSpec.read s = Some p -> FenSpec.render p = canon_of s.
Proof. exact read_render_canon. Qed.

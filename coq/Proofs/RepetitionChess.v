(* C10, the two "facts of chess" behind the repetition window (Spec/Draws.v: parity_ok_keys, no_dist2_keys),
   proved for real games, and the repetition statement re-stated about POSITIONS.

   1. Rules level (Spec/Rules.v, mailbox positions): for ANY position p (legality of p is not needed), any
      pseudo-legal -- a fortiori any legal -- move u1 at p and u2 at apply p u1:
        (a) to_move (apply p u1) = opp (to_move p);
        (b) cells (apply (apply p u1) u2) <> cells p:  the square u1 left is empty after u1 (also for castling, e.p.,
            promotion, captures), and the reply only writes pieces of the replying side or empties squares, so that
            square cannot hold the mover's piece again.
   2. Model level: rep_key_of = the tuple the Zobrist key is a function of (C06_function_of_key); games = legal_line
      of Proofs/RepetitionProofs.v from a board satisfying MakeProofs.pos_inv; (a)/(b) transported through
      C01_pseudo_exact / C02_make_exact; lifted to key sequences under the explicit no-collision hypothesis.
   3. threefold on positions, the half-move clock as "plies since the last capture or pawn move", the engine's test. *)
Require Import Ink.Lib.Str.
Require Import NArith ZArith List Bool Lia ZifyBool ZifyN.
Import ListNotations.
Require Import Ink.Lib.Bits Ink.Model.Tables Ink.Model.Board Ink.Model.History Ink.Spec.Rules Ink.Spec.Draws.
Require Import Ink.Proofs.Abs Ink.Proofs.AttackProofs Ink.Proofs.MakeUnmake.
Require Ink.Proofs.RulesFlip Ink.Proofs.SanProofs Ink.Proofs.AbsProofs Ink.Proofs.MoveGenProofs Ink.Proofs.MakeProofs.
Require Ink.Proofs.ZobristProofs Ink.Proofs.HistoryProofs Ink.Proofs.RepetitionProofs.
Require Ink.Gen.Tables Ink.Gen.SweepAll.

(* ================================================================================================ *)
(* 1. Rules level                                                                                    *)
(* ================================================================================================ *)
Section RulesLevel.
Open Scope Z_scope.

Definition cget (cs : list (option piece)) (s : Z) : option piece := nth (Z.to_nat s) cs None.

Lemma get_cget p s : get p s = cget (cells p) s.
Proof. reflexivity. Qed.

Lemma cget_put_or cs s v t : cget (put cs s v) t = v \/ cget (put cs s v) t = cget cs t.
Proof.
  unfold cget, put. rewrite RulesFlip.nth_set_nth.
  destruct (Nat.eqb_spec (Z.to_nat t) (Z.to_nat s)) as [E|E]; [|now right].
  destruct (Nat.ltb_spec (Z.to_nat s) (length cs)) as [L|L]; [now left|].
  right. rewrite E. symmetry. apply nth_overflow. exact L.
Qed.

Lemma cget_put_None cs s t : cget cs t = None -> cget (put cs s None) t = None.
Proof. intros H. destruct (cget_put_or cs s None t) as [E|E]; [exact E|now rewrite E]. Qed.

Lemma cget_put_ne cs s v t : Z.to_nat s <> Z.to_nat t -> cget (put cs s v) t = cget cs t.
Proof.
  intros Hne. unfold cget, put. rewrite RulesFlip.nth_set_nth.
  destruct (Nat.eqb_spec (Z.to_nat t) (Z.to_nat s)) as [E|E]; [congruence|reflexivity].
Qed.

Lemma cget_put_eq cs s v : (Z.to_nat s < length cs)%nat -> cget (put cs s v) s = v.
Proof.
  intros L. unfold cget, put. rewrite RulesFlip.nth_set_nth, Nat.eqb_refl.
  destruct (Nat.ltb_spec (Z.to_nat s) (length cs)) as [L'|L']; [reflexivity|lia].
Qed.

Lemma cget_some_lt cs s x : cget cs s = Some x -> (Z.to_nat s < length cs)%nat.
Proof.
  unfold cget. intros H. destruct (Nat.ltb_spec (Z.to_nat s) (length cs)) as [L|L]; [exact L|].
  rewrite nth_overflow in H by exact L. discriminate.
Qed.

(* where a pseudo-legal move comes from *)
Lemma pseudo_moves_elim p u : In u (pseudo_moves p) ->
  exists k, 0 <= from u < 64 /\ get p (from u) = Some (to_move p, k) /\ In u (piece_moves p (from u) (to_move p, k)).
Proof.
  unfold pseudo_moves. intros H. apply in_flat_map in H as (s & Hs & H). apply RulesFlip.in_squares_iff in Hs.
  destruct (get p s) as [[c k]|] eqn:Eg; [|destruct H]. cbn [fst] in H.
  destruct (color_eqb c (to_move p)) eqn:Ec; [|destruct H].
  assert (c = to_move p) by (destruct c, (to_move p); try reflexivity; discriminate Ec). subst c.
  pose proof (RulesFlip.piece_moves_shape p s _ u Hs H) as (A & _ & _). rewrite A. exists k. auto.
Qed.

Lemma std_to_ne p c s l u :
  In u (map (fun t => {| from := s; to := t; prom := None |}) (filter (fun t => negb (own p c t)) l)) ->
  own p c s = true -> to u <> s.
Proof.
  intros H Ho. apply in_map_iff in H as (t & <- & Ht). apply filter_In in Ht as [_ Ht]. cbn [to].
  intros ->. rewrite Ho in Ht. discriminate.
Qed.

(* the target of a pseudo-legal move is not its origin *)
Lemma piece_moves_to_ne p s c k u : 0 <= s < 64 -> get p s = Some (c, k) -> In u (piece_moves p s (c, k)) -> to u <> s.
Proof.
  intros Hs Hg H.
  assert (Ho : own p c s = true) by (unfold own; rewrite Hg; destruct c; reflexivity).
  assert (He : empty p s = false) by (unfold empty; now rewrite Hg).
  destruct k; try (unfold piece_moves in H; cbn [fst snd] in H; exact (std_to_ne p c s _ u H Ho)).
  - (* pawn *)
    destruct (SanProofs.pawn_move_inv p s c u H Hs) as [_ [(_ & E & _)|([F|F] & _)]].
    + intros Et. rewrite Et, He in E. discriminate.
    + intros Et. rewrite Et in F. lia.
    + intros Et. rewrite Et in F. lia.
  - (* king *)
    unfold piece_moves in H. cbn [fst snd] in H. apply in_app_or in H as [H|H]; [exact (std_to_ne p c s _ u H Ho)|].
    cbv zeta in H.
    destruct ((s =? sq_of 4 (home_row c)) && negb (attacked p (sq_of 4 (home_row c)) (opp c))) eqn:E; [|destruct H].
    apply andb_true_iff in E as [E _]. apply Z.eqb_eq in E.
    apply in_app_or in H as [H|H];
      (match type of H with In _ (if ?x then _ else _) => destruct x end; [|destruct H]); destruct H as [<-|[]];
      cbn [to]; rewrite E; unfold sq_of; lia.
Qed.

Lemma pseudo_to_ne_from p u : In u (pseudo_moves p) -> to u <> from u.
Proof.
  intros H. apply pseudo_moves_elim in H as (k & Hs & Hg & H). exact (piece_moves_to_ne p _ _ k u Hs Hg H).
Qed.

(* (a) the side to move changes *)
Lemma apply_to_move p u : In u (pseudo_moves p) -> to_move (Rules.apply p u) = opp (to_move p).
Proof.
  intros H. apply pseudo_moves_elim in H as (k & _ & Hg & _). unfold Rules.apply. rewrite Hg. reflexivity.
Qed.

Lemma opp_ne c : opp c <> c.
Proof. destruct c; discriminate. Qed.

(* the square a pseudo-legal move leaves is empty afterwards: ordinary moves, captures, promotions, e.p., castling *)
Lemma apply_from_empty p u : In u (pseudo_moves p) -> get (Rules.apply p u) (from u) = None.
Proof.
  intros Hu. pose proof (pseudo_to_ne_from p u Hu) as Hne.
  pose proof (RulesFlip.pseudo_moves_shape p u Hu) as (Hf & Ht & _ & _).
  apply pseudo_moves_elim in Hu as (k & _ & Hg & Hpm).
  unfold Rules.apply. rewrite Hg. cbv zeta. rewrite get_cget. cbn [cells].
  set (cs0 := put (cells p) (from u) None).
  set (cs1 := put cs0 (to u) _).
  set (cs2 := if is_ep_capture p u then _ else cs1).
  assert (H0 : cget cs0 (from u) = None).
  { apply cget_put_eq. rewrite get_cget in Hg. exact (cget_some_lt _ _ _ Hg). }
  assert (H1 : cget cs1 (from u) = None).
  { unfold cs1. rewrite cget_put_ne; [exact H0|]. lia. }
  assert (H2 : cget cs2 (from u) = None).
  { unfold cs2. destruct (is_ep_capture p u); [now apply cget_put_None|exact H1]. }
  destruct (is_castling p u) eqn:Ec; [|exact H2].
  (* castling: the king started on the e-square of the home row, the rook lands on f or d *)
  unfold is_castling in Ec. rewrite Hg in Ec. destruct k; try discriminate. apply Z.eqb_eq in Ec.
  destruct (SanProofs.king_two_files p (from u) (to_move p) u Hpm Hf Ec) as (E & _ & _).
  assert (Hh : 0 <= home_row (to_move p) < 8) by (destruct (to_move p); cbn; lia).
  assert (Er : rowZ (from u) = home_row (to_move p)) by (rewrite E; apply SanProofs.row_sq_of; lia).
  rewrite Er.
  destruct (fileZ (to u) =? 6).
  - rewrite cget_put_ne; [now apply cget_put_None|]. rewrite E. unfold sq_of. lia.
  - rewrite cget_put_ne; [now apply cget_put_None|]. rewrite E. unfold sq_of. lia.
Qed.

(* a move only writes pieces of the moving side, or empties squares *)
Definition okv (p : pos) (s : Z) (v : option piece) : Prop :=
  v = get p s \/ v = None \/ exists k, v = Some (to_move p, k).

Lemma okv_put p s cs t v : okv p s (cget cs s) -> okv p s v -> okv p s (cget (put cs t v) s).
Proof. intros H1 H2. destruct (cget_put_or cs t v s) as [E|E]; rewrite E; assumption. Qed.

Lemma apply_get_cases p u s k : get p (from u) = Some (to_move p, k) -> okv p s (get (Rules.apply p u) s).
Proof.
  intros Hg. unfold Rules.apply. rewrite Hg. cbv zeta. rewrite get_cget. cbn [cells].
  assert (N : okv p s None) by (right; now left).
  assert (K : forall k', okv p s (Some (to_move p, k'))) by (intros k'; right; right; now exists k').
  assert (H0 : okv p s (cget (put (cells p) (from u) None) s)) by (apply okv_put; [now left|exact N]).
  set (cs0 := put (cells p) (from u) None) in *.
  assert (H1 : okv p s (cget (put cs0 (to u) (match prom u with Some k0 => Some (to_move p, k0) | None => Some (to_move p, k) end)) s)).
  { apply okv_put; [exact H0|]. destruct (prom u); apply K. }
  set (cs1 := put cs0 (to u) _) in *.
  assert (H2 : okv p s (cget (if is_ep_capture p u then put cs1 (sq_of (fileZ (to u)) (rowZ (from u))) None else cs1) s)).
  { destruct (is_ep_capture p u); [apply okv_put; assumption|exact H1]. }
  set (cs2 := if is_ep_capture p u then _ else cs1) in *.
  destruct (is_castling p u); [|exact H2].
  destruct (fileZ (to u) =? 6); (apply okv_put; [apply okv_put; assumption|apply K]).
Qed.

(* (b) two plies later the placement differs from the one before *)
Theorem two_ply_cells p u1 u2 :
  In u1 (pseudo_moves p) -> In u2 (pseudo_moves (Rules.apply p u1)) ->
  cells (Rules.apply (Rules.apply p u1) u2) <> cells p.
Proof.
  intros H1 H2 Heq.
  pose proof (apply_from_empty p u1 H1) as He. pose proof (apply_to_move p u1 H1) as Ht.
  destruct (pseudo_moves_elim p u1 H1) as (k1 & _ & Hg1 & _).
  destruct (pseudo_moves_elim _ u2 H2) as (k2 & _ & Hg2 & _).
  pose proof (apply_get_cases (Rules.apply p u1) u2 (from u1) k2 Hg2) as Hc.
  assert (Hp2 : get (Rules.apply (Rules.apply p u1) u2) (from u1) = Some (to_move p, k1))
    by (rewrite get_cget, Heq, <- get_cget; exact Hg1).
  unfold okv in Hc. rewrite Hp2, He, Ht in Hc.
  destruct Hc as [Hc|[Hc|(k' & Hc)]]; try discriminate.
  injection Hc as Hc _. exact (opp_ne _ (eq_sym Hc)).
Qed.

(* the position-for-repetition of the rules: placement, side, the four rights, e.p. FILE *)
Definition rep_key_pos (p : pos) : list (option piece) * color * (bool * bool * bool * bool) * option Z :=
  (cells p, to_move p, (wk p, wq p, bk p, bq p), option_map fileZ (epsq p)).

Theorem one_ply_rep_key p u : In u (pseudo_moves p) -> rep_key_pos (Rules.apply p u) <> rep_key_pos p.
Proof.
  intros H E. unfold rep_key_pos in E. injection E as _ E _ _ _ _ _. rewrite (apply_to_move p u H) in E.
  exact (opp_ne _ E).
Qed.

Theorem two_ply_rep_key p u1 u2 : In u1 (pseudo_moves p) -> In u2 (pseudo_moves (Rules.apply p u1)) ->
  rep_key_pos (Rules.apply (Rules.apply p u1) u2) <> rep_key_pos p.
Proof.
  intros H1 H2 E. unfold rep_key_pos in E. injection E as E _ _ _ _ _ _. exact (two_ply_cells p u1 u2 H1 H2 E).
Qed.

Lemma legal_pseudo p u : In u (legal_moves p) -> In u (pseudo_moves p).
Proof. unfold legal_moves. intros H. now apply filter_In in H as [H _]. Qed.

(* as the task states them: legal moves *)
Theorem one_ply_rep_key_legal p u : In u (legal_moves p) -> rep_key_pos (Rules.apply p u) <> rep_key_pos p.
Proof. intros H. apply one_ply_rep_key. now apply legal_pseudo. Qed.

Theorem two_ply_rep_key_legal p u1 u2 : In u1 (legal_moves p) -> In u2 (legal_moves (Rules.apply p u1)) ->
  rep_key_pos (Rules.apply (Rules.apply p u1) u2) <> rep_key_pos p.
Proof. intros H1 H2. apply two_ply_rep_key; now apply legal_pseudo. Qed.

End RulesLevel.

(* ================================================================================================ *)
(* 2. Model level: positions for repetition, games, key sequences                                    *)
(* ================================================================================================ *)
Open Scope N_scope.

(* the tuple the Zobrist key is a function of (ZobristProofs.key_of, C06_function_of_key): the 12 bitboards, the side
   to move, the four rights, the e.p. FILE if an e.p. square is set -- no clocks, no e.p. rank *)
Definition rep_key : Type := (list N * N * list bool * option N)%type.
Definition rep_key_of (b : board) : rep_key := (bbs b, turn b, ZobristProofs.rights b, ZobristProofs.ep_key b).

Lemma rep_key_of_key_of b : rep_key_of b = ZobristProofs.key_of b.
Proof. reflexivity. Qed.

Lemma rep_key_turn b1 b2 : rep_key_of b1 = rep_key_of b2 -> turn b1 = turn b2.
Proof. intros E. exact (f_equal (fun k : rep_key => snd (fst (fst k))) E). Qed.

Lemma rep_key_bbs b1 b2 : rep_key_of b1 = rep_key_of b2 -> bbs b1 = bbs b2.
Proof. intros E. exact (f_equal (fun k : rep_key => fst (fst (fst k))) E). Qed.

Lemma rep_key_same_hash T b1 b2 : rep_key_of b1 = rep_key_of b2 -> zobrist_hash T b1 = zobrist_hash T b2.
Proof. exact (ZobristProofs.function_of_key T b1 b2). Qed.

(* boolean equality of rep_keys, so that occurrences can be counted *)
Fixpoint list_eqb {A} (e : A -> A -> bool) (l1 l2 : list A) : bool :=
  match l1, l2 with
  | [], [] => true
  | x :: r, y :: s => e x y && list_eqb e r s
  | _, _ => false
  end.
Definition optN_eqb (a b : option N) : bool :=
  match a, b with None, None => true | Some x, Some y => x =? y | _, _ => false end.
Definition rep_key_eqb (k1 k2 : rep_key) : bool :=
  let '(p1, t1, r1, e1) := k1 in let '(p2, t2, r2, e2) := k2 in
  list_eqb N.eqb p1 p2 && (t1 =? t2) && list_eqb Bool.eqb r1 r2 && optN_eqb e1 e2.

Lemma list_eqb_spec {A} (e : A -> A -> bool) : (forall x y, e x y = true <-> x = y) ->
  forall l1 l2, list_eqb e l1 l2 = true <-> l1 = l2.
Proof.
  intros He. induction l1 as [|x r IH]; intros [|y s]; cbn [list_eqb]; try (split; [discriminate|discriminate]); [tauto|].
  rewrite andb_true_iff, He, IH. split; [intros [-> ->]; reflexivity|intros [= -> ->]; auto].
Qed.

Lemma optN_eqb_spec a b : optN_eqb a b = true <-> a = b.
Proof.
  destruct a as [x|], b as [y|]; cbn [optN_eqb]; try (split; [discriminate|discriminate]); [|tauto].
  rewrite N.eqb_eq. split; [now intros ->|now intros [= ->]].
Qed.

Lemma rep_key_eqb_spec k1 k2 : rep_key_eqb k1 k2 = true <-> k1 = k2.
Proof.
  destruct k1 as [[[p1 t1] r1] e1], k2 as [[[p2 t2] r2] e2]. unfold rep_key_eqb.
  rewrite !andb_true_iff, (list_eqb_spec N.eqb N.eqb_eq), (list_eqb_spec Bool.eqb eqb_true_iff), N.eqb_eq, optN_eqb_spec.
  split; [intros [[[-> ->] ->] ->]; reflexivity|intros [= -> -> -> ->]; auto].
Qed.

(* [take]/[countb] of Spec/Draws.v for any element type *)
Fixpoint takeP {A} (n : N) (l : list A) : list A :=
  match l with [] => [] | x :: r => if n =? 0 then [] else x :: takeP (n - 1) r end.
Fixpoint countP {A} (f : A -> bool) (l : list A) : N :=
  match l with [] => 0 | x :: r => (if f x then 1 else 0) + countP f r end.

(* ks = the positions (rep_keys) of the game, oldest first, the last one is the current position; hm = its half-move
   clock = number of plies since the last capture or pawn move (game_half_since_irreversible below).  The hm positions
   before the current one are those reached since that move (the position it produced included).  The current
   position has occurred [1 + earlier_equal_positions ks hm] times among them. *)
Definition earlier_equal_positions (ks : list rep_key) (hm : N) : N :=
  match rev ks with [] => 0 | cur :: prevs => countP (rep_key_eqb cur) (takeP hm prevs) end.
Definition threefold_positions (ks : list rep_key) (hm : N) : Prop := 2 <= earlier_equal_positions ks hm.

Lemma take_map {A} (f : A -> N) : forall l n, take n (map f l) = map f (takeP n l).
Proof. induction l as [|x r IH]; intros n; cbn [map take takeP]; [reflexivity|]. destruct (n =? 0); [reflexivity|]. cbn [map]. now rewrite IH. Qed.

Lemma takeP_map {A B} (f : A -> B) : forall l n, takeP n (map f l) = map f (takeP n l).
Proof. induction l as [|x r IH]; intros n; cbn [map takeP]; [reflexivity|]. destruct (n =? 0); [reflexivity|]. cbn [map]. now rewrite IH. Qed.

Lemma takeP_In {A} : forall (l : list A) n x, In x (takeP n l) -> In x l.
Proof.
  induction l as [|y r IH]; intros n x; cbn [takeP]; [tauto|]. destruct (n =? 0); [intros []|].
  intros [<-|H]; [now left|right; now apply (IH (n - 1))].
Qed.

Lemma countb_map {A} (g : N -> bool) (f : A -> N) l : countb g (map f l) = countP (fun x => g (f x)) l.
Proof. induction l as [|x r IH]; cbn [map countb countP]; [reflexivity|]. now rewrite IH. Qed.

Lemma countP_map {A B} (g : B -> bool) (f : A -> B) l : countP g (map f l) = countP (fun x => g (f x)) l.
Proof. induction l as [|x r IH]; cbn [map countP]; [reflexivity|]. now rewrite IH. Qed.

Lemma countP_ext {A} (f g : A -> bool) l : (forall x, In x l -> f x = g x) -> countP f l = countP g l.
Proof.
  induction l as [|x r IH]; intros H; cbn [countP]; [reflexivity|].
  rewrite (H x (or_introl eq_refl)), IH; [reflexivity|]. intros y Hy. apply H. now right.
Qed.

Lemma nth_errorN_map {A} (f : A -> N) : forall l d x, nth_errorN d (map f l) = Some x ->
  exists B, nth_error l (N.to_nat d) = Some B /\ x = f B.
Proof.
  induction l as [|y r IH]; intros d x; cbn [map nth_errorN]; [discriminate|].
  destruct (N.eqb_spec d 0) as [->|Hd].
  - intros [= <-]. exists y. split; reflexivity.
  - intros H. apply IH in H as (B & HB & ->). exists B. split; [|reflexivity].
    replace (N.to_nat d) with (S (N.to_nat (d - 1))) by lia. exact HB.
Qed.

Lemma nth_error_rev_inv {A} (l : list A) k x : nth_error (rev l) k = Some x ->
  (k < length l)%nat /\ nth_error l (length l - S k) = Some x.
Proof.
  intros H. assert (Hk : (k < length l)%nat) by (rewrite <- rev_length; apply nth_error_Some; congruence).
  split; [exact Hk|]. pose proof (nth_error_nth _ _ x H) as E. rewrite rev_nth in E by exact Hk.
  transitivity (Some (nth (length l - S k) l x)); [apply nth_error_nth'; lia|now rewrite E].
Qed.

Lemma mod2_shift a k : k mod 2 = 1 -> (a + k) mod 2 <> a mod 2.
Proof. intros Hk. lia. Qed.

(* the half-move clock as a function of which moves were irreversible *)
Definition clock_step (n : N) (irreversible : bool) : N := if irreversible then 0 else n + 1.

Lemma clock_fold_all_false : forall fl n, (forall x, In x fl -> x = false) ->
  fold_left clock_step fl n = n + N.of_nat (length fl).
Proof.
  induction fl as [|f r IH]; intros n H; cbn [fold_left length]; [lia|].
  rewrite (H f (or_introl eq_refl)). cbn [clock_step]. rewrite IH by (intros x Hx; apply H; now right). lia.
Qed.

Lemma clock_fold_last_true f1 f2 n : (forall x, In x f2 -> x = false) ->
  fold_left clock_step (f1 ++ true :: f2) n = N.of_nat (length f2).
Proof.
  intros H. rewrite fold_left_app. cbn [fold_left clock_step]. rewrite clock_fold_all_false by exact H. lia.
Qed.

Lemma clock_fold_le : forall fl n, fold_left clock_step fl n <= n + N.of_nat (length fl).
Proof.
  induction fl as [|f r IH]; intros n; cbn [fold_left length]; [lia|].
  specialize (IH (clock_step n f)). destruct f; cbn [clock_step] in *; lia.
Qed.

(* which moves of a line are captures or pawn moves, by the rules *)
Fixpoint irrev_flags (p : pos) (us : list mv) : list bool :=
  match us with
  | [] => []
  | u :: r => (is_pawn_move p u || is_capture p u) :: irrev_flags (Rules.apply p u) r
  end.

Lemma irrev_flags_length : forall us p, length (irrev_flags p us) = length us.
Proof. induction us as [|u r IH]; intros p; cbn [irrev_flags length]; [reflexivity|]. now rewrite IH. Qed.

Section Game.
Variable T : Tables.t.
Hypothesis OK : tables_attacks_ok T = true.
Hypothesis MK : MoveGenProofs.tables_movegen_ok T = true.

Lemma movegen_ranks : MakeProofs.tables_ranks_ok T = true.
Proof.
  destruct (MoveGenProofs.tables_movegen_elim T MK) as (H1 & H2 & H7 & H8 & _).
  unfold MakeProofs.tables_ranks_ok. rewrite H1, H2, H7, H8. reflexivity.
Qed.

Notation pos_inv := (MakeProofs.pos_inv T).
Notation legal_line := (RepetitionProofs.legal_line T).

(* one step of a game, seen by the rules *)
Lemma step_spec b m b' : pos_inv b -> In m (gen_pseudo T b) -> make b m = Some b' ->
  abs b' = Rules.apply (abs b) (uci_of m) /\ In (uci_of m) (pseudo_moves (abs b)).
Proof.
  intros (Hwf & Hrw & Hep & Hv) Hin Hm. split.
  - exact (MakeProofs.C02_make_exact T OK (MoveGenProofs.tables_movegen_castle T MK) movegen_ranks b m b' Hwf Hrw Hep Hv Hin Hm).
  - assert (Hl : legal_pos (abs b) = true) by (apply (MakeProofs.legal_pos_iff T OK b Hwf); auto).
    destruct (MoveGenProofs.legal_pos_conditions b Hwf Hl) as [_ He].
    apply (proj1 (MoveGenProofs.C01_pseudo_exact T OK MK b Hwf Hrw He)). now apply in_map.
Qed.

Lemma step_inv b m b' : pos_inv b -> In m (gen_pseudo T b) -> make b m = Some b' -> is_valid T b' = true -> pos_inv b'.
Proof.
  exact (MakeProofs.C02_invariant_preserved T OK (MoveGenProofs.tables_movegen_castle T MK) movegen_ranks b m b').
Qed.

Lemma line_pos_inv b0 ms bs : legal_line b0 ms bs -> pos_inv b0 -> forall B, In B (b0 :: bs) -> pos_inv B.
Proof.
  induction 1 as [b|b m b2 ms bs Hin Hm Hv _ IH]; intros Hinv B HB.
  - destruct HB as [<-|[]]. exact Hinv.
  - destruct HB as [<-|HB]; [exact Hinv|]. apply IH; [|exact HB]. exact (step_inv b m b2 Hinv Hin Hm Hv).
Qed.

(* the placement is a function of the twelve bitboards *)
Lemma cells_of_bbs b1 b2 : bbs b1 = bbs b2 -> cells (abs b1) = cells (abs b2).
Proof.
  intros H. unfold bbs in H. injection H as E1 E2 E3 E4 E5 E6 E7 E8 E9 E10 E11 E12.
  unfold abs. cbn [cells]. apply map_ext. intros i.
  unfold cell_of, piece_at, piece_at_mask. now rewrite E1, E2, E3, E4, E5, E6, E7, E8, E9, E10, E11, E12.
Qed.

(* ---- (a) the side to move alternates ---- *)
Lemma game_turn b0 ms bs : legal_line b0 ms bs -> turn b0 < 2 ->
  forall i B, nth_error (b0 :: bs) i = Some B -> turn B = (turn b0 + N.of_nat i) mod 2.
Proof.
  induction 1 as [b|b m b2 ms bs _ Hm _ _ IH]; intros Ht i B Hi.
  - destruct i as [|i]; [|destruct i; discriminate]. injection Hi as <-. cbn [N.of_nat]. lia.
  - destruct i as [|i]; [injection Hi as <-; cbn [N.of_nat]; lia|]. cbn [nth_error] in Hi.
    pose proof (MoveGenProofs.make_turn b m b2 Hm) as Et. unfold opposite in Et.
    rewrite (IH ltac:(lia) i B Hi), Et. lia.
Qed.

Theorem game_odd_distance b0 ms bs : legal_line b0 ms bs -> turn b0 < 2 ->
  forall i j Bi Bj, nth_error (b0 :: bs) i = Some Bi -> nth_error (b0 :: bs) j = Some Bj ->
  (i <= j)%nat -> N.of_nat (j - i) mod 2 = 1 -> turn Bi <> turn Bj /\ rep_key_of Bi <> rep_key_of Bj.
Proof.
  intros LL Ht i j Bi Bj Hi Hj Hij Hodd.
  assert (Hne : turn Bi <> turn Bj).
  { rewrite (game_turn b0 ms bs LL Ht i Bi Hi), (game_turn b0 ms bs LL Ht j Bj Hj).
    replace (N.of_nat j) with (N.of_nat i + N.of_nat (j - i)) by lia. rewrite N.add_assoc.
    intro E. exact (mod2_shift _ _ Hodd (eq_sym E)). }
  split; [exact Hne|]. intros E. exact (Hne (rep_key_turn _ _ E)).
Qed.

(* ---- (b) two plies later the placement differs ---- *)
Theorem game_two_ply b0 ms bs : legal_line b0 ms bs -> pos_inv b0 ->
  forall i B B2, nth_error (b0 :: bs) i = Some B -> nth_error (b0 :: bs) (S (S i)) = Some B2 ->
  bbs B2 <> bbs B /\ rep_key_of B2 <> rep_key_of B.
Proof.
  induction 1 as [b|b m b2 ms bs Hin Hm Hv LL IH]; intros Hinv i B B2 Hi Hi2.
  - destruct i; discriminate.
  - pose proof (step_inv b m b2 Hinv Hin Hm Hv) as Hinv2.
    destruct i as [|i]; [|exact (IH Hinv2 i B B2 Hi Hi2)].
    injection Hi as <-. cbn [nth_error] in Hi2.
    inversion LL as [|x m2 b3 ms' bs' Hin2 Hm2 Hv2 LL' E1 E2 E3]; subst; [discriminate|]. injection Hi2 as <-.
    destruct (step_spec b m b2 Hinv Hin Hm) as [A1 P1]. destruct (step_spec b2 m2 b3 Hinv2 Hin2 Hm2) as [A2 P2].
    assert (Hb : bbs b3 <> bbs b).
    { intros E. apply cells_of_bbs in E. rewrite A2, A1 in E. rewrite A1 in P2.
      exact (two_ply_cells (abs b) (uci_of m) (uci_of m2) P1 P2 E). }
    split; [exact Hb|]. intros E. exact (Hb (rep_key_bbs _ _ E)).
Qed.

(* ---- the inherent assumption of a hash-based repetition test: among the positions of THIS game, equal keys
        mean equal positions-for-repetition (the converse is C06_function_of_key) ---- *)
Definition no_collision (boards : list board) : Prop :=
  forall i j bi bj, nth_error boards i = Some bi -> nth_error boards j = Some bj ->
    zobrist_hash T bi = zobrist_hash T bj -> rep_key_of bi = rep_key_of bj.

Lemma no_collision_In boards : no_collision boards -> forall x y, In x boards -> In y boards ->
  (zobrist_hash T x = zobrist_hash T y <-> rep_key_of x = rep_key_of y).
Proof.
  intros H x y Hx Hy. apply In_nth_error in Hx as [i Hi]. apply In_nth_error in Hy as [j Hj].
  split; [exact (H i j x y Hi Hj)|apply rep_key_same_hash].
Qed.

(* ---- lifted to the key sequence ---- *)
Theorem parity_ok_chess b0 ms bs : legal_line b0 ms bs -> turn b0 < 2 -> no_collision (b0 :: bs) ->
  parity_ok_keys (map (zobrist_hash T) (b0 :: bs)).
Proof.
  intros LL Ht NC. unfold parity_ok_keys. rewrite <- map_rev.
  destruct (rev (b0 :: bs)) as [|cur prevs] eqn:Er; [exact I|]. cbn [map].
  intros d x Hd Hev Heq. apply nth_errorN_map in Hd as (B & HB & ->).
  assert (H0 : nth_error (rev (b0 :: bs)) 0 = Some cur) by now rewrite Er.
  assert (H1 : nth_error (rev (b0 :: bs)) (S (N.to_nat d)) = Some B) by now rewrite Er.
  apply nth_error_rev_inv in H0 as [L0 H0]. apply nth_error_rev_inv in H1 as [L1 H1].
  pose proof (NC _ _ _ _ H1 H0 Heq) as Ek.
  refine (proj2 (game_odd_distance b0 ms bs LL Ht _ _ B cur H1 H0 ltac:(lia) _) Ek).
  replace (length (b0 :: bs) - 1 - (length (b0 :: bs) - S (S (N.to_nat d))))%nat with (S (N.to_nat d)) by lia.
  lia.
Qed.

Theorem no_dist2_chess b0 ms bs : legal_line b0 ms bs -> pos_inv b0 -> no_collision (b0 :: bs) ->
  no_dist2_keys (map (zobrist_hash T) (b0 :: bs)).
Proof.
  intros LL Hinv NC. unfold no_dist2_keys. rewrite <- map_rev.
  destruct (rev (b0 :: bs)) as [|cur prevs] eqn:Er; [exact I|]. cbn [map].
  intros x Hd Heq. apply nth_errorN_map in Hd as (B & HB & ->). change (N.to_nat 1) with 1%nat in HB.
  assert (H0 : nth_error (rev (b0 :: bs)) 0 = Some cur) by now rewrite Er.
  assert (H1 : nth_error (rev (b0 :: bs)) 2 = Some B) by now rewrite Er.
  apply nth_error_rev_inv in H0 as [L0 H0]. apply nth_error_rev_inv in H1 as [L1 H1].
  pose proof (NC _ _ _ _ H1 H0 Heq) as Ek.
  replace (length (b0 :: bs) - 1)%nat with (S (S (length (b0 :: bs) - 3))) in H0 by lia.
  exact (proj2 (game_two_ply b0 ms bs LL Hinv _ B cur H1 H0) (eq_sym Ek)).
Qed.

(* ---- threefold on keys = threefold on positions ---- *)
Theorem threefold_keys_positions boards hm : no_collision boards ->
  (threefold (map (zobrist_hash T) boards) hm <-> threefold_positions (map rep_key_of boards) hm).
Proof.
  intros NC. unfold threefold, threefold_positions, earlier_equal, earlier_equal_positions. rewrite <- !map_rev.
  assert (Hin : forall x, In x (rev boards) -> In x boards) by (intros x; apply in_rev).
  destruct (rev boards) as [|cur prevs]; [reflexivity|]. cbn [map]. unfold earlier_equal_rev.
  rewrite take_map, countb_map, takeP_map, countP_map.
  rewrite (countP_ext (fun x => zobrist_hash T cur =? zobrist_hash T x) (fun x => rep_key_eqb (rep_key_of cur) (rep_key_of x)));
    [reflexivity|].
  intros x Hx. apply takeP_In in Hx.
  pose proof (no_collision_In boards NC cur x (Hin _ (or_introl eq_refl)) (Hin _ (or_intror Hx))) as E.
  destruct (N.eqb_spec (zobrist_hash T cur) (zobrist_hash T x)) as [H|H];
    destruct (rep_key_eqb (rep_key_of cur) (rep_key_of x)) eqn:K; try reflexivity; exfalso.
  - apply E in H. apply rep_key_eqb_spec in H. congruence.
  - apply rep_key_eqb_spec in K. apply E in K. contradiction.
Qed.

(* ---- the half-move clock ---- *)
Lemma make_half b m b' : make b m = Some b' -> half b' = clock_step (half b) (half_reset m).
Proof.
  unfold make. intros H.
  destruct (if castle m then _ else _) as [[a p]|]; [|discriminate]. injection H as <-.
  destruct (is_white_turn b); cbn [half]; unfold clock_step; reflexivity.
Qed.

(* the model's reset flag is "pawn move or capture" of the rules *)
Lemma half_reset_spec b m b' : pos_inv b -> In m (gen_pseudo T b) -> make b m = Some b' ->
  half_reset m = is_pawn_move (abs b) (uci_of m) || is_capture (abs b) (uci_of m).
Proof.
  intros Hinv Hin Hm. destruct (step_spec b m b' Hinv Hin Hm) as [A P].
  apply (f_equal halfc) in A. change (halfc (abs b')) with (half b') in A. rewrite (make_half b m b' Hm) in A.
  apply pseudo_moves_elim in P as (k & _ & Hg & _). unfold Rules.apply in A. rewrite Hg in A. cbn [halfc] in A.
  change (halfc (abs b)) with (half b) in A. unfold clock_step in A.
  destruct (half_reset m), (is_pawn_move (abs b) (uci_of m) || is_capture (abs b) (uci_of m)); try reflexivity; lia.
Qed.

Theorem game_half b0 ms bs : legal_line b0 ms bs -> pos_inv b0 ->
  half (last bs b0) = fold_left clock_step (irrev_flags (abs b0) (map uci_of ms)) (half b0).
Proof.
  induction 1 as [b|b m b2 ms bs Hin Hm Hv _ IH]; intros Hinv; [reflexivity|].
  rewrite RepetitionProofs.last_cons. cbn [map irrev_flags fold_left].
  destruct (step_spec b m b2 Hinv Hin Hm) as [A _].
  rewrite (IH (step_inv b m b2 Hinv Hin Hm Hv)), A, (make_half b m b2 Hm), (half_reset_spec b m b2 Hinv Hin Hm).
  reflexivity.
Qed.

(* hm = number of plies since the last capture or pawn move of the game; if there was none, the clock of the first
   position plus the length of the game *)
Theorem game_half_since_irreversible b0 ms bs : legal_line b0 ms bs -> pos_inv b0 ->
  let fl := irrev_flags (abs b0) (map uci_of ms) in
  (forall f1 f2, fl = f1 ++ true :: f2 -> (forall x, In x f2 -> x = false) -> half (last bs b0) = N.of_nat (length f2)) /\
  ((forall x, In x fl -> x = false) -> half (last bs b0) = half b0 + N.of_nat (length ms)) /\
  half (last bs b0) <= half b0 + N.of_nat (length ms).
Proof.
  intros LL Hinv fl. pose proof (game_half b0 ms bs LL Hinv) as E. fold fl in E.
  assert (Hl : length fl = length ms) by (unfold fl; now rewrite irrev_flags_length, map_length).
  split; [|split].
  - intros f1 f2 Hf H2. rewrite E, Hf. now apply clock_fold_last_true.
  - intros H. rewrite E, clock_fold_all_false by exact H. now rewrite Hl.
  - rewrite E, <- Hl. apply clock_fold_le.
Qed.

(* ---- the engine's draw test at the last position of a game, about POSITIONS ---- *)
Theorem history_threefold_chess b0 ms bs h base :
  pos_inv b0 -> legal_line b0 ms bs ->
  let boards := b0 :: bs in
  let keys := map (zobrist_hash T) boards in
  let hm := half (last bs b0) in
  no_collision boards -> hm + 1 <= lenN keys -> hm < 65536 ->
  (3 <= count_repetitions_u32 (record_from h base keys) (base + lenN keys - 1) hm
   <-> threefold_positions (map rep_key_of boards) hm).
Proof.
  intros Hinv LL boards keys hm NC Hhm H16.
  assert (Ht : turn b0 < 2) by (apply AbsProofs.wf_turn; apply Hinv).
  rewrite <- (threefold_keys_positions boards hm NC).
  apply HistoryProofs.history_threefold; try assumption; [discriminate| |].
  - exact (parity_ok_chess b0 ms bs LL Ht NC).
  - exact (no_dist2_chess b0 ms bs LL Hinv NC).
Qed.

(* a game whose first position has clock 0 (e.g. the start position): the clock never reaches back before it *)
Corollary history_threefold_chess_clock0 b0 ms bs h base :
  pos_inv b0 -> legal_line b0 ms bs -> half b0 = 0 -> N.of_nat (length ms) < 65536 ->
  let boards := b0 :: bs in
  let keys := map (zobrist_hash T) boards in
  let hm := half (last bs b0) in
  no_collision boards ->
  (3 <= count_repetitions_u32 (record_from h base keys) (base + lenN keys - 1) hm
   <-> threefold_positions (map rep_key_of boards) hm).
Proof.
  intros Hinv LL H0 Hlen boards keys hm NC.
  destruct (game_half_since_irreversible b0 ms bs LL Hinv) as (_ & _ & Hle). fold hm in Hle.
  assert (Hk : lenN keys = N.of_nat (length ms) + 1).
  { unfold lenN, keys, boards. rewrite map_length. cbn [length]. rewrite (RepetitionProofs.legal_line_length T _ _ _ LL). lia. }
  pose proof (history_threefold_chess b0 ms bs h base Hinv LL NC) as H. cbv zeta in H.
  unfold hm, keys, boards in *. apply H; lia.
Qed.

(* ---- the same at a node of the search: game ++ current line ++ node is a legal line ---- *)
Theorem leaf_iff_threefold_chess b0 ms bs base prefix ply zh st :
  RepetitionProofs.line_inv T base prefix zh st ->
  pos_inv b0 -> legal_line b0 ms bs -> prefix ++ [Search.s_board st] = b0 :: bs ->
  no_collision (b0 :: bs) ->
  let hm := half (Search.s_board st) mod 65536 in
  hm + 1 <= N.of_nat (length (b0 :: bs)) \/ zh <> 0 ->
  (RepetitionProofs.repetition_flag ply zh st = true
   <-> 0 < ply /\ threefold_positions (map rep_key_of (b0 :: bs)) hm).
Proof.
  intros Hline Hinv LL Epath NC hm Hor.
  assert (Ht : turn b0 < 2) by (apply AbsProofs.wf_turn; apply Hinv).
  rewrite <- (threefold_keys_positions (b0 :: bs) hm NC).
  assert (Ek : RepetitionProofs.line_keys T prefix (Search.s_board st) = map (zobrist_hash T) (b0 :: bs))
    by (unfold RepetitionProofs.line_keys; now rewrite Epath).
  rewrite <- Ek.
  assert (Hp : parity_ok_keys (RepetitionProofs.line_keys T prefix (Search.s_board st)))
    by (rewrite Ek; exact (parity_ok_chess b0 ms bs LL Ht NC)).
  assert (Hd : no_dist2_keys (RepetitionProofs.line_keys T prefix (Search.s_board st)))
    by (rewrite Ek; exact (no_dist2_chess b0 ms bs LL Hinv NC)).
  destruct Hor as [Hs|Hz].
  - apply (RepetitionProofs.leaf_iff_threefold T base prefix ply zh st Hline); try assumption.
    rewrite Ek. unfold lenN. rewrite map_length. exact Hs.
  - exact (RepetitionProofs.leaf_iff_threefold_gen T base prefix ply zh st Hline Hz Hp Hd).
Qed.

End Game.

(* ================================================================================================ *)
(* 3. single steps on boards; executable checkers; the tables of the current tree; an example         *)
(* ================================================================================================ *)
(* (a) on boards: no hypothesis on the position beyond turn < 2 *)
Theorem one_ply_boards b m b' : turn b < 2 -> make b m = Some b' -> turn b' <> turn b /\ rep_key_of b' <> rep_key_of b.
Proof.
  intros Ht Hm. pose proof (MoveGenProofs.make_turn b m b' Hm) as Et. unfold opposite in Et.
  assert (Hne : turn b' <> turn b) by lia. split; [exact Hne|]. intros E. exact (Hne (rep_key_turn _ _ E)).
Qed.

Section Boards.
Variable T : Tables.t.
Hypothesis OK : tables_attacks_ok T = true.
Hypothesis MK : MoveGenProofs.tables_movegen_ok T = true.

(* (b) on boards: b legal position, m1 legal at b, m2 generated at the successor *)
Theorem two_ply_boards b m1 b1 m2 b2 :
  MakeProofs.pos_inv T b -> In m1 (gen_pseudo T b) -> make b m1 = Some b1 -> is_valid T b1 = true ->
  In m2 (gen_pseudo T b1) -> make b1 m2 = Some b2 ->
  bbs b2 <> bbs b /\ rep_key_of b2 <> rep_key_of b.
Proof.
  intros Hinv Hin1 Hm1 Hv1 Hin2 Hm2.
  pose proof (step_inv T OK MK b m1 b1 Hinv Hin1 Hm1 Hv1) as Hinv1.
  destruct (step_spec T OK MK b m1 b1 Hinv Hin1 Hm1) as [A1 P1].
  destruct (step_spec T OK MK b1 m2 b2 Hinv1 Hin2 Hm2) as [A2 P2].
  assert (Hb : bbs b2 <> bbs b).
  { intros E. apply cells_of_bbs in E. rewrite A2, A1 in E. rewrite A1 in P2.
    exact (two_ply_cells (abs b) (uci_of m1) (uci_of m2) P1 P2 E). }
  split; [exact Hb|]. intros E. exact (Hb (rep_key_bbs _ _ E)).
Qed.

End Boards.

(* a game given by (origin, target) squares, checked by computation *)
Fixpoint play_picks (T : Tables.t) (b : board) (picks : list (N * N)) : option (list move * list board) :=
  match picks with
  | [] => Some ([], [])
  | (s, t) :: r =>
      match find (fun m => (src m =? s) && (dst m =? t)) (gen_pseudo T b) with
      | Some m =>
          match make b m with
          | Some b2 =>
              if is_valid T b2
              then match play_picks T b2 r with Some (ms, bs) => Some (m :: ms, b2 :: bs) | None => None end
              else None
          | None => None
          end
      | None => None
      end
  end.

Lemma play_picks_legal T : forall picks b ms bs, play_picks T b picks = Some (ms, bs) -> RepetitionProofs.legal_line T b ms bs.
Proof.
  induction picks as [|[s t] r IH]; intros b ms bs; cbn [play_picks].
  - intros [= <- <-]. constructor.
  - destruct (find _ (gen_pseudo T b)) as [m|] eqn:Ef; [|discriminate].
    destruct (make b m) as [b2|] eqn:Em; [|discriminate].
    destruct (is_valid T b2) eqn:Ev; [|discriminate].
    destruct (play_picks T b2 r) as [[ms' bs']|] eqn:Ep; [|discriminate].
    intros [= <- <-]. apply find_some in Ef as [Hin _]. econstructor; try eassumption. now apply IH.
Qed.

Definition no_collisionb (T : Tables.t) (boards : list board) : bool :=
  forallb (fun x => forallb (fun y => implb (zobrist_hash T x =? zobrist_hash T y)
                                            (rep_key_eqb (rep_key_of x) (rep_key_of y))) boards) boards.

Lemma no_collisionb_sound T boards : no_collisionb T boards = true -> no_collision T boards.
Proof.
  unfold no_collisionb. intros H i j bi bj Hi Hj E. apply nth_error_In in Hi. apply nth_error_In in Hj.
  rewrite forallb_forall in H. specialize (H bi Hi). rewrite forallb_forall in H. specialize (H bj Hj).
  apply N.eqb_eq in E. rewrite E in H. cbn [implb] in H. now apply rep_key_eqb_spec.
Qed.

(* ---- the tables of the current tree ---- *)

Definition gen_tables := Ink.Gen.Tables.tables.

Theorem history_threefold_chess_gen b0 ms bs h base :
  MakeProofs.pos_inv gen_tables b0 -> RepetitionProofs.legal_line gen_tables b0 ms bs ->
  let boards := b0 :: bs in
  let keys := map (zobrist_hash gen_tables) boards in
  let hm := half (last bs b0) in
  no_collision gen_tables boards -> hm + 1 <= lenN keys -> hm < 65536 ->
  (3 <= count_repetitions_u32 (record_from h base keys) (base + lenN keys - 1) hm
   <-> threefold_positions (map rep_key_of boards) hm).
Proof. exact (history_threefold_chess gen_tables Ink.Gen.SweepAll.tables_ok MoveGenProofs.gen_tables_movegen_ok b0 ms bs h base). Qed.

Theorem leaf_iff_threefold_chess_gen b0 ms bs base prefix ply zh st :
  RepetitionProofs.line_inv gen_tables base prefix zh st ->
  MakeProofs.pos_inv gen_tables b0 -> RepetitionProofs.legal_line gen_tables b0 ms bs ->
  prefix ++ [Search.s_board st] = b0 :: bs -> no_collision gen_tables (b0 :: bs) ->
  let hm := half (Search.s_board st) mod 65536 in
  hm + 1 <= N.of_nat (length (b0 :: bs)) \/ zh <> 0 ->
  (RepetitionProofs.repetition_flag ply zh st = true
   <-> 0 < ply /\ threefold_positions (map rep_key_of (b0 :: bs)) hm).
Proof.
  exact (leaf_iff_threefold_chess gen_tables Ink.Gen.SweepAll.tables_ok MoveGenProofs.gen_tables_movegen_ok b0 ms bs base prefix ply zh st).
Qed.

(* ---- 1.Nf3 Nf6 2.Ng1 Ng8 3.Nf3 Nf6 4.Ng1 Ng8 from the start position ---- *)
Definition ex_start : board := board_of_text Fen.STARTPOS.
Definition ex_picks : list (N * N) := [(62, 45); (6, 21); (45, 62); (21, 6); (62, 45); (6, 21); (45, 62); (21, 6)].
Definition ex_game : list move * list board :=
  match play_picks gen_tables ex_start ex_picks with Some r => r | None => ([], []) end.

Lemma ex_game_facts :
  let ms := fst ex_game in let bs := snd ex_game in
  let boards := ex_start :: bs in
  MakeProofs.pos_inv gen_tables ex_start /\ RepetitionProofs.legal_line gen_tables ex_start ms bs /\
  no_collision gen_tables boards /\
  length ms = 8%nat /\ half ex_start = 0 /\ half (last bs ex_start) = 8 /\
  irrev_flags (abs ex_start) (map uci_of ms) = [false; false; false; false; false; false; false; false] /\
  (* at the end: the start position for the third time *)
  earlier_equal_positions (map rep_key_of boards) 8 = 2 /\ threefold_positions (map rep_key_of boards) 8 /\
  (* one move earlier (clock 7): the position after 1.Nf3 Nf6 2.Ng1 has occurred twice only *)
  half (last (removelast bs) ex_start) = 7 /\
  earlier_equal_positions (map rep_key_of (removelast boards)) 7 = 1 /\
  ~ threefold_positions (map rep_key_of (removelast boards)) 7 /\
  (* and the engine's counter on the recorded game agrees *)
  3 <= count_repetitions_u32 (record_from hempty 0 (map (zobrist_hash gen_tables) boards))
                             (0 + lenN (map (zobrist_hash gen_tables) boards) - 1) 8 /\
  ~ 3 <= count_repetitions_u32 (record_from hempty 0 (map (zobrist_hash gen_tables) (removelast boards)))
                               (0 + lenN (map (zobrist_hash gen_tables) (removelast boards)) - 1) 7.
Proof.
  cbv zeta.
  assert (Eg : play_picks gen_tables ex_start ex_picks = Some ex_game) by (vm_compute; reflexivity).
  destruct ex_game as [ms bs] eqn:Egame. cbn [fst snd].
  pose proof (play_picks_legal gen_tables ex_picks ex_start ms bs Eg) as LL.
  assert (E : (ms, bs) = ex_game) by (symmetry; exact Egame).
  assert (Ems : ms = fst ex_game) by (rewrite <- E; reflexivity).
  assert (Ebs : bs = snd ex_game) by (rewrite <- E; reflexivity).
  split; [repeat split; vm_compute; reflexivity|]. split; [exact LL|].
  split; [apply no_collisionb_sound; rewrite Ebs; vm_compute; reflexivity|].
  rewrite Ems, Ebs.
  split; [vm_compute; reflexivity|]. split; [vm_compute; reflexivity|]. split; [vm_compute; reflexivity|].
  split; [vm_compute; reflexivity|]. split; [vm_compute; reflexivity|].
  split; [unfold threefold_positions; vm_compute; discriminate|].
  split; [vm_compute; reflexivity|]. split; [vm_compute; reflexivity|].
  split; [unfold threefold_positions; vm_compute; intros H; now apply H|].
  split; [vm_compute; discriminate|]. vm_compute. intros H; now apply H.
Qed.

(* ================================================================================================ *)
(* 4. threefold_positions read without takeP/countP: [nth_error (rev ks) k] is the position k plies     *)
(*    before the current one; it says the current position also stood k1 and k2 plies back,           *)
(*    0 < k1 < k2 <= hm                                                                               *)
(* ================================================================================================ *)
Lemma countP_ge1 {A} (f : A -> bool) : forall l, 1 <= countP f l <-> exists d x, nth_error l d = Some x /\ f x = true.
Proof.
  induction l as [|y r IH]; cbn [countP].
  - split; [lia|]. intros (d & x & H & _). destruct d; discriminate.
  - destruct (f y) eqn:Ey.
    + split; [intros _; exists 0%nat, y; auto|lia].
    + rewrite N.add_0_l, IH. split.
      * intros (d & x & H & Hx). exists (S d), x. auto.
      * intros (d & x & H & Hx). destruct d as [|d]; [injection H as <-; congruence|]. exists d, x. auto.
Qed.

Lemma countP_ge2 {A} (f : A -> bool) : forall l, 2 <= countP f l <->
  exists d1 d2 x1 x2, (d1 < d2)%nat /\ nth_error l d1 = Some x1 /\ f x1 = true /\ nth_error l d2 = Some x2 /\ f x2 = true.
Proof.
  induction l as [|y r IH]; cbn [countP].
  - split; [lia|]. intros (d1 & d2 & x1 & x2 & _ & H & _). destruct d1; discriminate.
  - destruct (f y) eqn:Ey.
    + assert (E : 2 <= 1 + countP f r <-> 1 <= countP f r) by lia. rewrite E, countP_ge1. split.
      * intros (d & x & H & Hx). exists 0%nat, (S d), y, x. repeat split; auto. lia.
      * intros (d1 & d2 & x1 & x2 & Hlt & _ & _ & H2 & Hx2). destruct d2 as [|d2]; [lia|]. exists d2, x2. auto.
    + rewrite N.add_0_l, IH. split.
      * intros (d1 & d2 & x1 & x2 & Hlt & H1 & Hx1 & H2 & Hx2). exists (S d1), (S d2), x1, x2. repeat split; auto. lia.
      * intros (d1 & d2 & x1 & x2 & Hlt & H1 & Hx1 & H2 & Hx2).
        destruct d1 as [|d1]; [injection H1 as <-; congruence|]. destruct d2 as [|d2]; [lia|].
        exists d1, d2, x1, x2. repeat split; auto. lia.
Qed.

Lemma nth_error_takeP {A} : forall (l : list A) n d x,
  nth_error (takeP n l) d = Some x <-> N.of_nat d < n /\ nth_error l d = Some x.
Proof.
  induction l as [|y r IH]; intros n d x; cbn [takeP].
  - split; [destruct d; discriminate|intros [_ H]; destruct d; discriminate].
  - destruct (N.eqb_spec n 0) as [->|Hn].
    + split; [destruct d; discriminate|lia].
    + destruct d as [|d]; cbn [nth_error]; [split; [intros H; split; [lia|exact H]|tauto]|].
      rewrite IH. split; intros [H1 H2]; (split; [lia|exact H2]).
Qed.

Theorem threefold_positions_iff ks hm : threefold_positions ks hm <->
  exists cur k1 k2, (0 < k1 < k2)%nat /\ N.of_nat k2 <= hm /\
    nth_error (rev ks) 0 = Some cur /\ nth_error (rev ks) k1 = Some cur /\ nth_error (rev ks) k2 = Some cur.
Proof.
  unfold threefold_positions, earlier_equal_positions. destruct (rev ks) as [|cur prevs].
  - split; [lia|]. intros (cur & k1 & k2 & _ & _ & H & _). discriminate.
  - rewrite countP_ge2. split.
    + intros (d1 & d2 & x1 & x2 & Hlt & H1 & Hx1 & H2 & Hx2).
      apply rep_key_eqb_spec in Hx1, Hx2. subst x1 x2. apply nth_error_takeP in H1 as [L1 H1], H2 as [L2 H2].
      exists cur, (S d1), (S d2). cbn [nth_error]. repeat split; auto; lia.
    + intros (c & k1 & k2 & [L0 Hlt] & Hhm & H0 & H1 & H2). cbn [nth_error] in H0. injection H0 as <-.
      destruct k1 as [|d1]; [lia|]. destruct k2 as [|d2]; [lia|]. cbn [nth_error] in H1, H2.
      exists d1, d2, cur, cur. repeat split; try (apply nth_error_takeP; split; [lia|assumption]);
        try (now apply rep_key_eqb_spec); lia.
Qed.

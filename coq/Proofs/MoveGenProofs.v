(* C01: the bitboard move generator of the model (Model/Board.v: gen_pseudo, gen_nonquiet, gen_legal) produces
   exactly the moves of the rules (Spec/Rules.v: pseudo_moves, capture_or_promotion, legal_moves) on the abstraction
   Proofs/Abs.v (abs : board -> pos, uci_of : move -> mv).

   Side conditions
   - on the tables: `tables_attacks_ok T` (the C04 sweep: lookups = geometric attack sets) and `tables_movegen_ok T`
     (the four rank masks RANK_1/2/7/8 and the eight castling EMPTY/CHECK masks are the real ones; it implies
     LayoutProofs.tables_geom_ok and MakeUnmake.tables_castle_ok); both are booleans, discharged for Gen/Tables.v
     by Gen/SweepAll.tables_ok and by vm_compute (gen_tables_movegen_ok below);
   - on the board: `wf b`, `rights_wf b` (a held right implies king and rook at home), `ep_bits_ok b` (the e.p.
     square is NO_SQUARE, or it is empty, on the 6th rank of the mover, with an enemy pawn right behind it).
     `legal_pos_conditions`: all of them but wf follow from `Rules.legal_pos (abs b) = true`.
   - the legality filter additionally uses the make/apply commutation (property C02, proved by a sibling file) as
     the explicit Section hypothesis `Hmake`.

   Structure: 1 list toolkit; 2 side conditions; 3 model side: the UCI triples of each generator component
   (map uci_of (component) = explicit list, `u_common`); 4 spec side per piece kind (ordinary moves via the attack
   bitboards of Spec/Attacks.v, pawn pushes as LIST equality, pawn captures/e.p., castling); 5 C01_pseudo_members;
   6 NoDup_pseudo (bits_of is duplicate free, bitboards disjoint, orthogonal/diagonal rays disjoint, captures
   change the file and pushes do not, a king step is never a castling move, four distinct promotion pieces);
   7 nonquiet_filter (list equality), noisy_spec, castle_quiet; 8 legality filter under Hmake; 9 legal_pos ->
   rights_wf and ep_bits_ok; 10 the C01 statements; 11 the tables of the current tree.
   Main results: C01_pseudo_exact, C01_nonquiet_exact, C01_nonquiet_members, C01_filter_path, C01_legal_exact,
   C01_terminal, legal_pos_conditions, gen_tables_movegen_ok. *)
Require Import Ink.Lib.Str.
Require Import NArith ZArith List Bool Lia Arith.
Require Import ZifyBool.
Import ListNotations.
Require Import Ink.Lib.Bits Ink.Model.Tables Ink.Model.Board Ink.Spec.Attacks Ink.Spec.Rules.
Require Import Ink.Proofs.Abs Ink.Proofs.AttackProofs Ink.Proofs.AbsProofs Ink.Proofs.CheckProofs.
Require Import Ink.Proofs.BitFacts Ink.Proofs.GenShape Ink.Proofs.LayoutProofs Ink.Proofs.MakeUnmake.
Open Scope N_scope.

Arguments N.add : simpl never.
Arguments N.sub : simpl never.
Arguments N.mul : simpl never.
Arguments N.div : simpl never.
Arguments N.modulo : simpl never.
Arguments N.eqb : simpl never.
Arguments N.ltb : simpl never.
Arguments N.leb : simpl never.
Arguments Z.add : simpl never.
Arguments Z.mul : simpl never.
Arguments Z.sub : simpl never.
Arguments Z.opp : simpl never.
Arguments Z.div : simpl never.
Arguments Z.modulo : simpl never.
Arguments N.shiftl : simpl never.
Arguments N.shiftr : simpl never.
Arguments N.testbit : simpl never.
Arguments N.pow : simpl never.
Arguments N.land : simpl never.
Arguments N.lor : simpl never.
Arguments N.ldiff : simpl never.
Arguments N.ones : simpl never.

(* ================================================================== *)
(* 1. list toolkit                                                     *)
(* ================================================================== *)

Lemma map_flat_map {A B C} (g : B -> C) (f : A -> list B) l :
  map g (flat_map f l) = flat_map (fun x => map g (f x)) l.
Proof. induction l as [|x r IH]; cbn [flat_map map]; [reflexivity|]. now rewrite map_app, IH. Qed.

Lemma filter_flat_map {A B} (p : B -> bool) (f : A -> list B) l :
  filter p (flat_map f l) = flat_map (fun x => filter p (f x)) l.
Proof. induction l as [|x r IH]; cbn [flat_map filter]; [reflexivity|]. now rewrite filter_app, IH. Qed.

Lemma flat_map_ext_in {A B} (f g : A -> list B) l : (forall x, In x l -> f x = g x) -> flat_map f l = flat_map g l.
Proof.
  induction l as [|x r IH]; intros H; cbn [flat_map]; [reflexivity|].
  rewrite (H x (or_introl eq_refl)), IH; [reflexivity|]. intros y Hy. apply H. now right.
Qed.

Lemma NoDup_app_intro {A} (l1 l2 : list A) :
  NoDup l1 -> NoDup l2 -> (forall x, In x l1 -> In x l2 -> False) -> NoDup (l1 ++ l2).
Proof.
  induction l1 as [|a r IH]; intros H1 H2 Hd; cbn [app]; [assumption|].
  apply NoDup_cons_iff in H1 as [Ha Hr]. constructor.
  - intros Hin. apply in_app_or in Hin as [Hin|Hin]; [now apply Ha|]. apply (Hd a); [now left|assumption].
  - apply IH; try assumption. intros x Hx. apply Hd. now right.
Qed.

Lemma NoDup_flat_map_intro {A B} (f : A -> list B) l :
  NoDup l -> (forall x, In x l -> NoDup (f x)) ->
  (forall x y z, In x l -> In y l -> In z (f x) -> In z (f y) -> x = y) -> NoDup (flat_map f l).
Proof.
  induction l as [|a r IH]; intros Hl Hf Hd; cbn [flat_map]; [constructor|].
  apply NoDup_cons_iff in Hl as [Ha Hr]. apply NoDup_app_intro.
  - apply Hf. now left.
  - apply IH; [assumption| |].
    + intros x Hx. apply Hf. now right.
    + intros x y z Hx Hy. apply Hd; now right.
  - intros z Hz Hz'. apply in_flat_map in Hz' as (y & Hy & Hzy).
    assert (a = y) by (apply (Hd a y z); [now left|now right|assumption|assumption]). subst y. now apply Ha.
Qed.

Lemma NoDup_map_intro {A B} (f : A -> B) l :
  (forall x y, In x l -> In y l -> f x = f y -> x = y) -> NoDup l -> NoDup (map f l).
Proof.
  induction l as [|a r IH]; intros Hi Hl; cbn [map]; [constructor|].
  apply NoDup_cons_iff in Hl as [Ha Hr]. constructor.
  - intros Hin. apply in_map_iff in Hin as (y & E & Hy).
    assert (y = a) by (apply Hi; [now right|now left|assumption]). subst y. now apply Ha.
  - apply IH; [|assumption]. intros x y Hx Hy. apply Hi; now right.
Qed.

Lemma NoDup_map_filter {A B} (g : A -> B) (p : A -> bool) l : NoDup (map g l) -> NoDup (map g (filter p l)).
Proof.
  induction l as [|a r IH]; cbn [map filter]; intros H; [constructor|].
  apply NoDup_cons_iff in H as [Ha Hr]. destruct (p a); cbn [map]; [|now apply IH].
  constructor; [|now apply IH]. intros Hin. apply Ha. apply in_map_iff in Hin as (y & E & Hy).
  apply filter_In in Hy as [Hy _]. apply in_map_iff. now exists y.
Qed.

Lemma nil_iff_no_member {A} (l : list A) : l = [] <-> forall x, ~ In x l.
Proof.
  split; [intros -> x []|]. destruct l as [|a r]; [reflexivity|]. intros H. exfalso. apply (H a). now left.
Qed.

(* ================================================================== *)
(* 2. side conditions                                                  *)
(* ================================================================== *)

(* the rank masks and the castling masks are the real ones *)
Definition tables_movegen_ok (T : Tables.t) : bool :=
  (RANK_1 T =? 18374686479671623680) && (RANK_2 T =? 71776119061217280) &&
  (RANK_7 T =? 65280) && (RANK_8 T =? 255) &&
  (wq_empty T =? 1008806316530991104) && (wk_empty T =? 6917529027641081856) &&
  (bq_empty T =? 14) && (bk_empty T =? 96) &&
  (wq_check T =? 2017612633061982208) && (wk_check T =? 8070450532247928832) &&
  (bq_check T =? 28) && (bk_check T =? 112).

Lemma tables_movegen_elim T : tables_movegen_ok T = true ->
  RANK_1 T = 18374686479671623680 /\ RANK_2 T = 71776119061217280 /\ RANK_7 T = 65280 /\ RANK_8 T = 255 /\
  wq_empty T = 1008806316530991104 /\ wk_empty T = 6917529027641081856 /\ bq_empty T = 14 /\ bk_empty T = 96 /\
  wq_check T = 2017612633061982208 /\ wk_check T = 8070450532247928832 /\ bq_check T = 28 /\ bk_check T = 112.
Proof.
  unfold tables_movegen_ok. rewrite !andb_true_iff, !N.eqb_eq. tauto.
Qed.

Lemma tables_movegen_geom T : tables_movegen_ok T = true -> tables_geom_ok T = true.
Proof.
  intros H. apply tables_movegen_elim in H. destruct H as (_ & H2 & H7 & _).
  unfold tables_geom_ok. rewrite H2, H7. reflexivity.
Qed.

Lemma tables_movegen_castle T : tables_movegen_ok T = true -> tables_castle_ok T = true.
Proof.
  intros H. apply tables_movegen_elim in H. destruct H as (_ & _ & _ & _ & E1 & E2 & E3 & E4 & _).
  unfold tables_castle_ok. rewrite E1, E2, E3, E4. reflexivity.
Qed.

(* e.p. state on the bitboards: NO_SQUARE, or an empty square on the mover's 6th rank with an enemy pawn behind it *)
Definition ep_bits_ok (b : board) : bool :=
  (ep b =? 0) ||
  (negb (N.testbit (N.lor (full_occ (white b)) (full_occ (black b))) (ep b)) &&
   (if turn b =? WHITE
    then (16 <=? ep b) && (ep b <? 24) && N.testbit (pawns (black b)) (ep b + 8)
    else (40 <=? ep b) && (ep b <? 48) && N.testbit (pawns (white b)) (ep b - 8))).

(* ---------- mover / active / passive ---------- *)
Definition mover (b : board) : color := col_of (turn b).

Lemma mover_abs b : to_move (abs b) = mover b.
Proof. reflexivity. Qed.

Lemma wt_mover b : is_white_turn b = color_eqb (mover b) White.
Proof. unfold is_white_turn, mover, col_of, WHITE. now destruct (turn b =? 0). Qed.

Lemma active_pside b : active b = pside b (mover b).
Proof. unfold active. rewrite wt_mover. now destruct (mover b). Qed.

Lemma passive_pside b : passive b = pside b (opp (mover b)).
Proof. unfold passive. rewrite wt_mover. now destruct (mover b). Qed.

Lemma all_occ_total b : N.lor (full_occ (active b)) (full_occ (passive b)) = total_occ b.
Proof. apply total_occ_active_passive. Qed.

(* own and enemy exclude each other *)
Lemma own_enemy_excl p c s : own p c s = true -> enemy p c s = false.
Proof. unfold own, enemy. destruct (get p s) as [[c' k]|]; [|discriminate]. now intros ->. Qed.

Lemma empty_own_enemy p c s : empty p s = negb (own p c s || enemy p c s).
Proof. unfold empty, own, enemy. destruct (get p s) as [[c' k]|]; [|reflexivity]. now destruct (color_eqb c c'). Qed.

(* ---------- concrete masks ---------- *)
Lemma testbit_byte k t : N.testbit (N.shiftl (N.ones 8) k) t = (k <=? t) && (t <? k + 8).
Proof.
  destruct (N.leb_spec k t) as [H|H]; cbn [andb].
  - rewrite N.shiftl_spec_high by lia. destruct (N.ltb_spec t (k + 8)) as [H'|H'].
    + apply N.ones_spec_low. lia.
    + apply N.ones_spec_high. lia.
  - now rewrite N.shiftl_spec_low.
Qed.

Lemma testbit_rank8 t : N.testbit 255 t = (t <? 8).
Proof. change 255 with (N.shiftl (N.ones 8) 0). rewrite testbit_byte. now destruct (N.leb_spec 0 t); [|lia]. Qed.
Lemma testbit_rank7 t : N.testbit 65280 t = (8 <=? t) && (t <? 16).
Proof. change 65280 with (N.shiftl (N.ones 8) 8). apply testbit_byte. Qed.
Lemma testbit_rank2 t : N.testbit 71776119061217280 t = (48 <=? t) && (t <? 56).
Proof. change 71776119061217280 with (N.shiftl (N.ones 8) 48). apply testbit_byte. Qed.
Lemma testbit_rank1 t : N.testbit 18374686479671623680 t = (56 <=? t) && (t <? 64).
Proof. change 18374686479671623680 with (N.shiftl (N.ones 8) 56). apply testbit_byte. Qed.

Lemma nz_land_bit_l x sq : nz (N.land (bit sq) x) = N.testbit x sq.
Proof. rewrite N.land_comm. apply nz_land_bit. Qed.

(* a mask test is a test of its squares *)
Lemma nz_land_bits x m : nz (N.land x m) = existsb (fun i => N.testbit x i) (bits_of m).
Proof.
  apply eq_iff_eq_true. rewrite nz_land_exists, existsb_exists. split.
  - intros (s & H1 & H2). exists s. split; [now apply bits_of_spec|assumption].
  - intros (s & H1 & H2). exists s. split; [assumption|now apply bits_of_spec].
Qed.

(* ================================================================== *)
(* 3. model side: the UCI triples of each generator component          *)
(* ================================================================== *)

Definition tri (s t pr : N) : mv := {| from := Z.of_N s; to := Z.of_N t; prom := kind_of pr |}.
Definition promos (s t : N) : list mv :=
  map (fun k => {| from := Z.of_N s; to := Z.of_N t; prom := Some k |}) promo_kinds.
(* the ordinary moves of one piece: one per set bit of its target set *)
Definition std_from (s att : N) : list mv := map (fun t => tri s t 0) (bits_of att).

Lemma std_from_iff s att u : In u (std_from s att) <-> exists t, N.testbit att t = true /\ u = tri s t 0.
Proof.
  unfold std_from. rewrite in_map_iff. split.
  - intros (t & <- & Ht). exists t. split; [now apply bits_of_spec|reflexivity].
  - intros (t & Ht & ->). exists t. split; [reflexivity|now apply bits_of_spec].
Qed.

Lemma promos_iff s t u : In u (promos s t) <->
  exists k, In k promo_kinds /\ u = {| from := Z.of_N s; to := Z.of_N t; prom := Some k |}.
Proof.
  unfold promos. rewrite in_map_iff. split; intros (k & H1 & H2); exists k; [split; [assumption|now symmetry]|].
  split; [now symmetry|assumption].
Qed.

(* pawn targets, as square numbers *)
Definition fwd1 (wt : bool) (s : N) : N := if wt then s - 8 else s + 8.
Definition fwd2 (wt : bool) (s : N) : N := if wt then s - 16 else s + 16.
Definition last_rank (wt : bool) (t : N) : bool := if wt then t <? 8 else 56 <=? t.
Definition home_rank (wt : bool) (s : N) : bool := if wt then 48 <=? s else s <? 16.
Definition edge_rank (t : N) : bool := (t <? 8) || ((56 <=? t) && (t <? 64)).

Definition u_push (wt : bool) (fo s : N) : list mv :=
  if N.testbit fo (fwd1 wt s) then []
  else if last_rank wt (fwd1 wt s) then promos s (fwd1 wt s)
  else tri s (fwd1 wt s) 0 ::
       (if home_rank wt s && negb (N.testbit fo (fwd2 wt s)) then [tri s (fwd2 wt s) 0] else []).

Definition u_caps (att s : N) : list mv :=
  flat_map (fun t => if edge_rank t then promos s t else [tri s t 0]) (bits_of att).

Lemma single_push_bit (wt : bool) s : 8 <= s < 56 ->
  (if wt then N.shiftr (bit s) 8 else w64 (N.shiftl (bit s) 8)) = bit (fwd1 wt s).
Proof.
  intros H. unfold fwd1. destruct wt.
  - rewrite bit_shiftr8. now destruct (N.leb_spec 8 s); [|lia].
  - rewrite bit_shiftl8. now destruct (N.ltb_spec (s + 8) 64); [|lia].
Qed.

Lemma double_push_bit (wt : bool) s : 8 <= s < 56 -> home_rank wt s = true ->
  (if wt then N.shiftr (bit (fwd1 wt s)) 8 else w64 (N.shiftl (bit (fwd1 wt s)) 8)) = bit (fwd2 wt s).
Proof.
  intros H Hh. unfold fwd1, fwd2, home_rank in *. destruct wt.
  - rewrite bit_shiftr8. destruct (N.leb_spec 8 (s - 8)); [f_equal; lia|lia].
  - rewrite bit_shiftl8. destruct (N.ltb_spec (s + 8 + 8) 64); [f_equal; lia|lia].
Qed.

Section Gen.
Variable T : Tables.t.
Hypothesis OK : tables_attacks_ok T = true.
Hypothesis MK : tables_movegen_ok T = true.

Lemma uci_of_mk b s t pc ic ie pr epo : uci_of (mk T b s t pc ic ie pr epo) = tri s t pr.
Proof. reflexivity. Qed.

Lemma map_uci_make_move b s t pc ic ie pr epo :
  map uci_of (make_move T b false s t pc ic ie pr epo) = [tri s t pr].
Proof. rewrite make_move_false. reflexivity. Qed.

Lemma map_uci_gen_attacks b s att pc : map uci_of (gen_attacks T b false s att pc) = std_from s att.
Proof.
  unfold gen_attacks, std_from. rewrite map_flat_map.
  induction (bits_of att) as [|t r IH]; cbn [flat_map map]; [reflexivity|].
  now rewrite map_uci_make_move, IH.
Qed.

Lemma map_uci_sliding b pocc ao fo lookup pc :
  map uci_of (sliding_moves T b false pocc ao fo lookup pc) =
  flat_map (fun s => std_from s (clear (lookup s fo) ao)) (bits_of pocc).
Proof.
  unfold sliding_moves. rewrite map_flat_map. apply flat_map_ext. intros s. apply map_uci_gen_attacks.
Qed.

Lemma map_uci_single b pocc ao tbl pc :
  map uci_of (single_moves T b false pocc ao tbl pc) =
  flat_map (fun s => std_from s (clear (leaper tbl s) ao)) (bits_of pocc).
Proof.
  unfold single_moves. rewrite map_flat_map. apply flat_map_ext. intros s. apply map_uci_gen_attacks.
Qed.

Lemma map_uci_promotions b s t : map uci_of (pawn_promotions T b s t) = promos s t.
Proof. unfold pawn_promotions. rewrite !map_app, !map_uci_make_move. reflexivity. Qed.

Lemma rank_masks_eq :
  RANK_1 T = 18374686479671623680 /\ RANK_2 T = 71776119061217280 /\ RANK_7 T = 65280 /\ RANK_8 T = 255.
Proof. destruct (tables_movegen_elim T MK) as (H1 & H2 & H7 & H8 & _). auto. Qed.

Lemma edge_rank_model t :
  nz (N.land (bit t) (RANK_8 T)) || nz (N.land (bit t) (RANK_1 T)) = edge_rank t.
Proof.
  destruct rank_masks_eq as (H1 & _ & _ & H8). rewrite H1, H8, !nz_land_bit_l, testbit_rank8, testbit_rank1.
  reflexivity.
Qed.

Lemma map_uci_gen_pawn_attacks b att s : map uci_of (gen_pawn_attacks T b att s) = u_caps att s.
Proof.
  unfold gen_pawn_attacks, u_caps. rewrite map_flat_map. apply flat_map_ext. intros t. cbv zeta.
  rewrite edge_rank_model. destruct (edge_rank t); [apply map_uci_promotions|apply map_uci_make_move].
Qed.

(* the capture target set of one pawn, exactly as pawn_attacks computes it *)
Definition cap_set (b : board) (ao po s : N) : N :=
  let tbl := if is_white_turn b then wpawn_tbl T else bpawn_tbl T in
  let ep_bit := clear (bit (ep b)) (N.lor (RANK_1 T) (RANK_8 T)) in
  clear (N.land (leaper tbl s) (N.lor po ep_bit)) ao.

Lemma map_uci_pawn_attacks b pocc ao po :
  map uci_of (pawn_attacks T b pocc ao po) = flat_map (fun s => u_caps (cap_set b ao po s) s) (bits_of pocc).
Proof.
  unfold pawn_attacks. cbv zeta. rewrite map_flat_map. apply flat_map_ext. intros s. apply map_uci_gen_pawn_attacks.
Qed.

Lemma map_uci_pawn_moves b pocc fo : (forall s, N.testbit pocc s = true -> 8 <= s < 56) ->
  map uci_of (pawn_moves T b false pocc fo) = flat_map (u_push (is_white_turn b) fo) (bits_of pocc).
Proof.
  intros Hr. unfold pawn_moves. cbv zeta. rewrite map_flat_map. apply flat_map_ext_in. intros s Hs.
  apply bits_of_spec in Hs. apply Hr in Hs. destruct rank_masks_eq as (H1 & H2 & H7 & H8).
  rewrite (single_push_bit (is_white_turn b) s Hs). rewrite !nz_land_bit_l, ctz64_bit. unfold u_push.
  destruct (N.testbit fo (fwd1 (is_white_turn b) s)); [reflexivity|].
  assert (E : N.testbit (if is_white_turn b then RANK_8 T else RANK_1 T) (fwd1 (is_white_turn b) s) =
              last_rank (is_white_turn b) (fwd1 (is_white_turn b) s)).
  { unfold last_rank, fwd1. destruct (is_white_turn b).
    - now rewrite H8, testbit_rank8.
    - rewrite H1, testbit_rank1. destruct (N.ltb_spec (s + 8) 64); [apply andb_true_r|lia]. }
  rewrite E. destruct (last_rank (is_white_turn b) (fwd1 (is_white_turn b) s)); [apply map_uci_promotions|].
  rewrite map_app, map_uci_make_move. cbn [app]. f_equal.
  assert (E2 : N.testbit (if is_white_turn b then RANK_2 T else RANK_7 T) s = home_rank (is_white_turn b) s).
  { unfold home_rank. destruct (is_white_turn b).
    - rewrite H2, testbit_rank2. destruct (N.ltb_spec s 56); [apply andb_true_r|lia].
    - rewrite H7, testbit_rank7. destruct (N.leb_spec 8 s); [reflexivity|lia]. }
  rewrite E2. destruct (home_rank (is_white_turn b) s) eqn:Eh; [|reflexivity]. cbn [andb].
  rewrite (double_push_bit _ s Hs Eh), nz_land_bit_l, ctz64_bit.
  destruct (N.testbit fo (fwd2 (is_white_turn b) s)); cbn [negb]; [reflexivity|apply map_uci_make_move].
Qed.

End Gen.

(* ================================================================== *)
(* 4. spec side                                                        *)
(* ================================================================== *)

(* ---------- which squares carry the movers ---------- *)
Lemma pseudo_moves_abs_iff b u : wf b = true ->
  (In u (pseudo_moves (abs b)) <->
   exists s k, s < 64 /\ N.testbit (bb_of b (mover b) k) s = true /\
               In u (piece_moves (abs b) (Z.of_N s) (mover b, k))).
Proof.
  intros Hwf. unfold pseudo_moves. rewrite in_flat_map. rewrite mover_abs. split.
  - intros (z & Hz & H). apply in_squares in Hz. rewrite get_abs_Z in H by assumption.
    destruct (cell_of b (Z.to_N z)) as [[c k]|] eqn:E; [|destruct H]. cbn [fst] in H.
    destruct (color_eqb c (mover b)) eqn:Ec; [|destruct H]. apply color_eqb_eq in Ec. subst c.
    exists (Z.to_N z), k. split; [lia|]. split; [now apply cell_of_some_bit|]. now rewrite Z2N.id by lia.
  - intros (s & k & Hs & Hb & H). exists (Z.of_N s). split; [now apply in_squares_N|].
    rewrite get_abs by assumption. rewrite (proj2 (cell_of_iff b s (mover b) k Hwf) Hb). cbn [fst].
    now rewrite color_eqb_refl.
Qed.

(* ---------- attack sets as bitboards (Spec/Attacks.v) ---------- *)
Definition att_bb (b : board) (c : color) (k : kind) (s : N) : N :=
  match k with
  | Pawn => step_attacks (pawn_dirs c) s
  | Knight => step_attacks KNIGHT_DIRS s
  | King => step_attacks KING_DIRS s
  | Bishop => ray_attacks DIAG s (total_occ b)
  | Rook => ray_attacks ORTH s (total_occ b)
  | Queen => N.lor (ray_attacks ORTH s (total_occ b)) (ray_attacks DIAG s (total_occ b))
  end.

Lemma pawn_dirs_steps c : pawn_dirs c = pawn_steps c.
Proof. now destruct c. Qed.

Lemma attacked_from_bb b c k s t :
  In (Z.of_N t) (attacked_from (abs b) (Z.of_N s) (c, k)) <-> N.testbit (att_bb b c k s) t = true.
Proof.
  pose proof (total_occ_matches b) as Hocc. unfold attacked_from, att_bb. cbn [fst snd]. destruct k.
  - rewrite pawn_dirs_steps. apply step_bridge.
  - apply step_bridge.
  - now apply slides_ray_attacks.
  - now apply slides_ray_attacks.
  - rewrite flat_map_app, in_app_iff, N.lor_spec, orb_true_iff.
    rewrite (slides_ray_attacks (abs b) (total_occ b) orth s t Hocc).
    rewrite (slides_ray_attacks (abs b) (total_occ b) diag s t Hocc). reflexivity.
  - apply step_bridge.
Qed.

Lemma att_bb_lt64 b c k s t : s < 64 -> N.testbit (att_bb b c k s) t = true -> t < 64.
Proof.
  intros Hs. unfold att_bb. destruct k; try apply step_attacks_lt64; try (apply ray_attacks_lt64; assumption).
  rewrite N.lor_spec, orb_true_iff. intros [H|H]; eapply ray_attacks_lt64; eassumption.
Qed.

(* the ordinary moves of a piece in the rules: attacked squares that do not carry an own piece *)
Definition spec_std (p : pos) (c : color) (k : kind) (s : Z) : list mv :=
  map (fun t => {| from := s; to := t; prom := None |}) (filter (fun t => negb (own p c t)) (attacked_from p s (c, k))).

Lemma spec_std_iff b c k s u : wf b = true -> s < 64 ->
  (In u (spec_std (abs b) c k (Z.of_N s)) <-> In u (std_from s (clear (att_bb b c k s) (full_occ (pside b c))))).
Proof.
  intros Hwf Hs. unfold spec_std. rewrite std_from_iff, in_map_iff. split.
  - intros (z & <- & Hz). apply filter_In in Hz as [Hz Ho].
    pose proof (attacked_from_on_board _ _ _ _ Hz) as Hb.
    rewrite <- (Z2N.id z) in Hz, Ho by lia. apply attacked_from_bb in Hz.
    exists (Z.to_N z). split.
    + rewrite clear_testbit, Hz, full_occ_own by (assumption || lia). exact Ho.
    + unfold tri. cbn [kind_of]. now rewrite Z2N.id by lia.
  - intros (t & Ht & ->). rewrite clear_testbit in Ht. apply andb_true_iff in Ht as [Ha Ho].
    pose proof (att_bb_lt64 _ _ _ _ _ Hs Ha) as Ht. exists (Z.of_N t). split; [reflexivity|].
    apply filter_In. split; [now apply attacked_from_bb|]. now rewrite <- full_occ_own.
Qed.

(* ---------- Z coordinates of a square number ---------- *)
Lemma rowZ_range z k : (0 <= z)%Z -> (rowZ z = k <-> 8 * k <= z < 8 * k + 8)%Z.
Proof.
  intros Hz. unfold rowZ. pose proof (Z.div_mod z 8). pose proof (Z.mod_pos_bound z 8). lia.
Qed.

Lemma sq_of_shift z d : sq_of (fileZ z) (rowZ z + d) = (z + 8 * d)%Z.
Proof. pose proof (sq_of_file_row z) as H. unfold sq_of in *. lia. Qed.

Lemma fileZ_shift z d : fileZ (z + 8 * d) = fileZ z.
Proof. unfold fileZ. rewrite Z.mul_comm. apply Z.mod_add. lia. Qed.

(* ---------- pawns ---------- *)
Definition spec_push (p : pos) (c : color) (s : Z) : list mv :=
  let f := fileZ s in let r := rowZ s in
  let r1 := (r + forward c)%Z in
  if on_board f r1 && empty p (sq_of f r1) then
    pawn_to c s (sq_of f r1) ++
    (if (r =? start_row c)%Z && empty p (sq_of f (r1 + forward c))
     then [{| from := s; to := sq_of f (r1 + forward c); prom := None |}] else [])
  else [].

Definition spec_caps (p : pos) (c : color) (s : Z) : list mv :=
  flat_map (fun t => if enemy p c t || (match epsq p with Some e => (e =? t)%Z | None => false end)
                     then pawn_to c s t else [])
           (attacked_from p s (c, Pawn)).

Lemma piece_moves_pawn p s c : piece_moves p s (c, Pawn) = spec_push p c s ++ spec_caps p c s.
Proof. reflexivity. Qed.

Definition wtc (c : color) : bool := color_eqb c White.

Lemma forward_wtc c : forward c = if wtc c then (-1)%Z else 1%Z.
Proof. now destruct c. Qed.

Lemma pawn_to_model c s t : t < 64 ->
  pawn_to c (Z.of_N s) (Z.of_N t) =
  if (if wtc c then t <? 8 else 56 <=? t) then promos s t else [tri s t 0].
Proof.
  intros Ht. unfold pawn_to.
  assert (E : (rowZ (Z.of_N t) =? last_row c)%Z = if wtc c then t <? 8 else 56 <=? t).
  { apply eq_iff_eq_true. rewrite Z.eqb_eq, rowZ_range by lia. destruct c; cbn [wtc color_eqb last_row]; lia. }
  rewrite E. reflexivity.
Qed.

Lemma spec_push_model b s : wf b = true -> N.testbit (bb_of b (mover b) Pawn) s = true ->
  spec_push (abs b) (mover b) (Z.of_N s) = u_push (is_white_turn b) (total_occ b) s.
Proof.
  intros Hwf Hs. rewrite wt_mover. fold (wtc (mover b)).
  assert (Hr : 8 <= s < 56).
  { apply (pawn_square_range b s Hwf). rewrite active_pside. exact Hs. }
  set (c := mover b). unfold spec_push, u_push. cbv zeta.
  set (z := Z.of_N s). assert (Hz : (8 <= z < 56)%Z) by (unfold z; lia).
  assert (Hrow : (1 <= rowZ z <= 6)%Z).
  { pose proof (proj1 (rowZ_range z (rowZ z) ltac:(lia)) eq_refl). lia. }
  assert (E1 : sq_of (fileZ z) (rowZ z + forward c) = Z.of_N (fwd1 (wtc c) s)).
  { rewrite sq_of_shift, forward_wtc. unfold fwd1, z. destruct (wtc c); lia. }
  assert (Hb : on_board (fileZ z) (rowZ z + forward c) = true).
  { apply on_board_iff. pose proof (file_bounds z). rewrite forward_wtc. destruct (wtc c); lia. }
  assert (Ht1 : fwd1 (wtc c) s < 64) by (unfold fwd1; destruct (wtc c); lia).
  rewrite Hb, E1. cbn [andb]. rewrite (total_occ_empty b _ Ht1).
  destruct (empty (abs b) (Z.of_N (fwd1 (wtc c) s))); cbn [negb]; [|reflexivity].
  change (pawn_to c z) with (pawn_to c (Z.of_N s)). rewrite (pawn_to_model c s _ Ht1).
  assert (Eh : (rowZ z =? start_row c)%Z = home_rank (wtc c) s).
  { apply eq_iff_eq_true. rewrite Z.eqb_eq, rowZ_range by lia. unfold home_rank, z.
    destruct c; cbn [wtc color_eqb start_row]; lia. }
  rewrite Eh. unfold last_rank.
  destruct (if wtc c then fwd1 (wtc c) s <? 8 else 56 <=? fwd1 (wtc c) s) eqn:El.
  - assert (home_rank (wtc c) s = false).
    { unfold home_rank, fwd1 in *. destruct (wtc c); lia. }
    rewrite H. cbn [andb]. apply app_nil_r.
  - cbn [app]. f_equal. destruct (home_rank (wtc c) s) eqn:Eh'; cbn [andb]; [|reflexivity].
    assert (E2 : sq_of (fileZ z) (rowZ z + forward c + forward c) = Z.of_N (fwd2 (wtc c) s)).
    { rewrite <- Z.add_assoc, sq_of_shift, forward_wtc. unfold fwd2, home_rank, z in *. destruct (wtc c); lia. }
    assert (Ht2 : fwd2 (wtc c) s < 64) by (unfold fwd2, home_rank in *; destruct (wtc c); lia).
    rewrite E2, (total_occ_empty b _ Ht2). destruct (empty (abs b) (Z.of_N (fwd2 (wtc c) s))); reflexivity.
Qed.

(* a pawn attack goes one row forward and one file sideways *)
Lemma pawn_target_geom c s t : N.testbit (step_attacks (pawn_dirs c) s) t = true ->
  rowZ (Z.of_N t) = (rowZ (Z.of_N s) + forward c)%Z /\
  (fileZ (Z.of_N t) = fileZ (Z.of_N s) - 1 \/ fileZ (Z.of_N t) = fileZ (Z.of_N s) + 1)%Z.
Proof.
  intros H. apply step_meaning in H as (d & Hd & H). rewrite pawn_dirs_steps in Hd.
  apply translate_file_row in H as [Hf Hr]. unfold pawn_steps in Hd. cbn [In] in Hd.
  destruct Hd as [<-|[<-|[]]]; cbn [fst snd] in *; split; try assumption; [left|right]; lia.
Qed.

Lemma pawn_to_target c s t : 8 <= s < 56 -> N.testbit (step_attacks (pawn_dirs c) s) t = true ->
  pawn_to c (Z.of_N s) (Z.of_N t) = if edge_rank t then promos s t else [tri s t 0].
Proof.
  intros Hs H. pose proof (step_attacks_lt64 _ _ _ H) as Ht. rewrite (pawn_to_model c s t Ht).
  apply pawn_target_geom in H as [Hr _].
  assert (Hrow : (1 <= rowZ (Z.of_N s) <= 6)%Z).
  { pose proof (proj1 (rowZ_range (Z.of_N s) (rowZ (Z.of_N s)) ltac:(lia)) eq_refl). lia. }
  apply rowZ_range in Hr; [|lia].
  assert (E : (if wtc c then t <? 8 else 56 <=? t) = edge_rank t).
  { unfold edge_rank. rewrite forward_wtc in Hr. destruct (wtc c); lia. }
  now rewrite E.
Qed.

Definition epm (b : board) (t : N) : bool :=
  match epsq (abs b) with Some e => (e =? Z.of_N t)%Z | None => false end.

Lemma epm_eq b t : epm b t = negb (ep b =? 0) && (t =? ep b).
Proof.
  unfold epm, abs. cbn [epsq]. destruct (ep b =? 0); cbn [negb andb]; [reflexivity|]. lia.
Qed.

Lemma ep_bits_ok_elim b : ep_bits_ok b = true -> ep b <> 0 ->
  N.testbit (total_occ b) (ep b) = false /\ 16 <= ep b < 48 /\
  (if is_white_turn b then N.testbit (pawns (black b)) (ep b + 8) = true /\ ep b < 24
   else N.testbit (pawns (white b)) (ep b - 8) = true /\ 40 <= ep b).
Proof.
  unfold ep_bits_ok, is_white_turn, total_occ. intros H Hne.
  destruct (N.eqb_spec (ep b) 0) as [E|_]; [contradiction|]. cbn [orb] in H.
  apply andb_true_iff in H as [H1 H2]. apply negb_true_iff in H1. split; [assumption|].
  destruct (turn b =? WHITE); rewrite !andb_true_iff in H2; destruct H2 as [[A B] C]; split; try lia; split; (assumption || lia).
Qed.

Section GenSpec.
Variable T : Tables.t.
Hypothesis OK : tables_attacks_ok T = true.
Hypothesis MK : tables_movegen_ok T = true.

Lemma pawn_tbl_mover b s : s < 64 ->
  leaper (if is_white_turn b then wpawn_tbl T else bpawn_tbl T) s = step_attacks (pawn_dirs (mover b)) s.
Proof.
  intros Hs. rewrite <- (pawn_table T OK (mover b) s Hs). now rewrite colN_white, wt_mover.
Qed.

Lemma cap_set_spec b s t : wf b = true -> ep_bits_ok b = true -> s < 64 ->
  N.testbit (cap_set T b (full_occ (active b)) (full_occ (passive b)) s) t =
  N.testbit (step_attacks (pawn_dirs (mover b)) s) t && (enemy (abs b) (mover b) (Z.of_N t) || epm b t).
Proof.
  intros Hwf Hep Hs. unfold cap_set. cbv zeta. rewrite (pawn_tbl_mover b s Hs).
  rewrite clear_testbit, N.land_spec, N.lor_spec, clear_testbit, bit_spec, N.lor_spec.
  destruct (N.testbit (step_attacks (pawn_dirs (mover b)) s) t) eqn:Ha; [|reflexivity]. cbn [andb].
  pose proof (step_attacks_lt64 _ _ _ Ha) as Ht.
  rewrite active_pside, passive_pside, (full_occ_enemy b (mover b) t Hwf Ht), (full_occ_own b (mover b) t Hwf Ht).
  destruct (rank_masks_eq T MK) as (H1 & _ & _ & H8). rewrite H1, H8, testbit_rank1, testbit_rank8.
  rewrite epm_eq.
  destruct (N.eqb_spec (ep b) 0) as [E0|Hne]; cbn [negb andb].
  - rewrite E0, orb_false_r. destruct (enemy (abs b) (mover b) (Z.of_N t)) eqn:Ee.
    + cbn [orb andb]. destruct (own (abs b) (mover b) (Z.of_N t)) eqn:Eo; [|reflexivity].
      apply own_enemy_excl in Eo. congruence.
    + cbn [orb]. destruct (N.eqb_spec t 0) as [->|]; reflexivity.
  - destruct (ep_bits_ok_elim b Hep Hne) as (Hfree & Hrange & _).
    destruct (N.eqb_spec t (ep b)) as [->|Hnt].
    + assert (Eo : own (abs b) (mover b) (Z.of_N (ep b)) = false).
      { rewrite (total_occ_empty b (ep b) Ht), (empty_own_enemy _ (mover b)) in Hfree.
        apply negb_false_iff, negb_true_iff, orb_false_iff in Hfree. tauto. }
      rewrite Eo. cbn [negb andb]. rewrite andb_true_r, orb_true_r.
      assert (X : (56 <=? ep b) && (ep b <? 64) || (ep b <? 8) = false) by lia. rewrite X. apply orb_true_r.
    + cbn [andb]. rewrite !orb_false_r. destruct (enemy (abs b) (mover b) (Z.of_N t)) eqn:Ee; [|reflexivity].
      cbn [andb]. destruct (own (abs b) (mover b) (Z.of_N t)) eqn:Eo; [|reflexivity].
      apply own_enemy_excl in Eo. congruence.
Qed.

Lemma u_caps_iff att s u : In u (u_caps att s) <->
  exists t, N.testbit att t = true /\ In u (if edge_rank t then promos s t else [tri s t 0]).
Proof.
  unfold u_caps. rewrite in_flat_map. split; intros (t & H1 & H2); exists t; (split; [|assumption]); now apply bits_of_spec.
Qed.

Lemma spec_caps_model b s u : wf b = true -> ep_bits_ok b = true ->
  N.testbit (bb_of b (mover b) Pawn) s = true ->
  (In u (spec_caps (abs b) (mover b) (Z.of_N s)) <->
   In u (u_caps (cap_set T b (full_occ (active b)) (full_occ (passive b)) s) s)).
Proof.
  intros Hwf Hep Hp.
  assert (Hr : 8 <= s < 56) by (apply (pawn_square_range b s Hwf); rewrite active_pside; exact Hp).
  assert (Hs : s < 64) by lia.
  rewrite u_caps_iff. unfold spec_caps. rewrite in_flat_map. split.
  - intros (z & Hz & H). pose proof (attacked_from_on_board _ _ _ _ Hz) as Hb.
    rewrite <- (Z2N.id z) in Hz, H by lia. apply attacked_from_bb in Hz. cbn [att_bb] in Hz.
    exists (Z.to_N z). fold (epm b (Z.to_N z)) in H. rewrite (cap_set_spec b s _ Hwf Hep Hs), Hz. cbn [andb].
    destruct (enemy (abs b) (mover b) (Z.of_N (Z.to_N z)) || epm b (Z.to_N z)); [|destruct H].
    split; [reflexivity|]. now rewrite <- (pawn_to_target (mover b) s _ Hr Hz).
  - intros (t & Ht & H). rewrite (cap_set_spec b s _ Hwf Hep Hs) in Ht. apply andb_true_iff in Ht as [Ha Hc].
    exists (Z.of_N t). split; [apply (attacked_from_bb b (mover b) Pawn s t); exact Ha|].
    fold (epm b t). rewrite Hc. now rewrite (pawn_to_target (mover b) s _ Hr Ha).
Qed.

End GenSpec.

(* ---------- castling ---------- *)
Definition spec_castle (p : pos) (c : color) (s : Z) : list mv :=
  let h := home_row c in
  let e := sq_of 4 h in
  if (s =? e)%Z && negb (attacked p e (opp c)) then
    (if (match c with White => wk p | Black => bk p end)
        && empty p (sq_of 5 h) && empty p (sq_of 6 h)
        && negb (attacked p (sq_of 5 h) (opp c)) && negb (attacked p (sq_of 6 h) (opp c))
     then [{| from := s; to := sq_of 6 h; prom := None |}] else []) ++
    (if (match c with White => wq p | Black => bq p end)
        && empty p (sq_of 3 h) && empty p (sq_of 2 h) && empty p (sq_of 1 h)
        && negb (attacked p (sq_of 3 h) (opp c)) && negb (attacked p (sq_of 2 h) (opp c))
     then [{| from := s; to := sq_of 2 h; prom := None |}] else [])
  else [].

Lemma piece_moves_king p s c : piece_moves p s (c, King) = spec_std p c King s ++ spec_castle p c s.
Proof. reflexivity. Qed.

Lemma piece_moves_other p s c k : k <> Pawn -> k <> King -> piece_moves p s (c, k) = spec_std p c k s.
Proof. destruct k; try reflexivity; congruence. Qed.

Lemma spec_castle_white p s : spec_castle p White s =
  if (s =? 60)%Z && negb (attacked p 60%Z Black) then
    (if wk p && empty p 61%Z && empty p 62%Z && negb (attacked p 61%Z Black) && negb (attacked p 62%Z Black)
     then [{| from := s; to := 62%Z; prom := None |}] else []) ++
    (if wq p && empty p 59%Z && empty p 58%Z && empty p 57%Z && negb (attacked p 59%Z Black) && negb (attacked p 58%Z Black)
     then [{| from := s; to := 58%Z; prom := None |}] else [])
  else [].
Proof. reflexivity. Qed.

Lemma spec_castle_black p s : spec_castle p Black s =
  if (s =? 4)%Z && negb (attacked p 4%Z White) then
    (if bk p && empty p 5%Z && empty p 6%Z && negb (attacked p 5%Z White) && negb (attacked p 6%Z White)
     then [{| from := s; to := 6%Z; prom := None |}] else []) ++
    (if bq p && empty p 3%Z && empty p 2%Z && empty p 1%Z && negb (attacked p 3%Z White) && negb (attacked p 2%Z White)
     then [{| from := s; to := 2%Z; prom := None |}] else [])
  else [].
Proof. reflexivity. Qed.

Lemma map_if_nil {A B} (f : A -> B) (c : bool) l : map f (if c then l else []) = if c then map f l else [].
Proof. now destruct c. Qed.

(* the boolean core: model conditions (EMPTY mask, CHECK mask) vs the conditions of the rules *)
Lemma castle_q_cond (r e1 e2 e3 a2 a3 a4 : bool) :
  r && negb (negb e1 || (negb e2 || (negb e3 || false))) && negb (a2 || (a3 || (a4 || false))) =
  negb a4 && (r && e3 && e2 && e1 && negb a3 && negb a2).
Proof. destruct r, e1, e2, e3, a2, a3, a4; reflexivity. Qed.

Lemma castle_k_cond (r e5 e6 a4 a5 a6 : bool) :
  r && negb (negb e5 || (negb e6 || false)) && negb (a4 || (a5 || (a6 || false))) =
  negb a4 && (r && e5 && e6 && negb a5 && negb a6).
Proof. destruct r, e5, e6, a4, a5, a6; reflexivity. Qed.

Lemma castle_lists {A} (a q k : bool) (X Y u : A) :
  In u ((if negb a && q then [X] else []) ++ (if negb a && k then [Y] else [])) <->
  In u (if true && negb a then (if k then [Y] else []) ++ (if q then [X] else []) else []).
Proof. destruct a, q, k; cbn; tauto. Qed.

Section Castle.
Variable T : Tables.t.
Hypothesis OK : tables_attacks_ok T = true.
Hypothesis MK : tables_movegen_ok T = true.

Lemma castle_white b u : wf b = true -> rights_wf b = true -> is_white_turn b = true ->
  (In u (map uci_of (castle_moves T b (N.lor (full_occ (active b)) (full_occ (passive b))))) <->
   In u (spec_castle (abs b) White (Z.of_N (king_of b White)))).
Proof.
  intros Hwf Hr Hwt. destruct (tables_movegen_elim T MK) as (_ & _ & _ & _ & Q1 & Q2 & _ & _ & Q5 & Q6 & _ & _).
  unfold castle_moves. rewrite Hwt, map_app, !map_if_nil, !map_uci_make_move.
  rewrite Q1, Q2, Q5, Q6, !nz_land_bits. unfold occupancy_in_check.
  change (bits_of 1008806316530991104) with [57; 58; 59].
  change (bits_of 6917529027641081856) with [61; 62].
  change (bits_of 2017612633061982208) with [58; 59; 60].
  change (bits_of 8070450532247928832) with [60; 61; 62].
  cbn [existsb].
  change WHITE with (colN White). change (black b) with (pside b (opp White)).
  rewrite (square_in_check_active T OK b White 58 Hwf ltac:(lia)), (square_in_check_active T OK b White 59 Hwf ltac:(lia)),
          (square_in_check_active T OK b White 60 Hwf ltac:(lia)), (square_in_check_active T OK b White 61 Hwf ltac:(lia)),
          (square_in_check_active T OK b White 62 Hwf ltac:(lia)).
  rewrite all_occ_total.
  rewrite (total_occ_empty b 57), (total_occ_empty b 58), (total_occ_empty b 59),
          (total_occ_empty b 61), (total_occ_empty b 62) by lia.
  cbn [Z.of_N opp pside]. rewrite castle_q_cond, castle_k_cond, spec_castle_white.
  destruct (rights_wf_elim b Hr) as (Rq & Rk & _).
  destruct (N.eqb_spec (king_of b White) 60) as [Ek|Hnk].
  - rewrite Ek. cbn [Z.of_N]. change (60 =? 60)%Z with true. change (wk (abs b)) with (ks (white b)).
    change (wq (abs b)) with (qs (white b)). rewrite castle_lists. reflexivity.
  - assert (Hq : qs (white b) = false).
    { destruct (qs (white b)); [|reflexivity]. destruct (Rq eq_refl) as [_ Hk].
      change (kings (white b)) with (kings (pside b White)) in Hk. rewrite king_bit in Hk by assumption.
      apply N.eqb_eq in Hk. unfold E1 in Hk. congruence. }
    assert (Hk : ks (white b) = false).
    { destruct (ks (white b)); [|reflexivity]. destruct (Rk eq_refl) as [_ Hk].
      change (kings (white b)) with (kings (pside b White)) in Hk. rewrite king_bit in Hk by assumption.
      apply N.eqb_eq in Hk. unfold E1 in Hk. congruence. }
    rewrite Hq, Hk. change (wk (abs b)) with (ks (white b)). change (wq (abs b)) with (qs (white b)).
    rewrite Hq, Hk. cbn [andb app]. rewrite !andb_false_r. cbn [app]. destruct (_ && _); cbn; tauto.
Qed.

Lemma castle_black b u : wf b = true -> rights_wf b = true -> is_white_turn b = false ->
  (In u (map uci_of (castle_moves T b (N.lor (full_occ (active b)) (full_occ (passive b))))) <->
   In u (spec_castle (abs b) Black (Z.of_N (king_of b Black)))).
Proof.
  intros Hwf Hr Hwt. destruct (tables_movegen_elim T MK) as (_ & _ & _ & _ & _ & _ & Q1 & Q2 & _ & _ & Q5 & Q6).
  unfold castle_moves. rewrite Hwt, map_app, !map_if_nil, !map_uci_make_move.
  rewrite Q1, Q2, Q5, Q6, !nz_land_bits. unfold occupancy_in_check.
  change (bits_of 14) with [1; 2; 3].
  change (bits_of 96) with [5; 6].
  change (bits_of 28) with [2; 3; 4].
  change (bits_of 112) with [4; 5; 6].
  cbn [existsb].
  change BLACK with (colN Black). change (white b) with (pside b (opp Black)).
  rewrite (square_in_check_active T OK b Black 2 Hwf ltac:(lia)), (square_in_check_active T OK b Black 3 Hwf ltac:(lia)),
          (square_in_check_active T OK b Black 4 Hwf ltac:(lia)), (square_in_check_active T OK b Black 5 Hwf ltac:(lia)),
          (square_in_check_active T OK b Black 6 Hwf ltac:(lia)).
  rewrite all_occ_total.
  rewrite (total_occ_empty b 1), (total_occ_empty b 2), (total_occ_empty b 3),
          (total_occ_empty b 5), (total_occ_empty b 6) by lia.
  cbn [Z.of_N opp pside]. rewrite castle_q_cond, castle_k_cond, spec_castle_black.
  destruct (rights_wf_elim b Hr) as (_ & _ & Rq & Rk).
  destruct (N.eqb_spec (king_of b Black) 4) as [Ek|Hnk].
  - rewrite Ek. cbn [Z.of_N]. change (4 =? 4)%Z with true. change (bk (abs b)) with (ks (black b)).
    change (bq (abs b)) with (qs (black b)). rewrite castle_lists. reflexivity.
  - assert (Hq : qs (black b) = false).
    { destruct (qs (black b)); [|reflexivity]. destruct (Rq eq_refl) as [_ Hk].
      change (kings (black b)) with (kings (pside b Black)) in Hk. rewrite king_bit in Hk by assumption.
      apply N.eqb_eq in Hk. unfold E8 in Hk. congruence. }
    assert (Hk : ks (black b) = false).
    { destruct (ks (black b)); [|reflexivity]. destruct (Rk eq_refl) as [_ Hk].
      change (kings (black b)) with (kings (pside b Black)) in Hk. rewrite king_bit in Hk by assumption.
      apply N.eqb_eq in Hk. unfold E8 in Hk. congruence. }
    rewrite Hq, Hk. change (bk (abs b)) with (ks (black b)). change (bq (abs b)) with (qs (black b)).
    rewrite Hq, Hk. cbn [andb app]. rewrite !andb_false_r. cbn [app]. destruct (_ && _); cbn; tauto.
Qed.

Lemma castle_spec b u : wf b = true -> rights_wf b = true ->
  (In u (map uci_of (castle_moves T b (N.lor (full_occ (active b)) (full_occ (passive b))))) <->
   In u (spec_castle (abs b) (mover b) (Z.of_N (king_of b (mover b))))).
Proof.
  intros Hwf Hr. destruct (is_white_turn b) eqn:Hwt.
  - assert (E : mover b = White) by (rewrite wt_mover in Hwt; now apply color_eqb_eq in Hwt). rewrite E.
    now apply castle_white.
  - assert (E : mover b = Black) by (rewrite wt_mover in Hwt; destruct (mover b); [discriminate|reflexivity]). rewrite E.
    now apply castle_black.
Qed.

End Castle.

(* ================================================================== *)
(* 5. pseudo-legal moves: membership                                   *)
(* ================================================================== *)

Lemma in_flat_bits {A} (F : N -> list A) X u :
  In u (flat_map F (bits_of X)) <-> exists s, N.testbit X s = true /\ In u (F s).
Proof.
  rewrite in_flat_map. split; intros (s & H1 & H2); exists s; (split; [|assumption]); now apply bits_of_spec.
Qed.

Lemma std_from_lor s A B ao u :
  In u (std_from s (clear (N.lor A B) ao)) <-> In u (std_from s (clear A ao)) \/ In u (std_from s (clear B ao)).
Proof.
  rewrite !std_from_iff. split.
  - intros (t & Ht & ->). rewrite clear_testbit, N.lor_spec in Ht. apply andb_true_iff in Ht as [Ht Ho].
    apply orb_true_iff in Ht as [Ht|Ht]; [left|right]; exists t; (split; [|reflexivity]); now rewrite clear_testbit, Ht, Ho.
  - intros [(t & Ht & ->)|(t & Ht & ->)]; exists t; (split; [|reflexivity]); rewrite clear_testbit in *;
      apply andb_true_iff in Ht as [Ht Ho]; rewrite N.lor_spec, Ht, Ho; [reflexivity|now rewrite orb_true_r].
Qed.

Section Pseudo.
Variable T : Tables.t.
Hypothesis OK : tables_attacks_ok T = true.
Hypothesis MK : tables_movegen_ok T = true.

(* the generator, as a list of UCI triples *)
Definition u_pieces (b : board) (pocc : N) (lookup : N -> N) : list mv :=
  flat_map (fun s => std_from s (clear (lookup s) (full_occ (active b)))) (bits_of pocc).

Definition u_common (b : board) : list mv :=
  let act := active b in
  let fo := N.lor (full_occ act) (full_occ (passive b)) in
  u_pieces b (queens act) (fun s => rook_attacks T s fo) ++
  u_pieces b (queens act) (fun s => bishop_attacks T s fo) ++
  u_pieces b (bishops act) (fun s => bishop_attacks T s fo) ++
  u_pieces b (rooks act) (fun s => rook_attacks T s fo) ++
  u_pieces b (knights act) (leaper (knight_tbl T)) ++
  u_pieces b (kings act) (leaper (king_tbl T)) ++
  flat_map (fun s => u_caps (cap_set T b (full_occ act) (full_occ (passive b)) s) s) (bits_of (pawns act)) ++
  flat_map (u_push (is_white_turn b) fo) (bits_of (pawns act)).

Lemma map_uci_gen_common b : wf b = true -> map uci_of (gen_common T b false) = u_common b.
Proof.
  intros Hwf. unfold gen_common, u_common, u_pieces. cbv zeta.
  rewrite !map_app, !(map_uci_sliding T), !(map_uci_single T), (map_uci_pawn_attacks T MK),
    (map_uci_pawn_moves T OK MK); [reflexivity|].
  intros s Hs. now apply (pawn_square_range b s Hwf).
Qed.

Lemma map_uci_gen_pseudo b : wf b = true ->
  map uci_of (gen_pseudo T b) =
  u_common b ++ map uci_of (castle_moves T b (N.lor (full_occ (active b)) (full_occ (passive b)))).
Proof. intros Hwf. unfold gen_pseudo. now rewrite map_app, map_uci_gen_common. Qed.

(* ---------- per source square: model component vs piece_moves ---------- *)
Lemma active_bb b k : pbb (active b) k = bb_of b (mover b) k.
Proof. now rewrite active_pside. Qed.

Lemma src_lt64 b k s : wf b = true -> N.testbit (bb_of b (mover b) k) s = true -> s < 64.
Proof. intros Hwf H. eapply wf_bb_lt64; eassumption. Qed.

Lemma lookup_rook b s : s < 64 ->
  rook_attacks T s (N.lor (full_occ (active b)) (full_occ (passive b))) = ray_attacks ORTH s (total_occ b).
Proof. intros Hs. rewrite all_occ_total. unfold rook_attacks. now destruct (generic_slider_values T OK s (total_occ b) Hs). Qed.

Lemma lookup_bishop b s : s < 64 ->
  bishop_attacks T s (N.lor (full_occ (active b)) (full_occ (passive b))) = ray_attacks DIAG s (total_occ b).
Proof. intros Hs. rewrite all_occ_total. unfold bishop_attacks. now destruct (generic_slider_values T OK s (total_occ b) Hs). Qed.

Lemma lookup_knight s : s < 64 -> leaper (knight_tbl T) s = step_attacks KNIGHT_DIRS s.
Proof. intros Hs. now destruct (generic_leapers T OK s Hs) as (_ & H & _). Qed.

Lemma lookup_king s : s < 64 -> leaper (king_tbl T) s = step_attacks KING_DIRS s.
Proof. intros Hs. now destruct (generic_leapers T OK s Hs) as (H & _). Qed.

(* ordinary moves of kind k from s, in model form *)
Definition model_std (b : board) (k : kind) (s : N) : list mv :=
  std_from s (clear (att_bb b (mover b) k s) (full_occ (active b))).

Lemma model_std_spec b k s u : wf b = true -> s < 64 ->
  (In u (model_std b k s) <-> In u (spec_std (abs b) (mover b) k (Z.of_N s))).
Proof. intros Hwf Hs. unfold model_std. rewrite active_pside. symmetry. now apply spec_std_iff. Qed.

Theorem C01_pseudo_members b : wf b = true -> rights_wf b = true -> ep_bits_ok b = true ->
  forall u, In u (map uci_of (gen_pseudo T b)) <-> In u (pseudo_moves (abs b)).
Proof.
  intros Hwf Hr Hep u. rewrite (map_uci_gen_pseudo b Hwf), (pseudo_moves_abs_iff b u Hwf).
  unfold u_common, u_pieces. cbv zeta. rewrite !in_app_iff, !in_flat_bits.
  change (queens (active b)) with (pbb (active b) Queen). change (bishops (active b)) with (pbb (active b) Bishop).
  change (rooks (active b)) with (pbb (active b) Rook). change (knights (active b)) with (pbb (active b) Knight).
  change (kings (active b)) with (pbb (active b) King). change (pawns (active b)) with (pbb (active b) Pawn).
  rewrite !active_bb. split.
  - intros [[H|[H|[H|[H|[H|[H|[H|H]]]]]]]|H].
    + destruct H as (s & Hs & H). pose proof (src_lt64 b _ s Hwf Hs) as Hlt. exists s, Queen. repeat split; try assumption.
      rewrite lookup_rook in H by assumption. rewrite piece_moves_other by discriminate.
      apply (model_std_spec b Queen s u Hwf Hlt). unfold model_std. cbn [att_bb]. apply std_from_lor. now left.
    + destruct H as (s & Hs & H). pose proof (src_lt64 b _ s Hwf Hs) as Hlt. exists s, Queen. repeat split; try assumption.
      rewrite lookup_bishop in H by assumption. rewrite piece_moves_other by discriminate.
      apply (model_std_spec b Queen s u Hwf Hlt). unfold model_std. cbn [att_bb]. apply std_from_lor. now right.
    + destruct H as (s & Hs & H). pose proof (src_lt64 b _ s Hwf Hs) as Hlt. exists s, Bishop. repeat split; try assumption.
      rewrite lookup_bishop in H by assumption. rewrite piece_moves_other by discriminate.
      now apply (model_std_spec b Bishop s u Hwf Hlt).
    + destruct H as (s & Hs & H). pose proof (src_lt64 b _ s Hwf Hs) as Hlt. exists s, Rook. repeat split; try assumption.
      rewrite lookup_rook in H by assumption. rewrite piece_moves_other by discriminate.
      now apply (model_std_spec b Rook s u Hwf Hlt).
    + destruct H as (s & Hs & H). pose proof (src_lt64 b _ s Hwf Hs) as Hlt. exists s, Knight. repeat split; try assumption.
      rewrite lookup_knight in H by assumption. rewrite piece_moves_other by discriminate.
      now apply (model_std_spec b Knight s u Hwf Hlt).
    + destruct H as (s & Hs & H). pose proof (src_lt64 b _ s Hwf Hs) as Hlt. exists s, King. repeat split; try assumption.
      rewrite lookup_king in H by assumption. rewrite piece_moves_king. apply in_or_app. left.
      now apply (model_std_spec b King s u Hwf Hlt).
    + destruct H as (s & Hs & H). pose proof (src_lt64 b _ s Hwf Hs) as Hlt. exists s, Pawn. repeat split; try assumption.
      rewrite piece_moves_pawn. apply in_or_app. right. now apply (spec_caps_model T OK MK b s u Hwf Hep Hs).
    + destruct H as (s & Hs & H). pose proof (src_lt64 b _ s Hwf Hs) as Hlt. exists s, Pawn. repeat split; try assumption.
      rewrite piece_moves_pawn. apply in_or_app. left. rewrite (spec_push_model b s Hwf Hs). now rewrite <- all_occ_total.
    + exists (king_of b (mover b)), King. split; [now apply king_of_lt64|]. split.
      * unfold bb_of. cbn [pbb]. rewrite king_bit by assumption. apply N.eqb_refl.
      * rewrite piece_moves_king. apply in_or_app. right. now apply (castle_spec T OK MK b u Hwf Hr).
  - intros (s & k & Hlt & Hs & H). destruct k.
    + rewrite piece_moves_pawn in H. apply in_app_or in H as [H|H].
      * left. do 7 right. exists s. split; [assumption|]. rewrite (spec_push_model b s Hwf Hs) in H. now rewrite all_occ_total.
      * left. do 6 right. left. exists s. split; [assumption|]. now apply (spec_caps_model T OK MK b s u Hwf Hep Hs).
    + rewrite piece_moves_other in H by discriminate. apply (model_std_spec b Knight s u Hwf Hlt) in H.
      left. do 4 right. left. exists s. split; [assumption|]. now rewrite lookup_knight.
    + rewrite piece_moves_other in H by discriminate. apply (model_std_spec b Bishop s u Hwf Hlt) in H.
      left. do 2 right. left. exists s. split; [assumption|]. now rewrite lookup_bishop.
    + rewrite piece_moves_other in H by discriminate. apply (model_std_spec b Rook s u Hwf Hlt) in H.
      left. do 3 right. left. exists s. split; [assumption|]. now rewrite lookup_rook.
    + rewrite piece_moves_other in H by discriminate. apply (model_std_spec b Queen s u Hwf Hlt) in H.
      unfold model_std in H. cbn [att_bb] in H. apply std_from_lor in H as [H|H].
      * left. left. exists s. split; [assumption|]. now rewrite lookup_rook.
      * left. right. left. exists s. split; [assumption|]. now rewrite lookup_bishop.
    + rewrite piece_moves_king in H. apply in_app_or in H as [H|H].
      * apply (model_std_spec b King s u Hwf Hlt) in H.
        left. do 5 right. left. exists s. split; [assumption|]. now rewrite lookup_king.
      * right. unfold bb_of in Hs. cbn [pbb] in Hs. rewrite king_bit in Hs by assumption.
        apply N.eqb_eq in Hs. subst s. now apply (castle_spec T OK MK b u Hwf Hr).
Qed.

End Pseudo.

(* ================================================================== *)
(* 6. no duplicates                                                    *)
(* ================================================================== *)

Definition disj {A} (l1 l2 : list A) : Prop := forall u, In u l1 -> In u l2 -> False.

Lemma disj_app_r {A} (l a b : list A) : disj l a -> disj l b -> disj l (a ++ b).
Proof. intros H1 H2 u Hu Hab. apply in_app_or in Hab as [H|H]; [now apply (H1 u)|now apply (H2 u)]. Qed.

Lemma disj_sym {A} (l1 l2 : list A) : disj l1 l2 -> disj l2 l1.
Proof. intros H u H2 H1. now apply (H u). Qed.

Lemma tri_inj s t pr s' t' pr' : tri s t pr = tri s' t' pr' -> s = s' /\ t = t' /\ kind_of pr = kind_of pr'.
Proof. unfold tri. intros [= H1 H2 H3]. repeat split; (lia || assumption). Qed.

Lemma NoDup_flat_from (F : N -> list mv) l :
  NoDup l -> (forall s, In s l -> NoDup (F s)) -> (forall s u, In u (F s) -> from u = Z.of_N s) ->
  NoDup (flat_map F l).
Proof.
  intros Hl Hf Hs. apply NoDup_flat_map_intro; try assumption.
  intros x y z _ _ Hx Hy. apply Hs in Hx. apply Hs in Hy. lia.
Qed.

Lemma std_from_from s A u : In u (std_from s A) -> from u = Z.of_N s.
Proof. rewrite std_from_iff. now intros (t & _ & ->). Qed.

Lemma NoDup_std_from s A : NoDup (std_from s A).
Proof.
  unfold std_from. apply NoDup_map_intro; [|apply NoDup_bits_of].
  intros x y _ _ E. now apply tri_inj in E.
Qed.

Lemma NoDup_promo_kinds : NoDup promo_kinds.
Proof. unfold promo_kinds. repeat constructor; cbn [In]; intuition discriminate. Qed.

Lemma NoDup_promos s t : NoDup (promos s t).
Proof.
  unfold promos. apply NoDup_map_intro; [|apply NoDup_promo_kinds]. intros x y _ _ E. now injection E.
Qed.

Lemma promos_from_to s t u : In u (promos s t) -> from u = Z.of_N s /\ to u = Z.of_N t.
Proof. rewrite promos_iff. now intros (k & _ & ->). Qed.

Lemma u_caps_shape att s u : In u (u_caps att s) ->
  from u = Z.of_N s /\ exists t, N.testbit att t = true /\ to u = Z.of_N t.
Proof.
  rewrite u_caps_iff. intros (t & Ht & H). destruct (edge_rank t).
  - apply promos_from_to in H as [H1 H2]. split; [assumption|]. now exists t.
  - destruct H as [<-|[]]. split; [reflexivity|]. now exists t.
Qed.

Lemma NoDup_u_caps att s : NoDup (u_caps att s).
Proof.
  unfold u_caps. apply NoDup_flat_map_intro; [apply NoDup_bits_of| |].
  - intros t _. destruct (edge_rank t); [apply NoDup_promos|]. constructor; [intros []|constructor].
  - intros x y z _ _ Hx Hy.
    assert (Tx : to z = Z.of_N x).
    { destruct (edge_rank x); [now apply promos_from_to in Hx|]. now destruct Hx as [<-|[]]. }
    assert (Ty : to z = Z.of_N y).
    { destruct (edge_rank y); [now apply promos_from_to in Hy|]. now destruct Hy as [<-|[]]. }
    lia.
Qed.

Lemma u_push_shape wt fo s u : In u (u_push wt fo s) ->
  from u = Z.of_N s /\ (to u = Z.of_N (fwd1 wt s) \/ (home_rank wt s = true /\ to u = Z.of_N (fwd2 wt s))).
Proof.
  unfold u_push. destruct (N.testbit fo (fwd1 wt s)); [intros []|].
  destruct (last_rank wt (fwd1 wt s)).
  - intros H. apply promos_from_to in H as [H1 H2]. auto.
  - intros [<-|H]; [cbn; auto|]. destruct (home_rank wt s); [|destruct H]. cbn [andb] in H.
    destruct (negb _); [|destruct H]. destruct H as [<-|[]]. cbn. auto.
Qed.

Lemma NoDup_u_push wt fo s : NoDup (u_push wt fo s).
Proof.
  unfold u_push. destruct (N.testbit fo (fwd1 wt s)); [constructor|].
  destruct (last_rank wt (fwd1 wt s)); [apply NoDup_promos|].
  destruct (home_rank wt s) eqn:Eh; cbn [andb]; [|repeat constructor; intros []].
  destruct (negb _); [|repeat constructor; intros []].
  constructor; [|repeat constructor; intros []]. intros [E|[]]. apply tri_inj in E as (_ & E & _).
  unfold fwd1, fwd2, home_rank in *. destruct wt; lia.
Qed.

(* orthogonal and diagonal rays from one square never meet *)
Lemma orth_diag_disjoint s occ t : s < 64 ->
  N.testbit (ray_attacks ORTH s occ) t = true -> N.testbit (ray_attacks DIAG s occ) t = true -> False.
Proof.
  intros Hs H1 H2. apply (rook_meaning s occ t Hs) in H1 as (d & k & Hd & Hk & Hw & _).
  apply (bishop_meaning s occ t Hs) in H2 as (d' & k' & Hd' & Hk' & Hw' & _).
  apply walk_coords in Hw as [F R]. apply walk_coords in Hw' as [F' R'].
  unfold ORTH, NORTH, EAST, SOUTH, WEST in Hd. unfold DIAG, NORTH_EAST, SOUTH_EAST, SOUTH_WEST, NORTH_WEST, dplus, NORTH, EAST, SOUTH, WEST in Hd'.
  cbn [In fst snd] in Hd, Hd'.
  destruct Hd as [<-|[<-|[<-|[<-|[]]]]]; destruct Hd' as [<-|[<-|[<-|[<-|[]]]]]; cbn [fst snd] in *; lia.
Qed.

(* a pawn push stays on its file *)
Lemma fwd_file wt s t : 8 <= s < 56 -> t = fwd1 wt s \/ (home_rank wt s = true /\ t = fwd2 wt s) ->
  fileZ (Z.of_N t) = fileZ (Z.of_N s).
Proof.
  intros Hs [->|[Hh ->]]; unfold fwd1, fwd2, home_rank in *; destruct wt.
  - replace (Z.of_N (s - 8)) with (Z.of_N s + 8 * (-1))%Z by lia. apply fileZ_shift.
  - replace (Z.of_N (s + 8)) with (Z.of_N s + 8 * 1)%Z by lia. apply fileZ_shift.
  - replace (Z.of_N (s - 16)) with (Z.of_N s + 8 * (-2))%Z by lia. apply fileZ_shift.
  - replace (Z.of_N (s + 16)) with (Z.of_N s + 8 * 2)%Z by lia. apply fileZ_shift.
Qed.

Section NoDupSec.
Variable T : Tables.t.
Hypothesis OK : tables_attacks_ok T = true.
Hypothesis MK : tables_movegen_ok T = true.
Variable b : board.
Hypothesis Hwf : wf b = true.
Hypothesis Hr : rights_wf b = true.

(* every move of the list starts from a square that carries a mover's piece of kind k *)
Definition kind_list (L : list mv) (k : kind) : Prop :=
  forall u, In u L -> exists s, N.testbit (bb_of b (mover b) k) s = true /\ from u = Z.of_N s.

Lemma disj_kinds L1 L2 k1 k2 : kind_list L1 k1 -> kind_list L2 k2 -> k1 <> k2 -> disj L1 L2.
Proof.
  intros H1 H2 Hne u U1 U2. destruct (H1 u U1) as (s & Hs & Es). destruct (H2 u U2) as (s' & Hs' & Es').
  assert (s' = s) by lia. subst s'.
  assert (E : (mover b, k1) = (mover b, k2)) by (eapply bb_unique; eassumption). congruence.
Qed.

Lemma kind_list_pieces k lookup : kind_list (u_pieces b (pbb (active b) k) lookup) k.
Proof.
  intros u Hu. unfold u_pieces in Hu. apply in_flat_bits in Hu as (s & Hs & Hu). rewrite active_bb in Hs.
  exists s. split; [assumption|]. now apply std_from_from in Hu.
Qed.

Lemma NoDup_u_pieces pocc lookup : NoDup (u_pieces b pocc lookup).
Proof.
  unfold u_pieces. apply NoDup_flat_from; [apply NoDup_bits_of| |].
  - intros s _. apply NoDup_std_from.
  - intros s u. apply std_from_from.
Qed.

Definition u_caps_all : list mv :=
  flat_map (fun s => u_caps (cap_set T b (full_occ (active b)) (full_occ (passive b)) s) s) (bits_of (pawns (active b))).
Definition u_push_all : list mv :=
  flat_map (u_push (is_white_turn b) (N.lor (full_occ (active b)) (full_occ (passive b)))) (bits_of (pawns (active b))).
Definition u_castle : list mv :=
  map uci_of (castle_moves T b (N.lor (full_occ (active b)) (full_occ (passive b)))).

Lemma kind_list_caps : kind_list u_caps_all Pawn.
Proof.
  intros u Hu. apply in_flat_bits in Hu as (s & Hs & Hu). change (pawns (active b)) with (pbb (active b) Pawn) in Hs.
  rewrite active_bb in Hs. exists s. split; [assumption|]. now apply u_caps_shape in Hu.
Qed.

Lemma kind_list_push : kind_list u_push_all Pawn.
Proof.
  intros u Hu. apply in_flat_bits in Hu as (s & Hs & Hu). change (pawns (active b)) with (pbb (active b) Pawn) in Hs.
  rewrite active_bb in Hs. exists s. split; [assumption|]. now apply u_push_shape in Hu.
Qed.

Lemma NoDup_caps_all : NoDup u_caps_all.
Proof.
  apply NoDup_flat_from; [apply NoDup_bits_of| |].
  - intros s _. apply NoDup_u_caps.
  - intros s u Hu. now apply u_caps_shape in Hu.
Qed.

Lemma NoDup_push_all : NoDup u_push_all.
Proof.
  apply NoDup_flat_from; [apply NoDup_bits_of| |].
  - intros s _. apply NoDup_u_push.
  - intros s u Hu. now apply u_push_shape in Hu.
Qed.

(* the two halves of the queen moves *)
Lemma disj_queen :
  disj (u_pieces b (queens (active b)) (fun s => rook_attacks T s (N.lor (full_occ (active b)) (full_occ (passive b)))))
       (u_pieces b (queens (active b)) (fun s => bishop_attacks T s (N.lor (full_occ (active b)) (full_occ (passive b))))).
Proof.
  intros u H1 H2. unfold u_pieces in H1, H2.
  apply in_flat_bits in H1 as (s & Hs & H1). apply in_flat_bits in H2 as (s' & Hs' & H2).
  apply std_from_iff in H1 as (t & Ht & ->). apply std_from_iff in H2 as (t' & Ht' & E).
  apply tri_inj in E as (<- & <- & _).
  change (queens (active b)) with (pbb (active b) Queen) in Hs. rewrite active_bb in Hs.
  pose proof (src_lt64 b Queen s Hwf Hs) as Hlt.
  rewrite (lookup_rook T OK b s Hlt), clear_testbit in Ht. rewrite (lookup_bishop T OK b s Hlt), clear_testbit in Ht'.
  apply andb_true_iff in Ht as [Ht _]. apply andb_true_iff in Ht' as [Ht' _].
  exact (orth_diag_disjoint s _ t Hlt Ht Ht').
Qed.

(* captures change the file, pushes do not *)
Lemma disj_pawn : disj u_caps_all u_push_all.
Proof.
  intros u H1 H2. apply in_flat_bits in H1 as (s & Hs & H1). apply in_flat_bits in H2 as (s' & Hs' & H2).
  apply u_caps_shape in H1 as (F1 & t & Ht & T1). apply u_push_shape in H2 as (F2 & T2).
  assert (s' = s) by lia. subst s'.
  pose proof (pawn_square_range b s Hwf Hs) as Hrange. assert (Hlt : s < 64) by lia.
  unfold cap_set in Ht. cbv zeta in Ht. rewrite (pawn_tbl_mover T OK b s Hlt), clear_testbit, N.land_spec in Ht.
  apply andb_true_iff in Ht as [Ht _]. apply andb_true_iff in Ht as [Ht _].
  apply pawn_target_geom in Ht as [_ Hfile].
  assert (Hsame : fileZ (Z.of_N t) = fileZ (Z.of_N s)).
  { apply (fwd_file (is_white_turn b) s t Hrange). destruct T2 as [T2|[Hh T2]]; [left|right; split; [assumption|]]; lia. }
  lia.
Qed.

(* what the castling list can contain *)
Lemma castle_members u : In u u_castle ->
  (u = tri 60 58 0 \/ u = tri 60 62 0 \/ u = tri 4 2 0 \/ u = tri 4 6 0) /\
  exists s, N.testbit (bb_of b (mover b) King) s = true /\ from u = Z.of_N s.
Proof.
  unfold u_castle, castle_moves. destruct (rights_wf_elim b Hr) as (R1 & R2 & R3 & R4).
  destruct (is_white_turn b) eqn:Hwt.
  - assert (E : mover b = White) by (rewrite wt_mover in Hwt; now apply color_eqb_eq in Hwt). rewrite E.
    rewrite map_app, !map_if_nil, !(map_uci_make_move T). intros H. apply in_app_or in H as [H|H].
    + destruct (qs (white b)) eqn:Eq; cbn [andb] in H; [|destruct H]. destruct (_ && _) in H; [|destruct H].
      destruct H as [<-|[]]. split; [tauto|]. exists 60. split; [|reflexivity]. now destruct (R1 eq_refl).
    + destruct (ks (white b)) eqn:Eq; cbn [andb] in H; [|destruct H]. destruct (_ && _) in H; [|destruct H].
      destruct H as [<-|[]]. split; [tauto|]. exists 60. split; [|reflexivity]. now destruct (R2 eq_refl).
  - assert (E : mover b = Black) by (rewrite wt_mover in Hwt; destruct (mover b); [discriminate|reflexivity]). rewrite E.
    rewrite map_app, !map_if_nil, !(map_uci_make_move T). intros H. apply in_app_or in H as [H|H].
    + destruct (qs (black b)) eqn:Eq; cbn [andb] in H; [|destruct H]. destruct (_ && _) in H; [|destruct H].
      destruct H as [<-|[]]. split; [tauto|]. exists 4. split; [|reflexivity]. now destruct (R3 eq_refl).
    + destruct (ks (black b)) eqn:Eq; cbn [andb] in H; [|destruct H]. destruct (_ && _) in H; [|destruct H].
      destruct H as [<-|[]]. split; [tauto|]. exists 4. split; [|reflexivity]. now destruct (R4 eq_refl).
Qed.

Lemma kind_list_castle : kind_list u_castle King.
Proof. intros u Hu. now apply castle_members in Hu. Qed.

Lemma NoDup_castle : NoDup u_castle.
Proof.
  unfold u_castle, castle_moves. destruct (is_white_turn b);
    rewrite map_app, !map_if_nil, !(map_uci_make_move T);
    repeat match goal with |- context [if ?c then _ else _] => destruct c end;
    cbn [app]; repeat constructor; cbn [In]; try tauto; intros [E|[]]; discriminate E.
Qed.

(* a king step never is a castling move *)
Lemma disj_king_castle : disj (u_pieces b (kings (active b)) (leaper (king_tbl T))) u_castle.
Proof.
  intros u H1 H2. unfold u_pieces in H1. apply in_flat_bits in H1 as (s & Hs & H1).
  apply std_from_iff in H1 as (t & Ht & ->). apply castle_members in H2 as [H2 _].
  rewrite clear_testbit in Ht. apply andb_true_iff in Ht as [Ht _].
  destruct H2 as [E|[E|[E|E]]]; apply tri_inj in E as (-> & -> & _);
    rewrite (lookup_king T OK) in Ht by lia; vm_compute in Ht; discriminate.
Qed.

Theorem NoDup_pseudo : NoDup (map uci_of (gen_pseudo T b)).
Proof.
  rewrite (map_uci_gen_pseudo T OK MK b Hwf). fold u_castle. unfold u_common. cbv zeta. fold u_caps_all. fold u_push_all.
  pose proof (kind_list_pieces Queen) as KQ. pose proof (kind_list_pieces Bishop) as KB.
  pose proof (kind_list_pieces Rook) as KR. pose proof (kind_list_pieces Knight) as KN.
  pose proof (kind_list_pieces King) as KK. cbn [pbb] in KQ, KB, KR, KN, KK.
  pose proof kind_list_caps as KC. pose proof kind_list_push as KP. pose proof kind_list_castle as KZ.
  assert (D : forall L1 L2 k1 k2, kind_list L1 k1 -> kind_list L2 k2 -> k1 <> k2 -> disj L1 L2) by exact disj_kinds.
  apply NoDup_app_intro; [|apply NoDup_castle|].
  - repeat (apply NoDup_app_intro; [apply NoDup_u_pieces| |
            repeat apply disj_app_r;
            first [ apply disj_queen
                  | eapply D; [now eauto|now eauto|discriminate] ]]).
    apply NoDup_app_intro; [apply NoDup_caps_all|apply NoDup_push_all|apply disj_pawn].
  - apply disj_sym. repeat apply disj_app_r;
      first [ apply disj_sym; apply disj_king_castle | eapply D; [now eauto|now eauto|discriminate] ].
Qed.

End NoDupSec.

(* ================================================================== *)
(* 7. the capture/promotion-only generator                             *)
(* ================================================================== *)

Definition noisy (m : move) : bool := is_attack m || is_promotion m.

Lemma filter_all {A} (p : A -> bool) l : (forall x, In x l -> p x = true) -> filter p l = l.
Proof.
  induction l as [|a r IH]; intros H; cbn [filter]; [reflexivity|].
  rewrite (H a (or_introl eq_refl)), IH; [reflexivity|]. intros x Hx. apply H. now right.
Qed.

Lemma piece_at_zero p sq : (piece_at p sq =? NO_PIECE) = negb (N.testbit (full_occ p) sq).
Proof.
  rewrite piece_at_unfold. unfold full_occ. rewrite !N.lor_spec.
  destruct (N.testbit (pawns p) sq), (N.testbit (knights p) sq), (N.testbit (bishops p) sq),
    (N.testbit (rooks p) sq), (N.testbit (queens p) sq), (N.testbit (kings p) sq); reflexivity.
Qed.

Section NonQuiet.
Variable T : Tables.t.
Hypothesis OK : tables_attacks_ok T = true.
Hypothesis MK : tables_movegen_ok T = true.

Lemma noisy_mk b s t pc ic ie pr epo :
  noisy (mk T b s t pc ic ie pr epo) =
  N.testbit (full_occ (passive b))
    (if is_white_turn b then t + (if ie then 8 else 0) else t - (if ie then 8 else 0)) || negb (pr =? NO_PIECE).
Proof.
  unfold noisy, is_attack, is_promotion, mk. cbv zeta. cbn [piece_attacked promo].
  now rewrite piece_at_zero, negb_involutive.
Qed.

Lemma noisy_mk_noep b s t pc ic pr epo :
  noisy (mk T b s t pc ic false pr epo) = N.testbit (full_occ (passive b)) t || negb (pr =? NO_PIECE).
Proof. rewrite noisy_mk. destruct (is_white_turn b); now rewrite ?N.add_0_r, ?N.sub_0_r. Qed.

Lemma make_move_true_filter b s t pc ic ie pr epo :
  make_move T b true s t pc ic ie pr epo = filter noisy (make_move T b false s t pc ic ie pr epo).
Proof.
  rewrite make_move_false. cbn [filter]. rewrite noisy_mk. unfold make_move, mk. cbv zeta.
  rewrite andb_true_r, piece_at_zero.
  destruct (N.testbit (full_occ (passive b)) _); cbn [negb andb orb]; [reflexivity|].
  destruct (pr =? NO_PIECE); reflexivity.
Qed.

Lemma gen_attacks_true_filter b s att pc :
  gen_attacks T b true s att pc = filter noisy (gen_attacks T b false s att pc).
Proof.
  unfold gen_attacks. rewrite filter_flat_map. apply flat_map_ext. intros t. apply make_move_true_filter.
Qed.

Lemma sliding_true_filter b pocc ao fo lookup pc :
  sliding_moves T b true pocc ao fo lookup pc = filter noisy (sliding_moves T b false pocc ao fo lookup pc).
Proof.
  unfold sliding_moves. rewrite filter_flat_map. apply flat_map_ext. intros s. apply gen_attacks_true_filter.
Qed.

Lemma single_true_filter b pocc ao tbl pc :
  single_moves T b true pocc ao tbl pc = filter noisy (single_moves T b false pocc ao tbl pc).
Proof.
  unfold single_moves. rewrite filter_flat_map. apply flat_map_ext. intros s. apply gen_attacks_true_filter.
Qed.

Lemma promotions_noisy b s t : filter noisy (pawn_promotions T b s t) = pawn_promotions T b s t.
Proof.
  apply filter_all. intros m Hm. apply pawn_promotions_in in Hm as (pr & Hpr & ->).
  rewrite noisy_mk_noep. unfold PROMO_PIECES in Hpr. cbn [In] in Hpr.
  destruct Hpr as [<-|[<-|[<-|[<-|[]]]]]; apply orb_true_r.
Qed.

Lemma pawn_moves_true_filter b pocc fo :
  pawn_moves T b true pocc fo = filter noisy (pawn_moves T b false pocc fo).
Proof.
  unfold pawn_moves. cbv zeta. rewrite filter_flat_map. apply flat_map_ext. intros s.
  destruct (nz (N.land _ fo)); [reflexivity|].
  destruct (nz (N.land _ (if is_white_turn b then RANK_8 T else RANK_1 T))); [symmetry; apply promotions_noisy|].
  rewrite filter_app, <- make_move_true_filter. f_equal.
  destruct (_ && _); [apply make_move_true_filter|reflexivity].
Qed.

(* every pawn capture the generator emits is noisy, PROVIDED the e.p. state is consistent *)
Lemma pawn_attacks_noisy b : ep_bits_ok b = true ->
  filter noisy (pawn_attacks T b (pawns (active b)) (full_occ (active b)) (full_occ (passive b))) =
  pawn_attacks T b (pawns (active b)) (full_occ (active b)) (full_occ (passive b)).
Proof using MK.
  clear OK. intros Hep. apply filter_all. intros m Hm. unfold pawn_attacks in Hm. cbv zeta in Hm.
  apply in_flat_map in Hm as (s & _ & Hm). unfold gen_pawn_attacks in Hm.
  apply in_flat_map in Hm as (t & Ht & Hm). apply bits_of_spec in Ht. cbv zeta in Hm.
  rewrite (edge_rank_model T MK) in Hm. destruct (edge_rank t) eqn:Ee.
  - rewrite <- promotions_noisy in Hm. now apply filter_In in Hm.
  - rewrite make_move_false in Hm. destruct Hm as [<-|[]]. rewrite noisy_mk, orb_false_r.
    rewrite clear_testbit, N.land_spec, N.lor_spec, clear_testbit, bit_spec in Ht.
    apply andb_true_iff in Ht as [Ht _]. apply andb_true_iff in Ht as [_ Ht].
    destruct (N.eqb_spec t (ep b)) as [E|Hne].
    + rewrite E in Ee |- *. clear E Ht.
      assert (Hnz : ep b <> 0) by (unfold edge_rank in Ee; lia).
      destruct (ep_bits_ok_elim b Hep Hnz) as (_ & _ & Hp). unfold passive.
      destruct (is_white_turn b); destruct Hp as [Hp _]; apply full_occ_spec; exists Pawn; exact Hp.
    + cbn [andb] in Ht. rewrite orb_false_r in Ht. destruct (is_white_turn b); now rewrite ?N.add_0_r, ?N.sub_0_r.
Qed.

Theorem nonquiet_filter b : ep_bits_ok b = true ->
  gen_nonquiet T b = filter noisy (gen_common T b false).
Proof using MK.
  intros Hep. unfold gen_nonquiet, gen_common. cbv zeta.
  rewrite !filter_app, <- !sliding_true_filter, <- !single_true_filter, <- pawn_moves_true_filter.
  now rewrite (pawn_attacks_noisy b Hep).
Qed.

End NonQuiet.

(* ---------- noisy in the model = capture or promotion in the rules ---------- *)
Lemma cop_tri p s t pr :
  capture_or_promotion p (tri s t pr) =
  negb (empty p (Z.of_N t)) || is_ep_capture p (tri s t pr) || (match kind_of pr with Some _ => true | None => false end).
Proof. reflexivity. Qed.

Lemma is_ep_capture_nonpawn p u c k : get p (from u) = Some (c, k) -> k <> Pawn -> is_ep_capture p u = false.
Proof. unfold is_ep_capture. intros -> H. destruct k; try reflexivity. congruence. Qed.

Lemma is_ep_capture_samefile p u : fileZ (to u) = fileZ (from u) -> is_ep_capture p u = false.
Proof.
  unfold is_ep_capture. intros E. destruct (get p (from u)) as [[c k]|]; [|reflexivity].
  destruct k; try reflexivity. destruct (epsq p); [|reflexivity]. rewrite E, Z.eqb_refl. apply andb_false_r.
Qed.

Lemma nonempty_passive b t : wf b = true -> t < 64 -> N.testbit (full_occ (active b)) t = false ->
  negb (empty (abs b) (Z.of_N t)) = N.testbit (full_occ (passive b)) t.
Proof.
  intros Hwf Ht Ha. rewrite (empty_own_enemy _ (mover b)), negb_involutive.
  rewrite active_pside, (full_occ_own b _ t Hwf Ht) in Ha. rewrite Ha. cbn [orb].
  now rewrite passive_pside, (full_occ_enemy b _ t Hwf Ht).
Qed.

Lemma free_square b t : t < 64 -> N.testbit (total_occ b) t = false ->
  empty (abs b) (Z.of_N t) = true /\ N.testbit (full_occ (passive b)) t = false.
Proof.
  intros Ht H. split.
  - rewrite (total_occ_empty b t Ht) in H. now apply negb_false_iff in H.
  - rewrite <- all_occ_total, N.lor_spec in H. now apply orb_false_iff in H.
Qed.

Lemma land_bit_free x k : N.land (bit k) x = 0 -> N.testbit x k = false.
Proof. intros H. rewrite N.land_comm in H. now apply land_zero_testbit. Qed.

Section Noisy.
Variable T : Tables.t.
Hypothesis OK : tables_attacks_ok T = true.
Hypothesis MK : tables_movegen_ok T = true.
Variable b : board.
Hypothesis Hwf : wf b = true.
Hypothesis Hr : rights_wf b = true.
Hypothesis Hep : ep_bits_ok b = true.

(* a move to a free square, which is not an e.p. capture, is quiet on both sides *)
Lemma quiet_both s t pc ic epo : t < 64 -> N.testbit (total_occ b) t = false ->
  is_ep_capture (abs b) (tri s t 0) = false ->
  noisy (mk T b s t pc ic false NO_PIECE epo) = capture_or_promotion (abs b) (tri s t NO_PIECE).
Proof.
  intros Ht Hfree Hnep. destruct (free_square b t Ht Hfree) as [He Hp].
  rewrite noisy_mk_noep, cop_tri, He, Hp. unfold NO_PIECE. rewrite Hnep. reflexivity.
Qed.

Lemma get_active b' k s : wf b' = true -> N.testbit (pbb (active b') k) s = true ->
  get (abs b') (Z.of_N s) = Some (mover b', k).
Proof.
  intros W H. rewrite active_bb in H. pose proof (src_lt64 b' k s W H) as Hs.
  rewrite get_abs by assumption. now apply cell_of_iff.
Qed.

Lemma piece_both s t k pc att : kind_of pc = Some k -> k <> Pawn ->
  N.testbit (pbb (active b) k) s = true -> (N.testbit att t = true -> t < 64) ->
  N.testbit (clear att (full_occ (active b))) t = true ->
  noisy (mk T b s t pc false false NO_PIECE NO_SQUARE) = capture_or_promotion (abs b) (tri s t NO_PIECE).
Proof.
  intros Hk Hnp Hs Hlt Ht. rewrite clear_testbit in Ht. apply andb_true_iff in Ht as [Ha Hao].
  apply negb_true_iff in Hao. specialize (Hlt Ha).
  rewrite noisy_mk_noep, cop_tri. unfold NO_PIECE. cbn [kind_of]. rewrite (nonempty_passive b t Hwf Hlt Hao).
  rewrite (is_ep_capture_nonpawn (abs b) (tri s t 0) (mover b) k); [now rewrite !orb_false_r| |assumption].
  cbn [tri from]. now apply get_active.
Qed.

Theorem noisy_spec m : In m (gen_pseudo T b) -> noisy m = capture_or_promotion (abs b) (uci_of m).
Proof.
  intros Hm. apply gen_pseudo_cases in Hm as (s & t & pc & ic & ie & pr & epo & Hc & ->).
  rewrite uci_of_mk.
  destruct Hc as [s t pc att Hin Hs Ht|s t pr Hs Ht He Hpr|s t Hs Ht He|s pr Hs Hf Hl Hpr|s Hs Hf Hl|s Hs Hf Hl Hd Hf2
                 |Hwt Hq Hf|Hwt Hq Hf|Hwt Hq Hf|Hwt Hq Hf].
  - (* piece moves *)
    assert (Hlt : s < 64).
    { apply (testbit_lt64 (occ_of (active b) pc)); [|assumption]. apply occ_of_lt. now apply active_bounded. }
    unfold piece_attack_sets in Hin. cbv zeta in Hin. cbn [In] in Hin.
    destruct Hin as [E|[E|[E|[E|[E|[E|[]]]]]]]; injection E as <- <-.
    + refine (piece_both s t Queen QUEEN _ eq_refl _ Hs _ Ht); [discriminate|].
      rewrite (lookup_rook T OK b s Hlt). now apply ray_attacks_lt64.
    + refine (piece_both s t Queen QUEEN _ eq_refl _ Hs _ Ht); [discriminate|].
      rewrite (lookup_bishop T OK b s Hlt). now apply ray_attacks_lt64.
    + refine (piece_both s t Bishop BISHOP _ eq_refl _ Hs _ Ht); [discriminate|].
      rewrite (lookup_bishop T OK b s Hlt). now apply ray_attacks_lt64.
    + refine (piece_both s t Rook ROOK _ eq_refl _ Hs _ Ht); [discriminate|].
      rewrite (lookup_rook T OK b s Hlt). now apply ray_attacks_lt64.
    + refine (piece_both s t Knight KNIGHT _ eq_refl _ Hs _ Ht); [discriminate|].
      rewrite (lookup_knight T OK s Hlt). apply step_attacks_lt64.
    + refine (piece_both s t King KING _ eq_refl _ Hs _ Ht); [discriminate|].
      rewrite (lookup_king T OK s Hlt). apply step_attacks_lt64.
  - (* capture with promotion *)
    rewrite noisy_mk_noep, cop_tri. unfold PROMO_PIECES in Hpr. cbn [In] in Hpr.
    destruct Hpr as [<-|[<-|[<-|[<-|[]]]]]; cbn [kind_of QUEEN ROOK BISHOP KNIGHT]; now rewrite !orb_true_r.
  - (* capture, e.p. included: noisy on both sides *)
    pose proof (pawn_square_range b s Hwf Hs) as Hrange. assert (Hlt : s < 64) by lia.
    change (pawn_capture_set T b s) with (cap_set T b (full_occ (active b)) (full_occ (passive b)) s) in Ht.
    rewrite (edge_rank_model T MK) in He.
    assert (Hmodel : noisy (mk T b s t PAWN false (t =? ep b) NO_PIECE NO_SQUARE) = true).
    { assert (Hin : In (mk T b s t PAWN false (t =? ep b) NO_PIECE NO_SQUARE)
                       (pawn_attacks T b (pawns (active b)) (full_occ (active b)) (full_occ (passive b)))).
      { unfold pawn_attacks. cbv zeta. apply in_flat_map. exists s. split; [now apply bits_of_spec|].
        unfold gen_pawn_attacks. apply in_flat_map. exists t. split; [apply bits_of_spec; exact Ht|].
        cbv zeta. rewrite (edge_rank_model T MK), He, make_move_false. now left. }
      rewrite <- (pawn_attacks_noisy T MK b Hep) in Hin. now apply filter_In in Hin. }
    rewrite Hmodel. symmetry. rewrite cop_tri.
    rewrite (cap_set_spec T OK MK b s t Hwf Hep Hlt) in Ht. apply andb_true_iff in Ht as [Ha Hc].
    pose proof (step_attacks_lt64 _ _ _ Ha) as Htlt.
    apply orb_true_iff in Hc as [Hc|Hc].
    + unfold enemy in Hc. unfold empty. destruct (get (abs b) (Z.of_N t)); [reflexivity|discriminate].
    + rewrite epm_eq in Hc. apply andb_true_iff in Hc as [Hz Hc]. apply N.eqb_eq in Hc. subst t.
      apply negb_true_iff in Hz.
      assert (X : is_ep_capture (abs b) (tri s (ep b) NO_PIECE) = true).
      { unfold is_ep_capture. cbn [tri from to]. rewrite (get_active b Pawn s Hwf Hs).
        unfold abs at 1. cbn [epsq]. rewrite Hz. rewrite Z.eqb_refl. cbn [andb].
        apply pawn_target_geom in Ha as [_ Hfile]. apply negb_true_iff. lia. }
      rewrite X. now rewrite orb_true_r.
  - (* push with promotion *)
    rewrite noisy_mk_noep, cop_tri. unfold PROMO_PIECES in Hpr. cbn [In] in Hpr.
    destruct Hpr as [<-|[<-|[<-|[<-|[]]]]]; cbn [kind_of QUEEN ROOK BISHOP KNIGHT]; now rewrite !orb_true_r.
  - (* single push *)
    pose proof (pawn_square_range b s Hwf Hs) as Hrange.
    unfold single_push in *. rewrite (single_push_bit (is_white_turn b) s Hrange) in *. rewrite ctz64_bit.
    assert (Ht : fwd1 (is_white_turn b) s < 64) by (unfold fwd1; destruct (is_white_turn b); lia).
    unfold all_occ in Hf. rewrite all_occ_total in Hf. apply land_bit_free in Hf.
    apply quiet_both; try assumption. apply is_ep_capture_samefile. cbn [tri from to].
    apply (fwd_file (is_white_turn b) s _ Hrange). now left.
  - (* double push *)
    pose proof (pawn_square_range b s Hwf Hs) as Hrange.
    assert (Hh : home_rank (is_white_turn b) s = true).
    { pose proof (rank_masks_eq T MK) as (R1 & R2 & R7 & R8). rewrite nz_land_bit_l in Hd. unfold double_rank, home_rank in *. destruct (is_white_turn b).
      - rewrite R2, testbit_rank2 in Hd. lia.
      - rewrite R7, testbit_rank7 in Hd. lia. }
    unfold double_push, single_push in *. rewrite (single_push_bit (is_white_turn b) s Hrange) in *.
    rewrite (double_push_bit (is_white_turn b) s Hrange Hh) in *. rewrite !ctz64_bit.
    assert (Ht : fwd2 (is_white_turn b) s < 64) by (unfold fwd2, home_rank in *; destruct (is_white_turn b); lia).
    unfold all_occ in Hf2. rewrite all_occ_total in Hf2. apply land_bit_free in Hf2.
    apply quiet_both; try assumption. apply is_ep_capture_samefile. cbn [tri from to].
    apply (fwd_file (is_white_turn b) s _ Hrange). right. now split.
  - (* castling, white queen side *)
    destruct (tables_movegen_elim T MK) as (_ & _ & _ & _ & Q & _).
    unfold all_occ in Hf. rewrite all_occ_total, Q in Hf.
    apply quiet_both; [unfold C1; lia| |].
    + apply (land_0_testbit _ _ C1 Hf). reflexivity.
    + apply (is_ep_capture_nonpawn _ _ White King); [|discriminate]. cbn [tri from].
      destruct (rights_wf_elim b Hr) as (R & _). destruct (R Hq) as [_ Hk].
      rewrite get_abs by (unfold E1; lia). apply cell_of_iff; assumption.
  - destruct (tables_movegen_elim T MK) as (_ & _ & _ & _ & _ & Q & _).
    unfold all_occ in Hf. rewrite all_occ_total, Q in Hf.
    apply quiet_both; [unfold G1; lia| |].
    + apply (land_0_testbit _ _ G1 Hf). reflexivity.
    + apply (is_ep_capture_nonpawn _ _ White King); [|discriminate]. cbn [tri from].
      destruct (rights_wf_elim b Hr) as (_ & R & _). destruct (R Hq) as [_ Hk].
      rewrite get_abs by (unfold E1; lia). apply cell_of_iff; assumption.
  - destruct (tables_movegen_elim T MK) as (_ & _ & _ & _ & _ & _ & Q & _).
    unfold all_occ in Hf. rewrite all_occ_total, Q in Hf.
    apply quiet_both; [unfold C8; lia| |].
    + apply (land_0_testbit _ _ C8 Hf). reflexivity.
    + apply (is_ep_capture_nonpawn _ _ Black King); [|discriminate]. cbn [tri from].
      destruct (rights_wf_elim b Hr) as (_ & _ & R & _). destruct (R Hq) as [_ Hk].
      rewrite get_abs by (unfold E8; lia). apply cell_of_iff; assumption.
  - destruct (tables_movegen_elim T MK) as (_ & _ & _ & _ & _ & _ & _ & Q & _).
    unfold all_occ in Hf. rewrite all_occ_total, Q in Hf.
    apply quiet_both; [unfold G8; lia| |].
    + apply (land_0_testbit _ _ G8 Hf). reflexivity.
    + apply (is_ep_capture_nonpawn _ _ Black King); [|discriminate]. cbn [tri from].
      destruct (rights_wf_elim b Hr) as (_ & _ & _ & R). destruct (R Hq) as [_ Hk].
      rewrite get_abs by (unfold E8; lia). apply cell_of_iff; assumption.
Qed.

End Noisy.

(* castling moves are never noisy *)
Lemma castle_quiet T b m : tables_movegen_ok T = true ->
  In m (castle_moves T b (N.lor (full_occ (active b)) (full_occ (passive b)))) -> noisy m = false.
Proof.
  intros MK. destruct (tables_movegen_elim T MK) as (_ & _ & _ & _ & Q1 & Q2 & Q3 & Q4 & _).
  unfold castle_moves. rewrite Q1, Q2, Q3, Q4, !nz_land_bits.
  change (bits_of 1008806316530991104) with [57; 58; 59]. change (bits_of 6917529027641081856) with [61; 62].
  change (bits_of 14) with [1; 2; 3]. change (bits_of 96) with [5; 6]. cbn [existsb].
  rewrite !N.lor_spec.
  destruct (is_white_turn b); intros H; apply in_app_or in H as [H|H];
    match type of H with In _ (if ?c then _ else _) => destruct c eqn:E; [|destruct H] end;
    rewrite make_move_false in H; destruct H as [<-|[]]; rewrite noisy_mk_noep;
    rewrite !andb_true_iff, !negb_true_iff, !orb_false_iff in E; unfold C1, G1, C8, G8;
    change (NO_PIECE =? NO_PIECE) with true; cbn [negb]; rewrite orb_false_r; tauto.
Qed.

(* ================================================================== *)
(* 8. the legality filter                                              *)
(* ================================================================== *)

Lemma make_turn b m b' : make b m = Some b' -> turn b' = opposite (turn b).
Proof.
  unfold make. cbv zeta.
  match goal with |- context [match ?x with Some _ => _ | None => None end] => destruct x as [[a p]|] end; [|discriminate].
  intros [= <-]. destruct (is_white_turn b); reflexivity.
Qed.

Lemma col_of_opposite n : n < 2 -> col_of (opposite n) = opp (col_of n).
Proof. intros H. assert (E : n = 0 \/ n = 1) by lia. destruct E as [-> | ->]; reflexivity. Qed.

Section Legal.
Variable T : Tables.t.
Hypothesis OK : tables_attacks_ok T = true.
Hypothesis MK : tables_movegen_ok T = true.
Variable b : board.
Hypothesis Hwf : wf b = true.
Hypothesis Hr : rights_wf b = true.
Hypothesis Hep : ep_bits_ok b = true.
(* property C02 (make = apply on the abstraction, and make keeps the board well-formed), proved in a sibling file *)
Hypothesis Hmake : forall m, In m (gen_pseudo T b) ->
  exists b', make b m = Some b' /\ wf b' = true /\ abs b' = Rules.apply (abs b) (uci_of m).

Lemma legal_bridge m : In m (gen_pseudo T b) -> is_move_legal T b m = legal (abs b) (uci_of m).
Proof.
  intros Hm. destruct (Hmake m Hm) as (b' & E & W & A). unfold is_move_legal, legal. rewrite E.
  rewrite (is_valid_spec T OK b' W), <- A. f_equal. f_equal.
  rewrite !to_move_abs, (make_turn b m b' E), col_of_opposite by (now apply wf_turn). apply opp_opp.
Qed.

Theorem legal_members u : In u (map uci_of (gen_legal T b)) <-> In u (legal_moves (abs b)).
Proof.
  unfold gen_legal, legal_moves. rewrite in_map_iff, filter_In. split.
  - intros (m & <- & Hm). apply filter_In in Hm as [Hm Hl]. split.
    + apply (C01_pseudo_members T OK MK b Hwf Hr Hep). now apply in_map.
    + now rewrite <- legal_bridge.
  - intros [Hp Hl]. apply (C01_pseudo_members T OK MK b Hwf Hr Hep) in Hp. apply in_map_iff in Hp as (m & <- & Hm).
    exists m. split; [reflexivity|]. apply filter_In. split; [assumption|]. now rewrite legal_bridge.
Qed.

Theorem NoDup_legal : NoDup (map uci_of (gen_legal T b)).
Proof. unfold gen_legal. apply NoDup_map_filter. now apply NoDup_pseudo. Qed.

Theorem legal_nil : gen_legal T b = [] <-> legal_moves (abs b) = [].
Proof.
  rewrite !nil_iff_no_member. split.
  - intros H u Hu. apply legal_members in Hu. apply in_map_iff in Hu as (m & _ & Hm). now apply (H m).
  - intros H m Hm. apply (H (uci_of m)). apply legal_members. now apply in_map.
Qed.

End Legal.

(* ================================================================== *)
(* 9. a legal position of the rules satisfies the board-side conditions *)
(* ================================================================== *)

Lemma is_piece_abs b sq c k : wf b = true -> sq < 64 ->
  is_piece (abs b) (Z.of_N sq) c k = N.testbit (bb_of b c k) sq.
Proof.
  intros Hwf Hs. unfold is_piece. rewrite get_abs by assumption.
  destruct (cell_of b sq) as [[c' k']|] eqn:E.
  - destruct (piece_eq_dec (c, k) (c', k')) as [Eq|Hne].
    + injection Eq as <- <-. rewrite color_eqb_refl. apply cell_of_some_bit in E. rewrite E.
      now destruct k.
    + apply cell_of_some_bit in E. rewrite (bb_disjoint b c' k' c k sq Hwf) by (assumption || congruence).
      destruct (color_eqb c c') eqn:Ec; [|reflexivity]. apply color_eqb_eq in Ec. subst c'.
      destruct (kind_eqb k k') eqn:Ek; [|reflexivity]. apply kind_eqb_eq in Ek. subst k'. congruence.
  - symmetry. now apply cell_of_none.
Qed.

Lemma right_ok (r kb rb : bool) : negb r || kb && rb = true -> negb r || rb && kb = true.
Proof. destruct r, kb, rb; auto. Qed.

Lemma row2_range e : (rowZ (Z.of_N e) = 2)%Z -> (16 <=? e) && (e <? 24) = true.
Proof. intros H. apply rowZ_range in H; lia. Qed.
Lemma row5_range e : (rowZ (Z.of_N e) = 5)%Z -> (40 <=? e) && (e <? 48) = true.
Proof. intros H. apply rowZ_range in H; lia. Qed.
Lemma zplus8 e : (Z.of_N e + 8 * 1)%Z = Z.of_N (e + 8).
Proof. lia. Qed.
Lemma zminus8 e : 8 <= e -> (Z.of_N e + 8 * -1)%Z = Z.of_N (e - 8).
Proof. lia. Qed.
Lemma lt_40_8 e : (40 <=? e) && (e <? 48) = true -> 8 <= e /\ e - 8 < 64.
Proof. lia. Qed.
Lemma lt_16_8 e : (16 <=? e) && (e <? 24) = true -> e + 8 < 64.
Proof. lia. Qed.

Lemma legal_pos_elim p : legal_pos p = true ->
  (negb (wk p) || (is_piece p 60 White King && is_piece p 63 White Rook) = true) /\
  (negb (wq p) || (is_piece p 60 White King && is_piece p 56 White Rook) = true) /\
  (negb (bk p) || (is_piece p 4 Black King && is_piece p 7 Black Rook) = true) /\
  (negb (bq p) || (is_piece p 4 Black King && is_piece p 0 Black Rook) = true) /\
  ep_consistent p = true.
Proof. unfold legal_pos. rewrite !andb_true_iff. tauto. Qed.

Lemma legal_pos_rights b : wf b = true -> legal_pos (abs b) = true -> rights_wf b = true.
Proof.
  intros Hwf H. apply legal_pos_elim in H. destruct H as (Rwk & Rwq & Rbk & Rbq & _).
  pose proof (is_piece_abs b 60 White King Hwf eq_refl) as P60.
    pose proof (is_piece_abs b 63 White Rook Hwf eq_refl) as P63.
    pose proof (is_piece_abs b 56 White Rook Hwf eq_refl) as P56.
    pose proof (is_piece_abs b 4 Black King Hwf eq_refl) as P4.
    pose proof (is_piece_abs b 7 Black Rook Hwf eq_refl) as P7.
    pose proof (is_piece_abs b 0 Black Rook Hwf eq_refl) as P0.
    cbn [Z.of_N] in P60, P63, P56, P4, P7, P0. rewrite P60, P63 in Rwk. rewrite P60, P56 in Rwq.
    rewrite P4, P7 in Rbk. rewrite P4, P0 in Rbq.
    unfold rights_wf. rewrite !andb_true_iff. repeat split; apply right_ok; assumption.
Qed.

Lemma ep_consistent_bits b : wf b = true -> ep_consistent (abs b) = true -> ep_bits_ok b = true.
Proof.
  intros Hwf Hep. unfold ep_consistent in Hep. unfold ep_bits_ok. fold (total_occ b).
    unfold abs in Hep at 1. cbn [epsq] in Hep.
    destruct (N.eqb_spec (ep b) 0) as [E0|Hne]; [reflexivity|]. cbn [orb].
    pose proof (wf_unpack b Hwf) as (_ & _ & _ & _ & _ & Hepr & _).
    rewrite to_move_abs in Hep. unfold col_of, WHITE in *.
    rewrite !andb_true_iff in Hep. destruct Hep as (((Hrow & Hp) & He) & _).
    apply Z.eqb_eq in Hrow. rewrite (total_occ_empty b (ep b) Hepr), He. cbn [negb andb].
    destruct (turn b =? 0); cbn [opp forward] in Hrow, Hp.
    + apply row2_range in Hrow. rewrite sq_of_shift, zplus8 in Hp.
      rewrite is_piece_abs in Hp by (assumption || now apply lt_16_8). cbn [bb_of pside pbb] in Hp.
      now rewrite Hp, Hrow.
    + apply row5_range in Hrow. destruct (lt_40_8 _ Hrow) as [H8 H64]. rewrite sq_of_shift, zminus8 in Hp by assumption.
      rewrite is_piece_abs in Hp by assumption. cbn [bb_of pside pbb] in Hp.
      now rewrite Hp, Hrow.
Qed.

Theorem legal_pos_conditions b : wf b = true -> legal_pos (abs b) = true ->
  rights_wf b = true /\ ep_bits_ok b = true.
Proof.
  intros Hwf H. split; [now apply legal_pos_rights|]. apply ep_consistent_bits; [assumption|].
  now apply legal_pos_elim in H.
Qed.

(* ================================================================== *)
(* 10. the statements of property C01                                  *)
(* ================================================================== *)

Lemma NoDup_app_l {A} (l1 l2 : list A) : NoDup (l1 ++ l2) -> NoDup l1.
Proof.
  induction l1 as [|a r IH]; cbn [app]; intros H; [constructor|].
  apply NoDup_cons_iff in H as [Ha Hr]. constructor; [|now apply IH].
  intros Hin. apply Ha. apply in_or_app. now left.
Qed.

Section Final.
Variable T : Tables.t.
Hypothesis OK : tables_attacks_ok T = true.
Hypothesis MK : tables_movegen_ok T = true.
Variable b : board.
Hypothesis Hwf : wf b = true.
Hypothesis Hr : rights_wf b = true.
Hypothesis Hep : ep_bits_ok b = true.

Theorem C01_pseudo_exact :
  (forall u, In u (map uci_of (gen_pseudo T b)) <-> In u (pseudo_moves (abs b))) /\
  NoDup (map uci_of (gen_pseudo T b)).
Proof. split; [now apply C01_pseudo_members|now apply NoDup_pseudo]. Qed.

Theorem C01_nonquiet_exact :
  gen_nonquiet T b = filter (fun m => is_attack m || is_promotion m) (gen_common T b false) /\
  (forall m, In m (gen_pseudo T b) ->
     (is_attack m || is_promotion m = true <-> capture_or_promotion (abs b) (uci_of m) = true)).
Proof.
  split; [exact (nonquiet_filter T MK b Hep)|]. intros m Hm.
  change (is_attack m || is_promotion m) with (noisy m). now rewrite (noisy_spec T OK MK b Hwf Hr Hep m Hm).
Qed.

(* the capture/promotion-only generator yields exactly the capture-or-promotion subset of the pseudo-legal moves *)
Theorem C01_nonquiet_members :
  (forall u, In u (map uci_of (gen_nonquiet T b)) <->
             In u (filter (capture_or_promotion (abs b)) (pseudo_moves (abs b)))) /\
  NoDup (map uci_of (gen_nonquiet T b)).
Proof.
  rewrite (nonquiet_filter T MK b Hep). split.
  - intros u. rewrite filter_In, in_map_iff. split.
    + intros (m & <- & Hm). apply filter_In in Hm as [Hm Hn].
      assert (Hp : In m (gen_pseudo T b)) by (unfold gen_pseudo; apply in_or_app; now left).
      split.
      * apply (C01_pseudo_members T OK MK b Hwf Hr Hep). now apply in_map.
      * now rewrite <- (noisy_spec T OK MK b Hwf Hr Hep m Hp).
    + intros [Hu Hc]. apply (C01_pseudo_members T OK MK b Hwf Hr Hep) in Hu.
      apply in_map_iff in Hu as (m & <- & Hm). rewrite <- (noisy_spec T OK MK b Hwf Hr Hep m Hm) in Hc.
      exists m. split; [reflexivity|]. apply filter_In. split; [|assumption].
      unfold gen_pseudo in Hm. apply in_app_or in Hm as [Hm|Hm]; [assumption|].
      rewrite (castle_quiet T b m MK Hm) in Hc. discriminate.
  - apply NoDup_map_filter. pose proof (NoDup_pseudo T OK MK b Hwf Hr) as H.
    unfold gen_pseudo in H. rewrite map_app in H. now apply NoDup_app_l in H.
Qed.

Theorem C01_filter_path :
  filter (fun m => match make b m with Some b' => is_valid T b' | None => false end) (gen_pseudo T b) = gen_legal T b.
Proof. reflexivity. Qed.

(* property C02 for this board, as an explicit hypothesis *)
Hypothesis Hmake : forall m, In m (gen_pseudo T b) ->
  exists b', make b m = Some b' /\ wf b' = true /\ abs b' = Rules.apply (abs b) (uci_of m).

Theorem C01_legal_exact :
  (forall u, In u (map uci_of (gen_legal T b)) <-> In u (legal_moves (abs b))) /\
  NoDup (map uci_of (gen_legal T b)).
Proof. split; [intros u; now apply legal_members|now apply NoDup_legal]. Qed.

Theorem C01_terminal : gen_legal T b = [] <-> legal_moves (abs b) = [].
Proof. now apply legal_nil. Qed.

End Final.

(* ================================================================== *)
(* 11. the tables of the current /repo                                 *)
(* ================================================================== *)
Require Ink.Gen.Tables.

Lemma gen_tables_movegen_ok : tables_movegen_ok Ink.Gen.Tables.tables = true.
Proof. vm_compute. reflexivity. Qed.

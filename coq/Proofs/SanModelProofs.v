(* Property C14, model side: lemmas about Model/Notation.v `uci_to_pgn` (the mirror of Bitboard::uci_to_pgn).
   Part A needs nothing about move generation: shape of the result, the board left behind, the mate mark, the
   castling text.  Part B: the implementation's three-flag disambiguation table IS the standard rule.
   Part C: under named hypotheses (what C01/C02/C03 provide: the legal moves of the model are those of the rules,
   make = apply, check detection = in_check) the model output is SanSpec.san of the abstracted move. *)
Require Import Ink.Lib.Str.
Require Import NArith ZArith List Bool Lia.
Require Import Ink.Lib.Bits Ink.Model.Tables Ink.Model.Board Ink.Model.Fen Ink.Model.Notation.
Require Ink.Spec.Rules Ink.Spec.SanSpec Ink.Proofs.Abs Ink.Proofs.SanProofs.
Import ListNotations.
Open Scope N_scope.

Arguments N.add : simpl never.
Arguments N.sub : simpl never.
Arguments N.mul : simpl never.
Arguments N.div : simpl never.
Arguments N.modulo : simpl never.
Arguments N.eqb : simpl never.
Arguments N.ltb : simpl never.
Arguments N.leb : simpl never.
Arguments Z.add : simpl never.
Arguments Z.mul : simpl never.

Section ModelSan.
Variable T : Tables.t.

(* ================================================================ Part A *)
(* the pieces of the result text, named *)
Definition m_legal (b : board) : list move := filter (is_move_legal T b) (gen_pseudo T b).
Definition m_same (b : board) (r : move) : list move :=
  filter (fun m => (piece_moved m =? piece_moved r) && (dst m =? dst r)) (m_legal b).
Definition m_share_rank (b : board) (r : move) : bool :=
  existsb (fun m => (rank_of (src m) =? rank_of (src r)) && negb (file_of (src m) =? file_of (src r))) (m_same b r).
Definition m_share_file (b : board) (r : move) : bool :=
  existsb (fun m => (file_of (src m) =? file_of (src r)) && negb (rank_of (src m) =? rank_of (src r))) (m_same b r).
Definition m_others (b : board) (r : move) : bool := existsb (fun m => negb (src m =? src r)) (m_same b r).
Definition m_piece (r : move) : str :=
  if negb (piece_moved r =? PAWN) then [piece_char (piece_moved r) - 32]
  else if is_attack r then [file_char (src r)] else [].
Definition m_disamb (b : board) (r : move) : str :=
  if piece_moved r =? PAWN then (if m_share_file b r then [file_char (src r)] else [])
  else if m_share_file b r && m_share_rank b r then [file_char (src r); rank_char (src r)]
  else if m_share_file b r then [rank_char (src r)]
  else if m_others b r then [file_char (src r)]
  else [].
Definition m_promo (r : move) : str := if is_promotion r then [61; piece_char (promo r) - 32] else [].
Definition m_is_short (r : move) : bool := (piece_moved r =? KING) && (file_of (src r) =? 4) && (file_of (dst r) =? 6).
Definition m_is_long (r : move) : bool := (piece_moved r =? KING) && (file_of (src r) =? 4) && (file_of (dst r) =? 2).
Definition m_core (b : board) (r : move) : str :=
  if m_is_short r then lit "O-O"
  else if m_is_long r then lit "O-O-O"
  else m_piece r ++ m_disamb b r ++ (if is_attack r then [120] else []) ++ square_text (dst r) ++ m_promo r.
Definition m_mark (b1 : board) : str :=
  if negb (is_any_move_legal T b1 (gen_pseudo T b1)) && is_current_in_check T b1 then [35]
  else if is_current_in_check T b1 then [43] else [].

(* a successful uci_to_pgn: the move found, the successor used for the mark, the board left behind, the text *)
Lemma uci_to_pgn_inv : forall b s text ob, uci_to_pgn T b s = (inr text, ob) ->
  exists r b1,
    find_first (fun m => str_eqb (to_uci m) (trim s)) (gen_pseudo T b) = Some r /\
    make b r = Some b1 /\ is_valid T b1 = true /\ ob = unmake b1 r /\
    text = m_core b r ++ m_mark b1.
Proof.
  intros b s text ob H. unfold uci_to_pgn in H.
  destruct (find_first (fun m => str_eqb (to_uci m) (trim s)) (gen_pseudo T b)) as [r|] eqn:F; [|discriminate].
  destruct (make b r) as [b1|] eqn:M; [|discriminate].
  destruct (negb (is_valid T b1)) eqn:V; [discriminate|].
  apply negb_false_iff in V.
  injection H as Ht Ho. exists r, b1. repeat split; auto.
  rewrite <- Ht. unfold m_core, m_mark, m_is_short, m_is_long.
  destruct ((piece_moved r =? KING) && (file_of (src r) =? 4) && (file_of (dst r) =? 6)); [reflexivity|].
  destruct ((piece_moved r =? KING) && (file_of (src r) =? 4) && (file_of (dst r) =? 2)); [reflexivity|].
  rewrite <- !app_assoc. reflexivity.
Qed.

(* failures leave the argument board alone unless the move was made and taken back *)
Lemma uci_to_pgn_dne : forall b s ob, uci_to_pgn T b s = (inl MoveDoesNotExist, ob) -> ob = Some b.
Proof.
  intros b s ob H. unfold uci_to_pgn in H.
  destruct (find_first _ (gen_pseudo T b)) as [r|]; [|injection H as <-; reflexivity].
  destruct (make b r) as [b1|]; [|discriminate].
  destruct (negb (is_valid T b1)); discriminate.
Qed.

(* the board left behind, given that unmake undoes make (that is property C02's business) *)
Lemma uci_to_pgn_board : forall b s res ob,
  (forall m b1, make b m = Some b1 -> unmake b1 m = Some b) ->
  uci_to_pgn T b s = (res, ob) -> ob = Some b \/ (res = inl MoveIsNotValid /\ ob = None).
Proof.
  intros b s res ob Hum H. unfold uci_to_pgn in H.
  destruct (find_first _ (gen_pseudo T b)) as [r|]; [|injection H as _ <-; auto].
  destruct (make b r) as [b1|] eqn:M; [|injection H as <- <-; auto].
  destruct (negb (is_valid T b1)); injection H as _ <-; left; apply Hum; exact M.
Qed.

(* no + # ! ? inside the core *)
Import Ink.Spec.SanSpec Ink.Proofs.SanProofs.
Open Scope N_scope.

Lemma piece_char_cases : forall x, piece_char x = 112 \/ piece_char x = 110 \/ piece_char x = 98 \/ piece_char x = 114 \/ piece_char x = 113 \/ piece_char x = 107.
Proof.
  intros x. unfold piece_char.
  destruct (x =? PAWN); [auto|]. destruct (x =? KNIGHT); [auto|]. destruct (x =? BISHOP); [auto|].
  destruct (x =? ROOK); [auto|]. destruct (x =? QUEEN); auto 10.
Qed.

Lemma file_char_range : forall s, 97 <= file_char s <= 104.
Proof. intros. unfold file_char, file_of. assert (s mod 8 < 8) by (apply N.mod_upper_bound; lia). remember (s mod 8) as x. lia. Qed.
Lemma rank_char_range : forall s, 48 <= rank_char s <= 56.
Proof. intros. unfold rank_char, rank_of. remember (s / 8) as x. lia. Qed.

Ltac nomark_list :=
  let c := fresh "c" in let Hc := fresh "Hc" in
  intros c Hc; simpl in Hc; apply is_mark_false; repeat (destruct Hc as [<- | Hc]; [lia|]); contradiction.

Lemma m_core_nomark : forall b r, nomark (m_core b r).
Proof.
  intros b r. unfold m_core.
  destruct (m_is_short r); [intros c Hc; apply is_mark_false; simpl in Hc; cbv in Hc; intuition lia|].
  destruct (m_is_long r); [intros c Hc; apply is_mark_false; simpl in Hc; cbv in Hc; intuition lia|].
  pose proof (piece_char_cases (piece_moved r)). pose proof (piece_char_cases (promo r)).
  pose proof (file_char_range (src r)). pose proof (rank_char_range (src r)).
  repeat apply nomark_app.
  - unfold m_piece. destruct (negb _); [nomark_list|]. destruct (is_attack r); nomark_list.
  - unfold m_disamb. destruct (piece_moved r =? PAWN).
    + destruct (m_share_file b r); nomark_list.
    + destruct (m_share_file b r && m_share_rank b r); [nomark_list|].
      destruct (m_share_file b r); [nomark_list|]. destruct (m_others b r); nomark_list.
  - destruct (is_attack r); nomark_list.
  - unfold square_text. assert (dst r mod 8 < 8) by (apply N.mod_upper_bound; lia). remember (dst r mod 8) as x. remember (dst r / 8) as y. nomark_list.
  - unfold m_promo. destruct (is_promotion r); nomark_list.
Qed.

Lemma m_mark_head : forall b1, match m_mark b1 with [] => True | c :: _ => is_mark c = true end.
Proof. intros. unfold m_mark. destruct (_ && _); [reflexivity|]. destruct (is_current_in_check T b1); [reflexivity | exact I]. Qed.

(* the text splits into core and mark exactly as the reader of the spec splits it *)
Lemma model_text_split : forall b r b1, split_marks (m_core b r ++ m_mark b1) = (m_core b r, m_mark b1).
Proof. intros. apply split_marks_spec; [apply m_core_nomark | apply m_mark_head]. Qed.

Theorem model_output_shape : forall b s text ob, uci_to_pgn T b s = (inr text, ob) ->
  exists r b1,
    find_first (fun m => str_eqb (to_uci m) (trim s)) (gen_pseudo T b) = Some r /\
    make b r = Some b1 /\ is_valid T b1 = true /\ ob = unmake b1 r /\
    text = m_core b r ++ m_mark b1 /\
    split_marks text = (m_core b r, m_mark b1).
Proof.
  intros b s text ob H. destruct (uci_to_pgn_inv _ _ _ _ H) as [r [b1 [F [M [V [O E]]]]]].
  exists r, b1. repeat split; auto. rewrite E. apply model_text_split.
Qed.

(* `#` is written iff the successor has no legal reply AND is in check; `+` iff in check and some reply exists *)
Theorem model_mate_mark : forall b s text ob, uci_to_pgn T b s = (inr text, ob) ->
  exists r b1, make b r = Some b1 /\
    (snd (split_marks text) = [35] <-> (is_any_move_legal T b1 (gen_pseudo T b1) = false /\ is_current_in_check T b1 = true)) /\
    (snd (split_marks text) = [43] <-> (is_any_move_legal T b1 (gen_pseudo T b1) = true /\ is_current_in_check T b1 = true)) /\
    (snd (split_marks text) = [] <-> is_current_in_check T b1 = false).
Proof.
  intros b s text ob H. destruct (uci_to_pgn_inv _ _ _ _ H) as [r [b1 [_ [M [_ [_ ->]]]]]].
  exists r, b1. split; [exact M|]. rewrite model_text_split. cbn [snd]. unfold m_mark.
  destruct (is_any_move_legal T b1 (gen_pseudo T b1)); destruct (is_current_in_check T b1); cbn [negb andb];
    repeat split; intros; try discriminate; try tauto; try (destruct H0; discriminate).
Qed.

(* castling text iff the king goes from the e-file to the g- resp. c-file *)
Theorem model_castle_text : forall b r,
  (m_core b r = lit "O-O" <-> m_is_short r = true) /\
  (m_core b r = lit "O-O-O" <-> (m_is_short r = false /\ m_is_long r = true)).
Proof.
  intros b r.
  assert (N79 : forall l, m_is_short r = false -> m_is_long r = false -> m_core b r = 79 :: l -> False).
  { intros l Hs Hl E. unfold m_core in E. rewrite Hs, Hl in E.
    pose proof (piece_char_cases (piece_moved r)). pose proof (file_char_range (src r)). pose proof (rank_char_range (src r)).
    assert (dst r mod 8 < 8) by (apply N.mod_upper_bound; lia). remember (dst r mod 8) as x. remember (dst r / 8) as y.
    unfold m_piece, m_disamb, square_text in E.
    destruct (negb (piece_moved r =? PAWN)) eqn:Pn.
    - cbn [app] in E. injection E as E _. lia.
    - apply negb_false_iff in Pn. rewrite Pn in E.
      destruct (is_attack r); cbn [app] in E; [injection E as E _; lia|].
      destruct (m_share_file b r); cbn [app] in E; injection E as E _; lia. }
  destruct (m_is_short r) eqn:Hs.
  { assert (E : m_core b r = lit "O-O") by (unfold m_core; rewrite Hs; reflexivity). rewrite E.
    split; split; intros H; try reflexivity; try discriminate. destruct H; discriminate. }
  destruct (m_is_long r) eqn:Hl.
  { assert (E : m_core b r = lit "O-O-O") by (unfold m_core; rewrite Hs, Hl; reflexivity). rewrite E.
    split; split; intros H; try reflexivity; try discriminate; auto. }
  split; split; intros E; try discriminate; try (destruct E; discriminate); exfalso;
    (eapply N79; [reflexivity | reflexivity | exact E]).
Qed.

(* ================================================================ Part B: the three-flag table is the standard rule *)
(* the standard rule on the list of origin squares of the like pieces that can legally reach the target
   (the mover's own square may occur in the list, any number of times) *)
Definition std_disamb_srcs (s : N) (srcs : list N) : str :=
  match filter (fun x => negb (x =? s)) srcs with
  | [] => []
  | rs => if negb (existsb (fun x => file_of x =? file_of s) rs) then [file_char s]
          else if negb (existsb (fun x => rank_of x =? rank_of s) rs) then [rank_char s]
          else [file_char s; rank_char s]
  end.
(* the implementation's table *)
Definition impl_disamb_srcs (s : N) (srcs : list N) : str :=
  let share_rank := existsb (fun x => (rank_of x =? rank_of s) && negb (file_of x =? file_of s)) srcs in
  let share_file := existsb (fun x => (file_of x =? file_of s) && negb (rank_of x =? rank_of s)) srcs in
  let others := existsb (fun x => negb (x =? s)) srcs in
  if share_file && share_rank then [file_char s; rank_char s]
  else if share_file then [rank_char s]
  else if others then [file_char s]
  else [].

Lemma existsb_filter : forall (A : Type) (f g : A -> bool) l, existsb f (filter g l) = existsb (fun x => g x && f x) l.
Proof.
  induction l as [|x l IH]; [reflexivity|]. simpl. destruct (g x); simpl; rewrite IH; reflexivity.
Qed.
Lemma existsb_ext' : forall (A : Type) (f g : A -> bool) l, (forall x, f x = g x) -> existsb f l = existsb g l.
Proof. induction l as [|x l IH]; intros H; [reflexivity|]. simpl. rewrite H, IH by exact H. reflexivity. Qed.
Lemma existsb_nonempty : forall (A : Type) (g : A -> bool) l, existsb g l = match filter g l with [] => false | _ => true end.
Proof. induction l as [|x l IH]; [reflexivity|]. simpl. destruct (g x); [reflexivity | exact IH]. Qed.
Lemma existsb_weaken : forall (A : Type) (f g : A -> bool) l, (forall x, f x = true -> g x = true) -> existsb f l = true -> existsb g l = true.
Proof. intros A f g l H E. apply existsb_exists in E. destruct E as [x [Hx E]]. apply existsb_exists. eauto. Qed.

Lemma sq_file_rank : forall x s, file_of x = file_of s -> rank_of x = rank_of s -> x = s.
Proof.
  intros x s Hf Hr. unfold file_of, rank_of in *. pose proof (N.div_mod x 8). pose proof (N.div_mod s 8).
  rewrite Hf, Hr in H. rewrite <- H in H0 by lia. symmetry. apply H0. lia.
Qed.

Lemma other_same_file : forall x s, negb (x =? s) && (file_of x =? file_of s) = (file_of x =? file_of s) && negb (rank_of x =? rank_of s).
Proof.
  intros. destruct (N.eqb_spec x s) as [->|Hne]; [rewrite !N.eqb_refl; reflexivity|].
  destruct (N.eqb_spec (file_of x) (file_of s)) as [Hf|]; [|reflexivity].
  destruct (N.eqb_spec (rank_of x) (rank_of s)) as [Hr|]; [|reflexivity].
  exfalso. apply Hne. apply sq_file_rank; assumption.
Qed.
Lemma other_same_rank : forall x s, negb (x =? s) && (rank_of x =? rank_of s) = (rank_of x =? rank_of s) && negb (file_of x =? file_of s).
Proof.
  intros. destruct (N.eqb_spec x s) as [->|Hne]; [rewrite !N.eqb_refl; reflexivity|].
  destruct (N.eqb_spec (rank_of x) (rank_of s)) as [Hr|]; [|reflexivity].
  destruct (N.eqb_spec (file_of x) (file_of s)) as [Hf|]; [|reflexivity].
  exfalso. apply Hne. apply sq_file_rank; assumption.
Qed.

Theorem table_is_standard : forall s srcs, impl_disamb_srcs s srcs = std_disamb_srcs s srcs.
Proof.
  intros s srcs. unfold impl_disamb_srcs, std_disamb_srcs.
  set (rs := filter (fun x => negb (x =? s)) srcs).
  assert (Ef : existsb (fun x => file_of x =? file_of s) rs = existsb (fun x => (file_of x =? file_of s) && negb (rank_of x =? rank_of s)) srcs).
  { unfold rs. rewrite existsb_filter. apply existsb_ext'. intros x. apply other_same_file. }
  assert (Er : existsb (fun x => rank_of x =? rank_of s) rs = existsb (fun x => (rank_of x =? rank_of s) && negb (file_of x =? file_of s)) srcs).
  { unfold rs. rewrite existsb_filter. apply existsb_ext'. intros x. apply other_same_rank. }
  assert (Eo : existsb (fun x => negb (x =? s)) srcs = match rs with [] => false | _ => true end) by apply existsb_nonempty.
  assert (Wf : existsb (fun x => (file_of x =? file_of s) && negb (rank_of x =? rank_of s)) srcs = true -> existsb (fun x => negb (x =? s)) srcs = true).
  { apply existsb_weaken. intros x H. rewrite <- other_same_file in H. apply andb_true_iff in H. tauto. }
  assert (Wr : existsb (fun x => (rank_of x =? rank_of s) && negb (file_of x =? file_of s)) srcs = true -> existsb (fun x => negb (x =? s)) srcs = true).
  { apply existsb_weaken. intros x H. rewrite <- other_same_rank in H. apply andb_true_iff in H. tauto. }
  rewrite <- Ef, <- Er in *. rewrite Eo in *.
  destruct rs as [|r0 rs']; [destruct (existsb _ []); [discriminate (Wf eq_refl)|]; reflexivity|].
  destruct (existsb (fun x => file_of x =? file_of s) (r0 :: rs')); destruct (existsb (fun x => rank_of x =? rank_of s) (r0 :: rs')); reflexivity.
Qed.

(* the model's disambiguation of a non-pawn move is the standard rule on the origins of `same` *)
Lemma existsb_map : forall (A B : Type) (f : B -> bool) (g : A -> B) l, existsb f (map g l) = existsb (fun x => f (g x)) l.
Proof. induction l as [|x l IH]; [reflexivity|]. simpl. rewrite IH. reflexivity. Qed.

Theorem model_disamb_standard : forall b r, (piece_moved r =? PAWN) = false ->
  m_disamb b r = std_disamb_srcs (src r) (map src (m_same b r)).
Proof.
  intros b r Hp. rewrite <- table_is_standard. unfold m_disamb, impl_disamb_srcs, m_share_file, m_share_rank, m_others.
  rewrite Hp, !existsb_map. reflexivity.
Qed.

(* ================================================================ Part C: model output = SanSpec.san, conditionally *)
Import Ink.Spec.Rules Ink.Proofs.Abs.
Open Scope N_scope.

Lemma fileZ_of_N : forall x, fileZ (Z.of_N x) = Z.of_N (file_of x).
Proof. intros. unfold fileZ, file_of. rewrite N2Z.inj_mod. reflexivity. Qed.
Lemma rowZ_of_N : forall x, rowZ (Z.of_N x) = Z.of_N (rank_of x).
Proof. intros. unfold rowZ, rank_of. rewrite N2Z.inj_div. reflexivity. Qed.
Lemma file_chr_of_N : forall x, file_chr (Z.of_N x) = file_char x.
Proof. intros. unfold file_chr, file_char. rewrite fileZ_of_N, N2Z.id. reflexivity. Qed.
Lemma rank_chr_of_N : forall x, rank_chr (Z.of_N x) = rank_char x.
Proof. intros. unfold rank_chr, rank_char. rewrite rowZ_of_N, N2Z.id. reflexivity. Qed.
Lemma sq_text_of_N : forall x, sq_text (Z.of_N x) = square_text x.
Proof. intros. rewrite sq_text_eq, file_chr_of_N, rank_chr_of_N. reflexivity. Qed.

Lemma kind_of_inv : forall x k, kind_of x = Some k ->
  (x = 1 /\ k = Pawn) \/ (x = 2 /\ k = Knight) \/ (x = 3 /\ k = Bishop) \/ (x = 4 /\ k = Rook) \/ (x = 5 /\ k = Queen) \/ (x = 6 /\ k = King).
Proof.
  intros x k H.
  destruct x as [|[[[?|?|]|[?|?|]|]|[[?|?|]|[?|?|]|]|]]; simpl in H; try discriminate; injection H as <-; auto 10.
Qed.

Lemma upper_of_kind : forall x k, kind_of x = Some k -> piece_char x - 32 = kind_upper k.
Proof. intros x k H. apply kind_of_inv in H. repeat (destruct H as [[-> ->] | H]; [reflexivity|]). destruct H as [-> ->]. reflexivity. Qed.

(* existsb over two presentations of one set *)
Lemma existsb_same_set : forall (P1 : mv -> bool) (P2 : move -> bool) (l1 : list mv) (l2 : list move),
  (forall x, In x l1 <-> In x (map uci_of l2)) -> (forall y, In y l2 -> P1 (uci_of y) = P2 y) ->
  existsb P1 l1 = existsb P2 l2.
Proof.
  intros P1 P2 l1 l2 Hset Hp. apply eq_true_iff_eq. rewrite !existsb_exists. split.
  - intros [x [Hx Px]]. apply Hset in Hx. apply in_map_iff in Hx. destruct Hx as [y [<- Hy]]. exists y. rewrite <- Hp by exact Hy. auto.
  - intros [y [Hy Py]]. exists (uci_of y). split; [apply Hset; apply in_map; exact Hy | rewrite Hp by exact Hy; exact Py].
Qed.

Lemma find_first_Some : forall (A : Type) (f : A -> bool) l x, find_first f l = Some x -> In x l /\ f x = true.
Proof.
  induction l as [|y l IH]; intros x H; simpl in H; [discriminate|].
  destruct (f y) eqn:E; [injection H as <-; simpl; auto|]. destruct (IH _ H). simpl. auto.
Qed.

(* both rules as functions of three booleans *)
Lemma disamb_bools : forall p m,
  let R := fun r => same_piece p (from r) (from m) && (to r =? to m)%Z && negb (from r =? from m)%Z in
  disamb p m =
    if existsb R (legal_moves p) then
      if negb (existsb (fun r => R r && (fileZ (from r) =? fileZ (from m))%Z) (legal_moves p)) then [file_chr (from m)]
      else if negb (existsb (fun r => R r && (rowZ (from r) =? rowZ (from m))%Z) (legal_moves p)) then [rank_chr (from m)]
      else [file_chr (from m); rank_chr (from m)]
    else [].
Proof.
  intros p m R. unfold disamb, rivals. fold R. rewrite <- !existsb_filter. rewrite (existsb_nonempty _ R).
  destruct (filter R (legal_moves p)); reflexivity.
Qed.
Lemma std_disamb_bools : forall s (l : list move) (G : move -> bool),
  std_disamb_srcs s (map src (filter G l)) =
    let R := fun x => G x && negb (src x =? s) in
    if existsb R l then
      if negb (existsb (fun x => R x && (file_of (src x) =? file_of s)) l) then [file_char s]
      else if negb (existsb (fun x => R x && (rank_of (src x) =? rank_of s)) l) then [rank_char s]
      else [file_char s; rank_char s]
    else [].
Proof.
  intros s l G. unfold std_disamb_srcs. cbv zeta.
  assert (E : filter (fun x => negb (x =? s)) (map src (filter G l)) = map src (filter (fun x => G x && negb (src x =? s)) l)).
  { induction l as [|y l IH]; [reflexivity|]. simpl. destruct (G y); simpl; [|exact IH]. destruct (negb (src y =? s)); simpl; rewrite IH; reflexivity. }
  rewrite E. rewrite (existsb_nonempty _ (fun x => G x && negb (src x =? s))), <- !existsb_filter.
  destruct (filter (fun x => G x && negb (src x =? s)) l) as [|y t]; [reflexivity|].
  cbn [map]. change (src y :: map src t) with (map src (y :: t)). rewrite !existsb_map. reflexivity.
Qed.

Section OutputUnderGen.
Variables (b : board) (r : move) (b1 : board).
Let p := abs b.
Let m := uci_of r.

(* what the move-generation / make / check properties (C01, C02, C03) provide; each is stated for the board b (and its
   successor b1) only *)
Hypothesis H_gen : forall x, In x (legal_moves p) <-> In x (map uci_of (m_legal b)).
Hypothesis H_piece : forall y, In y (m_legal b) ->
  exists k, kind_of (piece_moved y) = Some k /\ get p (Z.of_N (src y)) = Some (to_move p, k).
Hypothesis H_attack : forall y, In y (m_legal b) -> is_attack y = is_capture p (uci_of y).
Hypothesis H_promo : forall y, In y (m_legal b) -> promo y = 0 \/ 2 <= promo y <= 5.
Hypothesis H_apply : make b r = Some b1 -> abs b1 = apply p m.
Hypothesis H_check : is_current_in_check T b1 = in_check (abs b1) (to_move (abs b1)).
Hypothesis H_reply : is_any_move_legal T b1 (gen_pseudo T b1) = match legal_moves (abs b1) with [] => false | _ => true end.

Hypothesis Hr : In r (m_legal b).
Hypothesis Hmake : make b r = Some b1.

Lemma r_legal_spec : In m (legal_moves p).
Proof. apply H_gen. apply in_map. exact Hr. Qed.

Lemma mark_agrees : m_mark b1 = check_mark p m.
Proof.
  unfold m_mark, check_mark, gives_mate, gives_check, checkmate. cbv zeta. rewrite <- (H_apply Hmake), H_reply, H_check.
  destruct (legal_moves (abs b1)); cbn [negb andb]; destruct (in_check (abs b1) (to_move (abs b1))); reflexivity.
Qed.

Lemma from_m : from m = Z.of_N (src r). Proof. reflexivity. Qed.
Lemma to_m : to m = Z.of_N (dst r). Proof. reflexivity. Qed.

Lemma castle_agrees :
  (m_is_short r = true -> is_castling p m = true /\ castle_text m = lit "O-O") /\
  (m_is_short r = false -> m_is_long r = true -> is_castling p m = true /\ castle_text m = lit "O-O-O") /\
  (m_is_short r = false -> m_is_long r = false -> is_castling p m = false).
Proof.
  destruct (H_piece r Hr) as [k [Hk Hg]]. fold m in Hg. rewrite <- from_m in Hg.
  assert (Cast : forall f, piece_moved r = KING -> file_of (src r) = 4 -> file_of (dst r) = f -> (f = 6 \/ f = 2) ->
                 is_castling p m = true /\ castle_text m = if (4 <? Z.of_N f)%Z then lit "O-O" else lit "O-O-O").
  { intros f Hp Hs Hd Hf. rewrite Hp in Hk. injection Hk as <-.
    unfold is_castling, castle_text. rewrite Hg, from_m, to_m, !fileZ_of_N, Hs, Hd. split; [|reflexivity].
    destruct Hf as [-> | ->]; reflexivity. }
  unfold m_is_short, m_is_long. split; [|split].
  - intros H. rewrite !andb_true_iff, !N.eqb_eq in H. destruct H as [[Hp Hs] Hd].
    destruct (Cast 6 Hp Hs Hd (or_introl eq_refl)) as [C1 C2]. auto.
  - intros _ H. rewrite !andb_true_iff, !N.eqb_eq in H. destruct H as [[Hp Hs] Hd].
    destruct (Cast 2 Hp Hs Hd (or_intror eq_refl)) as [C1 C2]. auto.
  - intros Hs Hl. destruct (is_castling p m) eqn:C; [exfalso | reflexivity].
    destruct (legal_facts p m r_legal_spec) as [k' [Hf [Ht [Hg' [Hpm _]]]]].
    rewrite Hg in Hg'. injection Hg' as <-.
    destruct (is_castling_inv _ _ _ Hg C) as [-> A].
    destruct (king_two_files _ _ _ _ Hpm Hf A) as [Fs [Ft _]].
    pose proof (home_row_range (to_move p)) as Hh.
    apply kind_of_inv in Hk. destruct Hk as [[_ E]|[[_ E]|[[_ E]|[[_ E]|[[_ E]|[Hk _]]]]]]; try discriminate.
    assert (F4 : file_of (src r) = 4).
    { apply N2Z.inj. rewrite <- fileZ_of_N, <- from_m, Fs. apply file_sq_of. lia. }
    assert (F62 : file_of (dst r) = 6 \/ file_of (dst r) = 2).
    { destruct Ft as [Ft|Ft]; [left|right]; apply N2Z.inj; rewrite <- fileZ_of_N, <- to_m, Ft; apply file_sq_of; lia. }
    rewrite Hk, F4 in Hs, Hl. destruct F62 as [F|F]; rewrite F in Hs, Hl; discriminate.
Qed.

(* two legal pawn moves to one square from one file start on the same square *)
Lemma pawn_same_file : forall y, In y (m_legal b) -> piece_moved r = PAWN -> piece_moved y = PAWN -> dst y = dst r ->
  file_of (src y) = file_of (src r) -> rank_of (src y) = rank_of (src r).
Proof.
  intros y Hy Pr Py Hd Hf.
  assert (Hmy : In (uci_of y) (legal_moves p)) by (apply H_gen; apply in_map; exact Hy).
  destruct (legal_facts p m r_legal_spec) as [k [Hs [_ [Hg [Hpm _]]]]].
  destruct (legal_facts p _ Hmy) as [k' [Hs' [_ [Hg' [Hpm' _]]]]].
  destruct (H_piece r Hr) as [k0 [Hk0 Hg0]]. rewrite Pr in Hk0. injection Hk0 as <-.
  destruct (H_piece y Hy) as [k1 [Hk1 Hg1]]. rewrite Py in Hk1. injection Hk1 as <-.
  fold m in Hg0. rewrite <- from_m in Hg0. rewrite Hg0 in Hg. injection Hg as <-.
  change (Z.of_N (src y)) with (from (uci_of y)) in Hg1. rewrite Hg1 in Hg'. injection Hg' as <-.
  destruct (pawn_move_inv _ _ _ _ Hpm Hs) as [_ Sh]. destruct (pawn_move_inv _ _ _ _ Hpm' Hs') as [_ Sh'].
  assert (Eto : to (uci_of y) = to m) by (unfold m, uci_of; simpl; congruence).
  assert (Ef : fileZ (from (uci_of y)) = fileZ (from m)) by (unfold m, uci_of; simpl; rewrite !fileZ_of_N; congruence).
  assert (Er : rowZ (from (uci_of y)) = rowZ (from m)).
  { set (c := to_move p) in *. pose proof (forward_range c) as Hfw.
    destruct Sh as [[Pf [_ Pr1]] | [Df [Dr _]]]; destruct Sh' as [[Pf' [_ Pr1']] | [Df' [Dr' _]]]; rewrite Eto in *; try lia.
    destruct Pr1 as [Pr1 | [Pr1 Pe]]; destruct Pr1' as [Pr1' | [Pr1' Pe']]; try lia; exfalso.
    - replace (sq_of (fileZ (from (uci_of y))) (rowZ (from (uci_of y)) + forward c)%Z) with (sq_of (fileZ (from m)) (rowZ (from m))) in Pe'
        by (f_equal; lia).
      rewrite <- sq_decomp in Pe'. unfold empty in Pe'. rewrite Hg0 in Pe'. discriminate.
    - replace (sq_of (fileZ (from m)) (rowZ (from m) + forward c)%Z) with (sq_of (fileZ (from (uci_of y))) (rowZ (from (uci_of y)))) in Pe
        by (f_equal; lia).
      rewrite <- sq_decomp in Pe. unfold empty in Pe. rewrite Hg1 in Pe. discriminate. }
  apply N2Z.inj. rewrite <- !rowZ_of_N. exact Er.
Qed.

Lemma pawn_no_share_file : piece_moved r = PAWN -> m_share_file b r = false.
Proof.
  intros Pr. unfold m_share_file. destruct (existsb _ (m_same b r)) eqn:E; [exfalso | reflexivity].
  apply existsb_exists in E. destruct E as [y [Hy E]]. unfold m_same in Hy. apply filter_In in Hy. destruct Hy as [Hy Hs].
  rewrite !andb_true_iff, !N.eqb_eq in Hs. destruct Hs as [Hp Hd].
  rewrite andb_true_iff, N.eqb_eq, negb_true_iff, N.eqb_neq in E. destruct E as [Ef Er].
  apply Er. apply pawn_same_file; auto. congruence.
Qed.

Lemma disamb_agrees : (piece_moved r =? PAWN) = false -> m_disamb b r = disamb p m.
Proof.
  intros Pn. rewrite (model_disamb_standard _ _ Pn). unfold m_same. rewrite std_disamb_bools, disamb_bools. cbv zeta.
  rewrite <- file_chr_of_N, <- rank_chr_of_N, <- from_m.
  destruct (H_piece r Hr) as [kr [Hkr Hgr]].
  assert (Rel : forall y, In y (m_legal b) ->
            same_piece p (from (uci_of y)) (from m) && (to (uci_of y) =? to m)%Z && negb (from (uci_of y) =? from m)%Z
            = (piece_moved y =? piece_moved r) && (dst y =? dst r) && negb (src y =? src r)).
  { intros y Hy. destruct (H_piece y Hy) as [ky [Hky Hgy]].
    unfold same_piece, m, uci_of. cbn [from to]. rewrite Hgy, Hgr. unfold piece_eqb. cbn [fst snd]. rewrite color_eqb_refl. cbn [andb].
    f_equal; [f_equal|].
    - apply eq_true_iff_eq. rewrite kind_eqb_eq, N.eqb_eq. split.
      + intros ->. apply kind_of_inv in Hky. apply kind_of_inv in Hkr.
        repeat (destruct Hky as [[-> Ey] | Hky]); try destruct Hky as [-> Ey]; subst kr;
          repeat (destruct Hkr as [[-> Er] | Hkr]; try discriminate); try destruct Hkr as [-> Er]; try discriminate; reflexivity.
      + intros E. rewrite E in Hky. congruence.
    - apply eq_true_iff_eq. rewrite Z.eqb_eq, N.eqb_eq. apply N2Z.inj_iff.
    - f_equal. apply eq_true_iff_eq. rewrite Z.eqb_eq, N.eqb_eq. apply N2Z.inj_iff. }
  rewrite (existsb_same_set _ (fun y => (piece_moved y =? piece_moved r) && (dst y =? dst r) && negb (src y =? src r)) _ _ H_gen Rel).
  rewrite (existsb_same_set (fun r0 => _ && (fileZ (from r0) =? fileZ (from m))%Z)
             (fun y => (piece_moved y =? piece_moved r) && (dst y =? dst r) && negb (src y =? src r) && (file_of (src y) =? file_of (src r))) _ _ H_gen).
  2:{ intros y Hy. rewrite (Rel y Hy). f_equal. unfold m, uci_of. cbn [from]. rewrite !fileZ_of_N.
      apply eq_true_iff_eq. rewrite Z.eqb_eq, N.eqb_eq. apply N2Z.inj_iff. }
  rewrite (existsb_same_set (fun r0 => _ && (rowZ (from r0) =? rowZ (from m))%Z)
             (fun y => (piece_moved y =? piece_moved r) && (dst y =? dst r) && negb (src y =? src r) && (rank_of (src y) =? rank_of (src r))) _ _ H_gen).
  2:{ intros y Hy. rewrite (Rel y Hy). f_equal. unfold m, uci_of. cbn [from]. rewrite !rowZ_of_N.
      apply eq_true_iff_eq. rewrite Z.eqb_eq, N.eqb_eq. apply N2Z.inj_iff. }
  reflexivity.
Qed.

Lemma promo_agrees : m_promo r = promo_text m.
Proof.
  unfold m_promo, promo_text, is_promotion, m, uci_of. cbn [prom].
  destruct (H_promo r Hr) as [E | E].
  - rewrite E. reflexivity.
  - assert (promo r = 2 \/ promo r = 3 \/ promo r = 4 \/ promo r = 5) as [E'|[E'|[E'|E']]] by lia; rewrite E'; reflexivity.
Qed.

Lemma core_agrees : m_core b r = body p m.
Proof.
  destruct castle_agrees as [C1 [C2 C3]].
  unfold m_core, body. destruct (m_is_short r) eqn:Hs.
  { destruct (C1 eq_refl) as [-> ->]. reflexivity. }
  destruct (m_is_long r) eqn:Hl.
  { destruct (C2 eq_refl eq_refl) as [-> ->]. reflexivity. }
  rewrite (C3 eq_refl eq_refl).
  destruct (H_piece r Hr) as [k [Hk Hg]]. fold m in Hg. rewrite <- from_m in Hg.
  pose proof (H_attack r Hr) as Ha. fold m in Ha.
  rewrite promo_agrees. rewrite to_m, sq_text_of_N. unfold capture_mark. rewrite <- Ha.
  assert (PD : m_piece r ++ m_disamb b r = letter p m ++ origin p m).
  { destruct (piece_moved r =? PAWN) eqn:Pn.
    - apply N.eqb_eq in Pn. rewrite Pn in Hk. injection Hk as <-.
      unfold m_piece, m_disamb, letter, origin. rewrite Hg, Pn, N.eqb_refl. cbn [negb].
      rewrite (pawn_no_share_file Pn), <- Ha. rewrite from_m, file_chr_of_N.
      destruct (is_attack r); reflexivity.
    - rewrite (disamb_agrees Pn). unfold m_piece, letter, origin. rewrite Pn, Hg. cbn [negb].
      rewrite (upper_of_kind _ _ Hk).
      destruct k; try reflexivity. exfalso. apply kind_of_inv in Hk.
      destruct Hk as [[E _]|[[_ E]|[[_ E]|[[_ E]|[[_ E]|[_ E]]]]]]; try discriminate. rewrite E in Pn. discriminate. }
  rewrite !app_assoc. rewrite PD. reflexivity.
Qed.

(* the model's text for the legal move r is the standard SAN of its abstraction *)
Theorem model_output_is_san : m_core b r ++ m_mark b1 = san p m.
Proof. unfold san. rewrite core_agrees, mark_agrees. reflexivity. Qed.

End OutputUnderGen.

(* the hypotheses, bundled.  gen_ok b: what C01 (move generation = rules, with the move attributes) says about b;
   succ_ok b r b1: what C02 (make = apply) and C03/C01 (check detection, existence of a legal reply) say about b1 *)
Definition gen_ok (b : board) : Prop :=
  (forall x, In x (legal_moves (abs b)) <-> In x (map uci_of (m_legal b))) /\
  (forall y, In y (m_legal b) -> exists k, kind_of (piece_moved y) = Some k /\ get (abs b) (Z.of_N (src y)) = Some (to_move (abs b), k)) /\
  (forall y, In y (m_legal b) -> is_attack y = is_capture (abs b) (uci_of y)) /\
  (forall y, In y (m_legal b) -> promo y = 0 \/ 2 <= promo y <= 5).
Definition succ_ok (b : board) (r : move) (b1 : board) : Prop :=
  abs b1 = apply (abs b) (uci_of r) /\
  is_current_in_check T b1 = in_check (abs b1) (to_move (abs b1)) /\
  is_any_move_legal T b1 (gen_pseudo T b1) = match legal_moves (abs b1) with [] => false | _ => true end.

Theorem model_uci_to_pgn_is_san : forall b s text ob,
  gen_ok b -> (forall r b1, In r (m_legal b) -> make b r = Some b1 -> succ_ok b r b1) ->
  uci_to_pgn T b s = (inr text, ob) ->
  exists r, In r (m_legal b) /\ to_uci r = trim s /\ text = san (abs b) (uci_of r).
Proof.
  intros b s text ob [G1 [G2 [G3 G4]]] Hsucc H.
  destruct (uci_to_pgn_inv _ _ _ _ H) as [r [b1 [F [M [V [_ ->]]]]]].
  apply find_first_Some in F. destruct F as [Hin Hu]. apply str_eqb_eq in Hu.
  assert (Hr : In r (m_legal b)).
  { unfold m_legal. apply filter_In. split; [exact Hin|]. unfold is_move_legal. rewrite M. exact V. }
  destruct (Hsucc r b1 Hr M) as [S1 [S2 S3]].
  exists r. split; [exact Hr|]. split; [exact Hu|].
  apply model_output_is_san; auto.
Qed.

End ModelSan.

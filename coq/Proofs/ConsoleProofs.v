(* Proofs/ConsoleProofs.v : the renderer of Model/ConsoleTx.v against the grammar of Spec/UciOut.v (property C16).
   Main results (pinned in Properties/C16.v):
     parse_render     msg_ok m -> render m = Some s -> parse_engine_line s = Some (abstract_of m)
     render_valid     msg_ok m -> render m = Some s -> engine_line s = true
     engine_infos_ok  the two Info shapes built by search.rs satisfy msg_ok
   The info case is proved for an arbitrary subset of present fields without a case split on the 2^17 subsets:
   every optional field contributes an independent piece to the text, the token list, the item list and the
   tag list. *)
Require Import Ink.Lib.Str.
Require Import NArith ZArith List Bool Lia.
Import ListNotations.
Require Import Ink.Spec.UciOut Ink.Model.ConsoleTx Ink.Proofs.ConsoleOk.
Open Scope N_scope.

Arguments N.add : simpl never.
Arguments N.sub : simpl never.
Arguments N.mul : simpl never.
Arguments N.div : simpl never.
Arguments N.modulo : simpl never.
Arguments N.eqb : simpl never.
Arguments N.ltb : simpl never.
Arguments N.leb : simpl never.
Arguments Z.add : simpl never.
Arguments Z.mul : simpl never.
Arguments lit : simpl never.

(* ------------------------------------------------------------------ strings *)
Lemma str_eqb_refl : forall a, str_eqb a a = true.
Proof. induction a as [|x a IH]; cbn [str_eqb]; [reflexivity|]. rewrite N.eqb_refl, IH. reflexivity. Qed.

Lemma str_eqb_eq : forall a b, str_eqb a b = true -> a = b.
Proof.
  induction a as [|x a IH]; destruct b as [|y b]; cbn [str_eqb]; intro H; try discriminate; [reflexivity|].
  apply andb_true_iff in H. destruct H as [H1 H2]. apply N.eqb_eq in H1. subst y. f_equal. apply IH. exact H2.
Qed.

Lemma str_eqb_neq : forall a b, a <> b -> str_eqb a b = false.
Proof. intros a b H. destruct (str_eqb a b) eqn:E; [|reflexivity]. apply str_eqb_eq in E. contradiction. Qed.

Lemma mem_str_in : forall t l, mem_str t l = true -> In t l.
Proof.
  intros t l H. unfold mem_str in H. apply existsb_exists in H. destruct H as [x [Hin Hx]].
  apply str_eqb_eq in Hx. subst x. exact Hin.
Qed.

(* a property of all key words, checked by computation *)
Lemma key_forall : forall (kw : list str) (P : str -> bool), forallb P kw = true ->
  forall t, mem_str t kw = true -> P t = true.
Proof. intros kw P H t Ht. apply mem_str_in in Ht. rewrite forallb_forall in H. apply H. exact Ht. Qed.

(* ------------------------------------------------------------------ split_on / join *)
Definition nosep (c : N) (x : str) : bool := forallb (fun y => negb (y =? c)) x.

Lemma split_on_not_nil : forall c x, split_on c x <> [].
Proof.
  intros c x. destruct x as [|y r]; cbn [split_on]; [discriminate|].
  destruct (y =? c); [discriminate|]. destruct (split_on c r); discriminate.
Qed.

Lemma split_on_app : forall c a b, split_on c (a ++ c :: b) = split_on c a ++ split_on c b.
Proof.
  intros c a b. induction a as [|y r IH]; cbn [app split_on].
  - rewrite N.eqb_refl. reflexivity.
  - destruct (y =? c); [rewrite IH; reflexivity|].
    rewrite IH. destruct (split_on c r) as [|p ps] eqn:E; [exfalso; exact (split_on_not_nil c r E)|]. reflexivity.
Qed.

Lemma split_on_nosep : forall c x, nosep c x = true -> split_on c x = [x].
Proof.
  intros c x. induction x as [|y r IH]; cbn [nosep forallb split_on]; intro H; [reflexivity|].
  apply andb_true_iff in H. destruct H as [H1 H2]. apply negb_true_iff in H1. rewrite H1.
  rewrite (IH H2). reflexivity.
Qed.

Lemma split_on_pieces_nosep : forall c x, forallb (nosep c) (split_on c x) = true.
Proof.
  intros c x. induction x as [|y r IH]; cbn [split_on]; [reflexivity|].
  destruct (y =? c) eqn:E; [cbn [forallb nosep]; exact IH|].
  destruct (split_on c r) as [|p ps]; [cbn [forallb nosep]; rewrite E; reflexivity|].
  cbn [forallb nosep] in *. rewrite E. exact IH.
Qed.

Lemma join_split : forall c x, join [c] (split_on c x) = x.
Proof.
  intros c x. induction x as [|y r IH]; cbn [split_on]; [reflexivity|].
  destruct (y =? c) eqn:E.
  - apply N.eqb_eq in E. subst y. destruct (split_on c r) as [|p ps] eqn:E2; [exfalso; exact (split_on_not_nil c r E2)|].
    cbn [join app] in *. rewrite IH. reflexivity.
  - destruct (split_on c r) as [|p ps] eqn:E2; [exfalso; exact (split_on_not_nil c r E2)|].
    destruct ps; cbn [join app] in *; rewrite <- IH; reflexivity.
Qed.

Lemma split_join : forall c l, l <> [] -> forallb (nosep c) l = true -> split_on c (join [c] l) = l.
Proof.
  intros c l. induction l as [|x r IH]; intros Hne H; [contradiction|].
  cbn [forallb] in H. apply andb_true_iff in H. destruct H as [H1 H2].
  destruct r as [|y r'].
  - cbn [join]. apply split_on_nosep. exact H1.
  - change (join [c] (x :: y :: r')) with (x ++ [c] ++ join [c] (y :: r')). cbn [app].
    rewrite split_on_app, (split_on_nosep c x H1), IH; [reflexivity|discriminate|exact H2].
Qed.

(* ------------------------------------------------------------------ decimal numbers *)
Definition all_digits (x : str) : bool := forallb is_ascii_digit x.

Lemma dec_digits_app : forall a b acc, all_digits a = true ->
  dec_digits acc (a ++ b) = match dec_digits acc a with Some v => dec_digits v b | None => None end.
Proof.
  induction a as [|c r IH]; intros b acc H; cbn [app dec_digits]; [reflexivity|].
  cbn [all_digits forallb] in H. apply andb_true_iff in H. destruct H as [H1 H2]. rewrite H1. apply IH. exact H2.
Qed.

Lemma digit_ok : forall d, d < 10 -> is_ascii_digit (48 + d) = true.
Proof. intros d H. unfold is_ascii_digit. apply andb_true_iff. split; apply N.leb_le; lia. Qed.

Lemma show_N_aux_S : forall k n acc,
  show_N_aux (S k) n acc = if n / 10 =? 0 then (48 + n mod 10) :: acc else show_N_aux k (n / 10) ((48 + n mod 10) :: acc).
Proof. reflexivity. Qed.

Lemma show_N_aux_spec : forall k n acc, n < 2 ^ N.of_nat k ->
  exists ds, show_N_aux (S k) n acc = ds ++ acc /\ ds <> [] /\ all_digits ds = true /\
             forall a, dec_digits a ds = Some (a * 10 ^ N.of_nat (length ds) + n).
Proof.
  induction k as [|k IH]; intros n acc Hn.
  - change (2 ^ N.of_nat 0) with 1 in Hn. assert (n = 0) by lia. subst n.
    exists [48]. split; [reflexivity|]. split; [discriminate|]. split; [reflexivity|]. intro a. cbn [dec_digits length].
    change (is_ascii_digit 48) with true. cbv iota. reflexivity.
  - rewrite show_N_aux_S. destruct (n / 10 =? 0) eqn:E.
    + apply N.eqb_eq in E. assert (Hlt : n < 10).
      { destruct (N.lt_ge_cases n 10) as [L|G]; [exact L|]. exfalso.
        assert (1 <= n / 10) by (apply N.div_le_lower_bound; lia). lia. }
      exists [48 + n mod 10]. rewrite (N.mod_small n 10 Hlt). split; [reflexivity|]. split; [discriminate|]. split.
      * cbn [all_digits forallb]. rewrite (digit_ok n Hlt). reflexivity.
      * intro a. cbn [dec_digits length]. rewrite (digit_ok n Hlt). f_equal.
        change (10 ^ N.of_nat 1) with 10. lia.
    + apply N.eqb_neq in E.
      assert (Hq : n / 10 < 2 ^ N.of_nat k).
      { rewrite Nat2N.inj_succ, N.pow_succ_r' in Hn.
        apply N.div_lt_upper_bound; [lia|]. lia. }
      destruct (IH (n / 10) ((48 + n mod 10) :: acc) Hq) as [ds [H1 [H2 [H3 H4]]]].
      exists (ds ++ [48 + n mod 10]). split; [|split; [|split]].
      * rewrite H1, <- app_assoc. reflexivity.
      * destruct ds; discriminate.
      * assert (Hm : n mod 10 < 10) by (apply N.mod_lt; lia).
        unfold all_digits in *. rewrite forallb_app, H3. cbn [forallb]. rewrite (digit_ok _ Hm). reflexivity.
      * intro a. rewrite dec_digits_app by exact H3. rewrite H4. cbn [dec_digits].
        assert (Hm : n mod 10 < 10) by (apply N.mod_lt; lia). rewrite (digit_ok _ Hm). f_equal.
        rewrite app_length. cbn [length]. rewrite Nat.add_1_r, Nat2N.inj_succ, N.pow_succ_r'.
        assert (Hdm : n = 10 * (n / 10) + n mod 10) by (apply N.div_mod; lia). clear - Hm Hdm. generalize dependent (10 ^ N.of_nat (Datatypes.length ds)). intro P.
        generalize dependent (n / 10). intro q. generalize dependent (n mod 10). intros m Hm Hdm.
        replace (48 + m - 48) with m by lia. rewrite Hdm. ring.
Qed.

Lemma show_N_spec : forall n, show_N n <> [] /\ all_digits (show_N n) = true /\ dec_number (show_N n) = Some n.
Proof.
  intro n. unfold show_N.
  assert (Hn : n < 2 ^ N.of_nat (N.to_nat (N.size n))).
  { rewrite N2Nat.id. apply N.size_gt. }
  destruct (show_N_aux_spec _ n [] Hn) as [ds [H1 [H2 [H3 H4]]]]. rewrite app_nil_r in H1. rewrite H1.
  split; [exact H2|]. split; [exact H3|]. unfold dec_number. destruct ds; [contradiction|]. rewrite H4. f_equal; lia.
Qed.

(* ------------------------------------------------------------------ classes of tokens *)
(* printable ASCII without the space: no separator, no line end, no (Unicode) white space *)
Definition wordc (c : N) : bool := (33 <=? c) && (c <=? 126).
Definition word (t : str) : bool := forallb wordc t.
Definition numeric_head (t : str) : bool :=
  match t with c :: _ => is_ascii_digit c || (c =? 45) | [] => false end.

Lemma wordc_range : forall c, wordc c = true -> 33 <= c /\ c <= 126.
Proof. intros c H. unfold wordc in H. apply andb_true_iff in H. destruct H as [H1 H2]. apply N.leb_le in H1, H2. lia. Qed.

Lemma range_wordc : forall c, 33 <= c -> c <= 126 -> wordc c = true.
Proof. intros c H1 H2. unfold wordc. apply andb_true_iff. split; apply N.leb_le; assumption. Qed.

Lemma wordc_not_space : forall c, wordc c = true -> (c =? 32) = false.
Proof. intros c H. apply wordc_range in H. apply N.eqb_neq. lia. Qed.

Lemma wordc_not_eol : forall c, wordc c = true -> is_eol c = false.
Proof.
  intros c H. apply wordc_range in H. unfold is_eol. apply orb_false_iff. split; apply N.eqb_neq; lia.
Qed.

Lemma wordc_not_ws : forall c, wordc c = true -> is_whitespace c = false.
Proof.
  intros c H. apply wordc_range in H. unfold is_whitespace.
  assert (E1 : (c <=? 13) = false) by (apply N.leb_gt; lia).
  assert (E2 : (c =? 32) = false) by (apply N.eqb_neq; lia).
  assert (E3 : (c =? 133) = false) by (apply N.eqb_neq; lia).
  assert (E4 : (c =? 160) = false) by (apply N.eqb_neq; lia).
  assert (E5 : (c =? 5760) = false) by (apply N.eqb_neq; lia).
  assert (E6 : (8192 <=? c) = false) by (apply N.leb_gt; lia).
  assert (E7 : (c =? 8232) = false) by (apply N.eqb_neq; lia).
  assert (E8 : (c =? 8233) = false) by (apply N.eqb_neq; lia).
  assert (E9 : (c =? 8239) = false) by (apply N.eqb_neq; lia).
  assert (E10 : (c =? 8287) = false) by (apply N.eqb_neq; lia).
  assert (E11 : (c =? 12288) = false) by (apply N.eqb_neq; lia).
  rewrite E1, E2, E3, E4, E5, E6, E7, E8, E9, E10, E11. rewrite andb_false_r. reflexivity.
Qed.

Lemma word_nosep : forall t, word t = true -> nosep 32 t = true.
Proof.
  intros t H. unfold word, nosep in *. rewrite forallb_forall in *. intros c Hc.
  rewrite (wordc_not_space c (H c Hc)). reflexivity.
Qed.

Lemma word_single_line : forall t, word t = true -> single_line t = true.
Proof.
  intros t H. unfold word, single_line in *. rewrite forallb_forall in *. intros c Hc.
  rewrite (wordc_not_eol c (H c Hc)). reflexivity.
Qed.

Lemma word_not_ws : forall t, word t = true -> forallb (fun c => negb (is_whitespace c)) t = true.
Proof.
  intros t H. unfold word in *. rewrite forallb_forall in *. intros c Hc.
  rewrite (wordc_not_ws c (H c Hc)). reflexivity.
Qed.

Lemma digit_wordc : forall c, is_ascii_digit c = true -> wordc c = true.
Proof.
  intros c H. unfold is_ascii_digit in H. apply andb_true_iff in H. destruct H as [H1 H2].
  apply N.leb_le in H1, H2. apply range_wordc; lia.
Qed.

Lemma digits_word : forall t, all_digits t = true -> word t = true.
Proof.
  intros t H. unfold all_digits, word in *. rewrite forallb_forall in *. intros c Hc. apply digit_wordc. exact (H c Hc).
Qed.

Lemma digits_numeric_head : forall t, t <> [] -> all_digits t = true -> numeric_head t = true.
Proof.
  intros [|c r] Hne H; [contradiction|]. cbn [all_digits forallb] in H. apply andb_true_iff in H. destruct H as [H _].
  cbn [numeric_head]. rewrite H. reflexivity.
Qed.

Lemma numeric_not_info_key : forall t, numeric_head t = true -> is_info_key t = false.
Proof.
  intros t H. destruct (is_info_key t) eqn:E; [|reflexivity].
  assert (G : negb (numeric_head t) = true).
  { apply (key_forall info_keys (fun k => negb (numeric_head k))); [vm_compute; reflexivity|exact E]. }
  rewrite H in G. discriminate.
Qed.

Lemma numeric_not_option_key : forall t, numeric_head t = true -> is_option_key t = false.
Proof.
  intros t H. destruct (is_option_key t) eqn:E; [|reflexivity].
  assert (G : negb (numeric_head t) = true).
  { apply (key_forall option_keys (fun k => negb (numeric_head k))); [vm_compute; reflexivity|exact E]. }
  rewrite H in G. discriminate.
Qed.

(* ---- numbers *)
Lemma show_N_word : forall n, word (show_N n) = true.
Proof. intro n. apply digits_word. apply (show_N_spec n). Qed.

Lemma show_N_numeric : forall n, numeric_head (show_N n) = true.
Proof. intro n. destruct (show_N_spec n) as [H1 [H2 _]]. apply digits_numeric_head; assumption. Qed.

Lemma show_N_number : forall n, dec_number (show_N n) = Some n.
Proof. intro n. apply (show_N_spec n). Qed.

Lemma show_Z_spec : forall z,
  show_Z z <> [] /\ word (show_Z z) = true /\ numeric_head (show_Z z) = true /\ dec_integer (show_Z z) = Some z.
Proof.
  intro z. destruct z as [|p|p]; cbn [show_Z].
  - split; [discriminate|]. repeat split; reflexivity.
  - destruct (show_N_spec (Npos p)) as [H1 [H2 H3]].
    split; [exact H1|]. split; [apply digits_word; exact H2|]. split; [apply digits_numeric_head; assumption|].
    destruct (show_N (N.pos p)) as [|c r] eqn:E; [contradiction|].
    unfold dec_integer. cbn [all_digits forallb] in H2. apply andb_true_iff in H2. destruct H2 as [Hc _].
    assert (Hn : (c =? 45) = false).
    { unfold is_ascii_digit in Hc. apply andb_true_iff in Hc. destruct Hc as [A B]. apply N.leb_le in A, B. apply N.eqb_neq. lia. }
    rewrite Hn, H3. reflexivity.
  - destruct (show_N_spec (Npos p)) as [H1 [H2 H3]].
    split; [discriminate|]. split; [|split].
    + cbn [word forallb]. change (wordc 45) with true. apply digits_word in H2. exact H2.
    + reflexivity.
    + unfold dec_integer. change (45 =? 45) with true. cbv iota. rewrite H3. reflexivity.
Qed.

(* ---- moves *)
Lemma show_square_ok : forall s, s < 64 ->
  exists f r, show_square s = [f; r] /\ is_file_chr f = true /\ is_rank_chr r = true.
Proof.
  intros s H. exists (97 + s mod 8), (48 + (8 - s / 8)). split; [reflexivity|].
  assert (Hd : s / 8 < 8) by (apply N.div_lt_upper_bound; lia).
  assert (Hm : s mod 8 < 8) by (apply N.mod_lt; lia).
  clear H. generalize dependent (s / 8). intros q Hq. generalize dependent (s mod 8). intros m Hm.
  unfold is_file_chr, is_rank_chr. split; apply andb_true_iff; split; apply N.leb_le; lia.
Qed.

Lemma piece_fen_promo : forall x, 2 <= x -> x <= 5 -> is_promo_chr (piece_fen x) = true.
Proof.
  intros x H1 H2. assert (C : x = 2 \/ x = 3 \/ x = 4 \/ x = 5) by lia.
  destruct C as [C|[C|[C|C]]]; subst x; reflexivity.
Qed.

Lemma show_move_ok : forall m, mv_ok m = true -> is_move_text (show_move m) = true.
Proof.
  intros [[s d] p] H. unfold mv_ok in H. apply andb_true_iff in H. destruct H as [H Hp].
  apply andb_true_iff in H. destruct H as [Hs Hd]. apply N.ltb_lt in Hs, Hd.
  destruct (show_square_ok s Hs) as [f1 [r1 [E1 [F1 R1]]]]. destruct (show_square_ok d Hd) as [f2 [r2 [E2 [F2 R2]]]].
  unfold show_move. rewrite E1, E2. destruct p as [x|]; cbn [app is_move_text].
  - cbn [opt_ok] in Hp. apply andb_true_iff in Hp. destruct Hp as [A B]. apply N.leb_le in A, B.
    rewrite F1, R1, F2, R2, (piece_fen_promo x A B). reflexivity.
  - rewrite F1, R1, F2, R2. reflexivity.
Qed.

Lemma file_chr_wordc : forall c, is_file_chr c = true -> wordc c = true.
Proof.
  intros c H. unfold is_file_chr in H. apply andb_true_iff in H. destruct H as [A B]. apply N.leb_le in A, B.
  apply range_wordc; lia.
Qed.

Lemma rank_chr_wordc : forall c, is_rank_chr c = true -> wordc c = true.
Proof.
  intros c H. unfold is_rank_chr in H. apply andb_true_iff in H. destruct H as [A B]. apply N.leb_le in A, B.
  apply range_wordc; lia.
Qed.

Lemma promo_chr_wordc : forall c, is_promo_chr c = true -> wordc c = true.
Proof.
  intros c H. unfold is_promo_chr, mem_chr in H. apply existsb_exists in H. destruct H as [x [Hin Hx]].
  apply N.eqb_eq in Hx. subst x. change (lit "qrbn") with [113; 114; 98; 110] in Hin.
  cbn [In] in Hin. destruct Hin as [E|[E|[E|[E|[]]]]]; subst c; reflexivity.
Qed.

Lemma move_text_word : forall t, is_move_text t = true -> word t = true.
Proof.
  intros t H. destruct t as [|a [|b [|c [|d [|e [|g r]]]]]]; cbn [is_move_text] in H; try discriminate.
  - do 3 (apply andb_true_iff in H; destruct H as [H ?]).
    cbn [word forallb]. rewrite (file_chr_wordc a), (rank_chr_wordc b), (file_chr_wordc c), (rank_chr_wordc d) by assumption.
    reflexivity.
  - do 4 (apply andb_true_iff in H; destruct H as [H ?]).
    cbn [word forallb].
    rewrite (file_chr_wordc a), (rank_chr_wordc b), (file_chr_wordc c), (rank_chr_wordc d), (promo_chr_wordc e) by assumption.
    reflexivity.
Qed.

Lemma move_text_not_info_key : forall t, is_move_text t = true -> is_info_key t = false.
Proof.
  intros t H. destruct (is_info_key t) eqn:E; [|reflexivity].
  assert (G : negb (is_move_text t) = true).
  { apply (key_forall info_keys (fun k => negb (is_move_text k))); [vm_compute; reflexivity|exact E]. }
  rewrite H in G. discriminate.
Qed.

Lemma move_text_not_number : forall t, is_move_text t = true -> dec_number t = None.
Proof.
  intros t H. destruct t as [|a r]; [discriminate|].
  assert (Ha : is_file_chr a = true).
  { destruct r as [|b [|c [|d [|e [|g r]]]]]; cbn [is_move_text] in H; try discriminate.
    - do 3 (apply andb_true_iff in H; destruct H as [H ?]). exact H.
    - do 4 (apply andb_true_iff in H; destruct H as [H ?]). exact H. }
  unfold dec_number. cbn [dec_digits].
  assert (Hd : is_ascii_digit a = false).
  { unfold is_file_chr in Ha. apply andb_true_iff in Ha. destruct Ha as [A B]. apply N.leb_le in A.
    unfold is_ascii_digit. apply andb_false_iff. right. apply N.leb_gt. lia. }
  rewrite Hd. reflexivity.
Qed.

(* ------------------------------------------------------------------ grouping, breaking, all_some, distinct *)
Definition flat (gs : list (str * list str)) : list str := flat_map (fun g => fst g :: snd g) gs.

Lemma flat_app : forall a b, flat (a ++ b) = flat a ++ flat b.
Proof. intros a b. unfold flat. apply flat_map_app. Qed.

Lemma group_args : forall kw a x, forallb (fun t => negb (kw t)) a = true ->
  group_by_keys kw (a ++ x) = (a ++ fst (group_by_keys kw x), snd (group_by_keys kw x)).
Proof.
  intros kw a x. induction a as [|t r IH]; intro H; cbn [app group_by_keys].
  - destruct (group_by_keys kw x); reflexivity.
  - cbn [forallb] in H. apply andb_true_iff in H. destruct H as [H1 H2]. apply negb_true_iff in H1.
    rewrite (IH H2), H1. reflexivity.
Qed.

Lemma group_flat : forall kw gs,
  forallb (fun g => kw (fst g) && forallb (fun t => negb (kw t)) (snd g)) gs = true ->
  group_by_keys kw (flat gs) = ([], gs).
Proof.
  intros kw gs. induction gs as [|[k a] r IH]; intro H; [reflexivity|].
  cbn [forallb fst snd] in H. apply andb_true_iff in H. destruct H as [H1 H2].
  apply andb_true_iff in H1. destruct H1 as [Hk Ha].
  unfold flat. cbn [flat_map fst snd]. fold (flat r). cbn [app group_by_keys].
  rewrite (group_args kw a (flat r) Ha), (IH H2), Hk. cbn [fst snd]. rewrite app_nil_r. reflexivity.
Qed.

Lemma break_at_absent : forall w a, forallb (fun t => negb (str_eqb t w)) a = true -> break_at w a = (a, None).
Proof.
  intros w a. induction a as [|t r IH]; intro H; [reflexivity|].
  cbn [forallb] in H. apply andb_true_iff in H. destruct H as [H1 H2]. apply negb_true_iff in H1.
  cbn [break_at]. rewrite H1, (IH H2). reflexivity.
Qed.

Lemma break_at_first : forall w a b, forallb (fun t => negb (str_eqb t w)) a = true ->
  break_at w (a ++ w :: b) = (a, Some b).
Proof.
  intros w a b. induction a as [|t r IH]; intro H; cbn [app break_at].
  - rewrite str_eqb_refl. reflexivity.
  - cbn [forallb] in H. apply andb_true_iff in H. destruct H as [H1 H2]. apply negb_true_iff in H1.
    rewrite H1, (IH H2). reflexivity.
Qed.

Lemma all_some_map : forall (A B : Type) (f : A -> option B) (g : A -> B) (l : list A),
  (forall a, In a l -> f a = Some (g a)) -> all_some (map f l) = Some (map g l).
Proof.
  intros A B f g l. induction l as [|a r IH]; intro H; [reflexivity|].
  cbn [map all_some]. rewrite (H a (or_introl eq_refl)), IH; [reflexivity|].
  intros x Hx. apply H. right. exact Hx.
Qed.

(* strictly increasing from a lower bound *)
Fixpoint incr (lo : N) (l : list N) : Prop :=
  match l with [] => True | x :: r => lo <= x /\ incr (x + 1) r end.

Lemma incr_weaken : forall l a b, b <= a -> incr a l -> incr b l.
Proof. intros [|x r] a b H; cbn [incr]; [trivial|]. intros [H1 H2]. split; [lia|exact H2]. Qed.

Lemma incr_not_mem : forall l lo y, incr lo l -> y < lo -> mem_chr y l = false.
Proof.
  induction l as [|x r IH]; intros lo y H Hy; [reflexivity|].
  cbn [incr] in H. destruct H as [H1 H2]. unfold mem_chr. cbn [existsb].
  assert (E : (y =? x) = false) by (apply N.eqb_neq; lia). rewrite E. cbn [orb].
  apply (IH (x + 1) y H2). lia.
Qed.

Lemma incr_distinct : forall l lo, incr lo l -> distinct l = true.
Proof.
  induction l as [|x r IH]; intros lo H; [reflexivity|].
  cbn [incr] in H. destruct H as [H1 H2]. cbn [distinct].
  rewrite (incr_not_mem r (x + 1) x H2) by lia. cbn [negb andb]. exact (IH (x + 1) H2).
Qed.

Definition ot {A : Type} (t : N) (o : option A) : list N := match o with Some _ => [t] | None => [] end.

Lemma incr_ot : forall (A : Type) (o : option A) t lo l, lo <= t -> incr (t + 1) l -> incr lo (ot t o ++ l).
Proof.
  intros A o t lo l H1 H2. destruct o; cbn [ot app incr].
  - split; assumption.
  - apply (incr_weaken l (t + 1) lo); [lia|exact H2].
Qed.

(* ------------------------------------------------------------------ one optional field of `info` *)
Definition grp := (str * list str)%type.

Definition arg_ok (t : str) : bool := word t && negb (is_info_key t).
Definition key_ok (k : str) : bool := word k && is_info_key k && negb (str_eqb k (lit "string")).

(* what a present field must satisfy: its text is its argument tokens joined by single spaces, the tokens are
   words that are not keys, and the grammar reads the group back as [it] *)
Definition group_good (g : grp) (it : info_item) : Prop :=
  key_ok (fst g) = true /\ forallb arg_ok (snd g) = true /\ item_of_group (fst g) (snd g) = Some it.

Definition fld {A : Type} (k : str) (args : A -> list str) (item : A -> info_item) (o : option A) : list (grp * info_item) :=
  match o with Some a => [((k, args a), item a)] | None => [] end.

Definition ptoks (k : str) (v : option str) : list str :=
  match v with Some x => k :: out_tokens x | None => [] end.

(* type-erased view of one append_maybe call *)
Record pc := { pk : str; pv : option str; pf : list (grp * info_item) }.
Definition mk {A : Type} (k : str) (render : A -> str) (args : A -> list str) (item : A -> info_item) (o : option A) : pc :=
  {| pk := k; pv := option_map render o; pf := fld k args item o |}.

Definition pc_good (p : pc) : Prop :=
  word (pk p) = true /\
  ptoks (pk p) (pv p) = flat (map fst (pf p)) /\
  opt_ok single_line (pv p) = true /\
  Forall (fun x => group_good (fst x) (snd x)) (pf p).

Definition field_good {A : Type} (k : str) (render : A -> str) (args : A -> list str) (item : A -> info_item) (a : A) : Prop :=
  render a = join [32] (args a) /\ args a <> [] /\ forallb arg_ok (args a) = true /\ item_of_group k (args a) = Some (item a).

Lemma words_nosep : forall l, forallb arg_ok l = true -> forallb (nosep 32) l = true.
Proof.
  intros l H. rewrite forallb_forall in *. intros t Ht. specialize (H t Ht). unfold arg_ok in H.
  apply andb_true_iff in H. destruct H as [H _]. apply word_nosep. exact H.
Qed.

Lemma single_line_app : forall a b, single_line (a ++ b) = single_line a && single_line b.
Proof. intros a b. unfold single_line. apply forallb_app. Qed.

Lemma join_single_line : forall l, forallb arg_ok l = true -> single_line (join [32] l) = true.
Proof.
  induction l as [|x r IH]; intro H; [reflexivity|].
  cbn [forallb] in H. apply andb_true_iff in H. destruct H as [H1 H2].
  unfold arg_ok in H1. apply andb_true_iff in H1. destruct H1 as [Hw _].
  destruct r as [|y r']; [cbn [join]; apply word_single_line; exact Hw|].
  change (join [32] (x :: y :: r')) with (x ++ [32] ++ join [32] (y :: r')).
  rewrite !single_line_app, (word_single_line x Hw), (IH H2). reflexivity.
Qed.

Lemma mk_good : forall (A : Type) k (render : A -> str) args item (o : option A),
  key_ok k = true -> (forall a, o = Some a -> field_good k render args item a) ->
  pc_good (mk k render args item o).
Proof.
  intros A k render args item o Hk H. unfold pc_good, mk. cbn [pk pv pf].
  assert (Hw : word k = true).
  { unfold key_ok in Hk. apply andb_true_iff in Hk. destruct Hk as [Hk _]. apply andb_true_iff in Hk. apply Hk. }
  split; [exact Hw|]. destruct o as [a|]; cbn [option_map fld ptoks map flat flat_map opt_ok fst snd].
  - destruct (H a eq_refl) as [H1 [H2 [H3 H4]]]. split; [|split].
    + rewrite app_nil_r, H1. unfold out_tokens. rewrite split_join; [reflexivity|exact H2|apply words_nosep; exact H3].
    + rewrite H1. apply join_single_line. exact H3.
    + constructor; [|constructor]. unfold group_good. cbn [fst snd]. auto.
  - split; [reflexivity|]. split; [reflexivity|constructor].
Qed.

(* ---- the append_maybe chain over a list of pieces *)
Definition chain (acc : str) (ps : list pc) : str := fold_left (fun a p => append_maybe a (pk p) (pv p)) ps acc.

Lemma tokens_append_maybe : forall acc k v, word k = true ->
  out_tokens (append_maybe acc k v) = out_tokens acc ++ ptoks k v.
Proof.
  intros acc k v Hk. destruct v as [x|]; cbn [append_maybe ptoks]; [|rewrite app_nil_r; reflexivity].
  unfold out_tokens. cbn [app]. rewrite split_on_app, split_on_app, (split_on_nosep 32 k (word_nosep k Hk)). reflexivity.
Qed.

Lemma single_line_append_maybe : forall acc k v, single_line acc = true -> word k = true ->
  opt_ok single_line v = true -> single_line (append_maybe acc k v) = true.
Proof.
  intros acc k v H1 H2 H3. destruct v as [x|]; cbn [append_maybe opt_ok] in *; [|exact H1].
  rewrite !single_line_app, H1, (word_single_line k H2), H3. reflexivity.
Qed.

Lemma chain_tokens : forall ps acc, Forall pc_good ps ->
  out_tokens (chain acc ps) = out_tokens acc ++ flat (map fst (flat_map pf ps)).
Proof.
  induction ps as [|p r IH]; intros acc H; cbn [chain fold_left flat_map map]; [rewrite app_nil_r; reflexivity|].
  inversion H as [|? ? Hp Hr]; subst. destruct Hp as [Hw [Ht _]].
  fold (chain (append_maybe acc (pk p) (pv p)) r). rewrite (IH _ Hr), tokens_append_maybe by exact Hw.
  rewrite Ht, map_app, flat_app, app_assoc. reflexivity.
Qed.

Lemma chain_single_line : forall ps acc, Forall pc_good ps -> single_line acc = true -> single_line (chain acc ps) = true.
Proof.
  induction ps as [|p r IH]; intros acc H Ha; cbn [chain fold_left]; [exact Ha|].
  inversion H as [|? ? Hp Hr]; subst. destruct Hp as [Hw [_ [Hs _]]].
  fold (chain (append_maybe acc (pk p) (pv p)) r). apply IH; [exact Hr|]. apply single_line_append_maybe; assumption.
Qed.

Lemma chain_groups : forall ps, Forall pc_good ps -> Forall (fun x => group_good (fst x) (snd x)) (flat_map pf ps).
Proof.
  induction ps as [|p r IH]; intro H; cbn [flat_map]; [constructor|].
  inversion H as [|? ? Hp Hr]; subst. apply Forall_app. split; [apply Hp|apply IH; exact Hr].
Qed.

(* ---- what good groups give to the parser *)
Lemma arg_not_string : forall t, arg_ok t = true -> str_eqb t (lit "string") = false.
Proof.
  intros t H. unfold arg_ok in H. apply andb_true_iff in H. destruct H as [_ H]. apply negb_true_iff in H.
  destruct (str_eqb t (lit "string")) eqn:E; [|reflexivity]. apply str_eqb_eq in E. subst t. vm_compute in H. discriminate.
Qed.

Lemma good_no_string : forall F, Forall (fun x => group_good (fst x) (snd x)) F ->
  forallb (fun t => negb (str_eqb t (lit "string"))) (flat (map fst F)) = true.
Proof.
  induction F as [|[[k a] it] r IH]; intro H; [reflexivity|].
  inversion H as [|? ? Hg Hr]; subst. destruct Hg as [Hk [Ha _]]. cbn [fst snd] in *.
  unfold flat. cbn [map flat_map fst snd]. fold (flat (map fst r)). cbn [app forallb].
  unfold key_ok in Hk. apply andb_true_iff in Hk. destruct Hk as [_ Hk]. rewrite Hk. cbn [andb].
  rewrite forallb_app, (IH Hr), andb_true_r. rewrite forallb_forall in *. intros t Ht.
  rewrite (arg_not_string t (Ha t Ht)). reflexivity.
Qed.

Lemma good_groups_shape : forall F, Forall (fun x => group_good (fst x) (snd x)) F ->
  forallb (fun g => is_info_key (fst g) && forallb (fun t => negb (is_info_key t)) (snd g)) (map fst F) = true.
Proof.
  induction F as [|[[k a] it] r IH]; intro H; [reflexivity|].
  inversion H as [|? ? Hg Hr]; subst. destruct Hg as [Hk [Ha _]]. cbn [fst snd] in *.
  cbn [map forallb fst snd]. rewrite (IH Hr), andb_true_r.
  unfold key_ok in Hk. apply andb_true_iff in Hk. destruct Hk as [Hk _]. apply andb_true_iff in Hk. destruct Hk as [_ Hk].
  rewrite Hk. cbn [andb]. rewrite forallb_forall in *. intros t Ht. specialize (Ha t Ht). unfold arg_ok in Ha.
  apply andb_true_iff in Ha. apply Ha.
Qed.

Lemma good_items : forall F, Forall (fun x => group_good (fst x) (snd x)) F ->
  all_some (map (fun g => item_of_group (fst g) (snd g)) (map fst F)) = Some (map snd F).
Proof.
  induction F as [|[g it] r IH]; intro H; [reflexivity|].
  inversion H as [|? ? Hg Hr]; subst. destruct Hg as [_ [_ Hi]]. cbn [fst snd] in *.
  cbn [map all_some fst snd]. rewrite Hi, (IH Hr). reflexivity.
Qed.

(* the tokens after `info`: good groups, then possibly `string` and the verbatim text *)
Lemma parse_info_good : forall F (st : option str),
  Forall (fun x => group_good (fst x) (snd x)) F ->
  map snd F ++ oi IString st <> [] ->
  distinct (map item_tag (map snd F ++ oi IString st)) = true ->
  parse_info (flat (map fst F) ++ match st with Some s => lit "string" :: out_tokens s | None => [] end)
  = Some (map snd F ++ oi IString st).
Proof.
  intros F st HF Hne Hd. unfold parse_info.
  assert (Hb : break_at (lit "string") (flat (map fst F) ++ match st with Some s => lit "string" :: out_tokens s | None => [] end)
               = (flat (map fst F), option_map out_tokens st)).
  { destruct st as [s|]; cbn [option_map].
    - apply break_at_first. apply good_no_string. exact HF.
    - rewrite app_nil_r. apply break_at_absent. apply good_no_string. exact HF. }
  rewrite Hb, (group_flat is_info_key (map fst F) (good_groups_shape F HF)), (good_items F HF).
  assert (Hs : match option_map out_tokens st with Some r => [IString (untokens r)] | None => [] end = oi IString st).
  { destruct st as [s|]; cbn [option_map oi]; [|reflexivity]. unfold untokens, out_tokens. rewrite join_split. reflexivity. }
  rewrite Hs. destruct (map snd F ++ oi IString st) eqn:E; [contradiction|]. rewrite Hd. reflexivity.
Qed.

(* ------------------------------------------------------------------ the field types *)
Definition num_args (n : N) : list str := [show_N n].
Definition mv_args (m : mv) : list str := [show_move m].
Definition mvs_args (ms : list mv) : list str := map show_move ms.
Definition score_args (s : score) : list str :=
  match s with
  | Mate m => [lit "mate"; show_Z m]
  | Centipawn c => [lit "cp"; show_Z c]
  | CentipawnBounded c b => [lit "cp"; show_Z c; show_bound b]
  end.
Definition cl_args (cl : N * list mv) : list str := show_N (fst cl) :: map show_move (snd cl).

Lemma num_arg_ok : forall n, arg_ok (show_N n) = true.
Proof. intro n. unfold arg_ok. rewrite show_N_word, (numeric_not_info_key _ (show_N_numeric n)). reflexivity. Qed.

Lemma int_arg_ok : forall z, arg_ok (show_Z z) = true.
Proof.
  intro z. destruct (show_Z_spec z) as [_ [H1 [H2 _]]]. unfold arg_ok. rewrite H1, (numeric_not_info_key _ H2). reflexivity.
Qed.

Lemma move_arg_ok : forall m, mv_ok m = true -> arg_ok (show_move m) = true.
Proof.
  intros m H. apply show_move_ok in H. unfold arg_ok. rewrite (move_text_word _ H), (move_text_not_info_key _ H). reflexivity.
Qed.

Lemma move_of_show : forall m, mv_ok m = true -> move_of (show_move m) = Some (show_move m).
Proof. intros m H. unfold move_of. rewrite (show_move_ok m H). reflexivity. Qed.

Lemma moves_args_ok : forall ms, forallb mv_ok ms = true -> forallb arg_ok (map show_move ms) = true.
Proof.
  induction ms as [|m r IH]; intro H; [reflexivity|]. cbn [forallb map] in *. apply andb_true_iff in H. destruct H as [H1 H2].
  rewrite (move_arg_ok m H1), (IH H2). reflexivity.
Qed.

Lemma all_moves_show : forall l, forallb mv_ok l = true ->
  all_some (map move_of (map show_move l)) = Some (map show_move l).
Proof.
  induction l as [|x l IH]; intro H; [reflexivity|]. cbn [forallb] in H. apply andb_true_iff in H. destruct H as [H1 H2].
  cbn [map all_some]. rewrite (move_of_show x H1), (IH H2). reflexivity.
Qed.

Lemma moves_of_show : forall ms, mvs_ok ms = true -> moves_of (map show_move ms) = Some (map show_move ms).
Proof.
  intros ms H. unfold mvs_ok in H. destruct ms as [|m r]; [discriminate|].
  unfold moves_of. rewrite (all_moves_show (m :: r) H). reflexivity.
Qed.

Lemma mvs_ok_parts : forall ms, mvs_ok ms = true -> ms <> [] /\ forallb mv_ok ms = true.
Proof. intros [|m r] H; [discriminate|]. split; [discriminate|exact H]. Qed.

Lemma num_good : forall k (f : N -> info_item),
  (forall args, item_of_group k args = one_number f args) -> forall n, field_good k show_N num_args f n.
Proof.
  intros k f Hk n. unfold field_good, num_args. split; [reflexivity|]. split; [discriminate|]. split.
  - cbn [forallb]. rewrite num_arg_ok. reflexivity.
  - rewrite Hk. unfold one_number. rewrite show_N_number. reflexivity.
Qed.

Lemma hashfull_good : forall n, n <= 1000 -> field_good (lit "hashfull") show_N num_args IHashFull n.
Proof.
  intros n Hn. unfold field_good, num_args. split; [reflexivity|]. split; [discriminate|]. split.
  - cbn [forallb]. rewrite num_arg_ok. reflexivity.
  - change (item_of_group (lit "hashfull") [show_N n])
      with (match one_number IHashFull [show_N n] with
            | Some (IHashFull n) => if n <=? 1000 then Some (IHashFull n) else None
            | _ => None end).
    unfold one_number. rewrite show_N_number. cbn [option_map]. apply N.leb_le in Hn. rewrite Hn. reflexivity.
Qed.

Lemma mvs_good : forall k (f : list move_text -> info_item),
  (forall args, item_of_group k args = option_map f (moves_of args)) ->
  forall ms, mvs_ok ms = true -> field_good k move_array_to_string mvs_args (fun ms => f (map show_move ms)) ms.
Proof.
  intros k f Hk ms H. destruct (mvs_ok_parts ms H) as [Hne Hall]. unfold field_good, mvs_args. split; [reflexivity|]. split.
  - destruct ms; [contradiction|discriminate].
  - split; [apply moves_args_ok; exact Hall|]. rewrite Hk, (moves_of_show ms H). reflexivity.
Qed.

Lemma mv_good : forall m, mv_ok m = true ->
  field_good (lit "currmove") show_move mv_args (fun m => ICurrMove (show_move m)) m.
Proof.
  intros m H. unfold field_good, mv_args. split; [reflexivity|]. split; [discriminate|]. split.
  - cbn [forallb]. rewrite (move_arg_ok m H). reflexivity.
  - change (item_of_group (lit "currmove") [show_move m]) with (option_map ICurrMove (move_of (show_move m))).
    rewrite (move_of_show m H). reflexivity.
Qed.

Lemma score_good : forall s,
  field_good (lit "score") score_to_string score_args (fun s => IScore (abstract_score s)) s.
Proof.
  intro s. unfold field_good. split; [destruct s; reflexivity|]. split; [destruct s; discriminate|]. split.
  - destruct s as [c|c b|m]; cbn [score_args forallb]; rewrite int_arg_ok; try reflexivity. destruct b; reflexivity.
  - change (item_of_group (lit "score") (score_args s)) with (option_map IScore (score_of (score_args s))).
    destruct s as [c|c b|m]; cbn [score_args score_of abstract_score]; destruct (show_Z_spec c) as [_ [_ [_ H]]] || destruct (show_Z_spec m) as [_ [_ [_ H]]];
      rewrite H; try reflexivity. destruct b; reflexivity.
Qed.

Lemma cl_good : forall cl, mvs_ok (snd cl) = true ->
  field_good (lit "currline") current_line_to_string cl_args (fun cl => ICurrLine (Some (fst cl)) (map show_move (snd cl))) cl.
Proof.
  intros [n ms] H. cbn [snd] in H. destruct (mvs_ok_parts ms H) as [Hne Hall].
  unfold field_good, cl_args, current_line_to_string, move_array_to_string. cbn [fst snd]. split.
  - destruct ms as [|m r]; [contradiction|]. reflexivity.
  - split; [discriminate|]. split.
    + cbn [forallb]. rewrite num_arg_ok, (moves_args_ok ms Hall). reflexivity.
    + change (item_of_group (lit "currline") (show_N n :: map show_move ms)) with (currline_of (show_N n :: map show_move ms)).
      unfold currline_of. rewrite show_N_number, (moves_of_show ms H). reflexivity.
Qed.

(* ------------------------------------------------------------------ info *)
Definition pieces (r : info_record) : list pc :=
  [ mk (lit "depth") show_N num_args IDepth (i_depth r);
    mk (lit "seldepth") show_N num_args ISelDepth (i_selective_depth r);
    mk (lit "time") show_N num_args ITime (i_time r);
    mk (lit "nodes") show_N num_args INodes (i_nodes r);
    mk (lit "pv") move_array_to_string mvs_args (fun ms => IPv (map show_move ms)) (i_principal_variation r);
    mk (lit "multipv") show_N num_args IMultiPv (i_multi_pv r);
    mk (lit "score") score_to_string score_args (fun s => IScore (abstract_score s)) (i_score r);
    mk (lit "currmove") show_move mv_args (fun m => ICurrMove (show_move m)) (i_current_move r);
    mk (lit "currmovenumber") show_N num_args ICurrMoveNumber (i_current_move_number r);
    mk (lit "hashfull") show_N num_args IHashFull (i_hash_full r);
    mk (lit "nps") show_N num_args INps (i_nps r);
    mk (lit "tbhits") show_N num_args ITbHits (i_table_hits r);
    mk (lit "sbhits") show_N num_args ISbHits (i_shredder_table_hits r);
    mk (lit "cpuload") show_N num_args ICpuLoad (i_cpu_load r);
    mk (lit "refutation") move_array_to_string mvs_args (fun ms => IRefutation (map show_move ms)) (i_refutation r);
    mk (lit "currline") current_line_to_string cl_args
       (fun cl => ICurrLine (Some (fst cl)) (map show_move (snd cl))) (i_current_line r) ].

Lemma render_info_chain : forall r,
  render_info r = append_maybe (chain (lit "info") (pieces r)) (lit "string") (i_string r).
Proof. reflexivity. Qed.

Lemma info_ok_parts : forall r, info_ok r = true ->
  has_field r = true /\ opt_ok mvs_ok (i_principal_variation r) = true /\ opt_ok mv_ok (i_current_move r) = true /\
  opt_ok (fun n => n <=? 1000) (i_hash_full r) = true /\ opt_ok single_line (i_string r) = true /\
  opt_ok mvs_ok (i_refutation r) = true /\ opt_ok (fun cl => mvs_ok (snd cl)) (i_current_line r) = true.
Proof.
  intros r H. unfold info_ok in H. repeat (apply andb_true_iff in H; destruct H as [H ?]). repeat split; assumption.
Qed.

Lemma pieces_good : forall r, info_ok r = true -> Forall pc_good (pieces r).
Proof.
  intros r H. destruct (info_ok_parts r H) as [_ [Hpv [Hcm [Hhf [_ [Hrf Hcl]]]]]]. unfold pieces.
  repeat (apply Forall_cons || apply Forall_nil); (apply mk_good; [vm_compute; reflexivity|]); intros a Ha.
  - apply num_good. intro; reflexivity.
  - apply num_good. intro; reflexivity.
  - apply num_good. intro; reflexivity.
  - apply num_good. intro; reflexivity.
  - apply (mvs_good (lit "pv") IPv); [intro; reflexivity|]. rewrite Ha in Hpv. exact Hpv.
  - apply num_good. intro; reflexivity.
  - apply score_good.
  - apply mv_good. rewrite Ha in Hcm. exact Hcm.
  - apply num_good. intro; reflexivity.
  - apply hashfull_good. rewrite Ha in Hhf. cbn [opt_ok] in Hhf. apply N.leb_le. exact Hhf.
  - apply num_good. intro; reflexivity.
  - apply num_good. intro; reflexivity.
  - apply num_good. intro; reflexivity.
  - apply num_good. intro; reflexivity.
  - apply (mvs_good (lit "refutation") IRefutation); [intro; reflexivity|]. rewrite Ha in Hrf. exact Hrf.
  - apply cl_good. rewrite Ha in Hcl. exact Hcl.
Qed.

Lemma map_snd_fld : forall (A : Type) k (args : A -> list str) item (o : option A), map snd (fld k args item o) = oi item o.
Proof. intros A k args item o. destruct o; reflexivity. Qed.

Lemma pieces_items : forall r, map snd (flat_map pf (pieces r)) ++ oi IString (i_string r) = abstract_info r.
Proof.
  intro r. unfold pieces. cbn [flat_map mk pf]. rewrite app_nil_r, !map_app, !map_snd_fld, <- !app_assoc. reflexivity.
Qed.

Lemma tag_oi : forall (A : Type) (f : A -> info_item) t (o : option A),
  (forall a, item_tag (f a) = t) -> map item_tag (oi f o) = ot t o.
Proof. intros A f t o H. destruct o; cbn [oi map ot]; [rewrite H|]; reflexivity. Qed.

Lemma abstract_info_distinct : forall r, distinct (map item_tag (abstract_info r)) = true.
Proof.
  intro r. apply (incr_distinct _ 0). unfold abstract_info. rewrite !map_app.
  rewrite (tag_oi _ IDepth 0), (tag_oi _ ISelDepth 1), (tag_oi _ ITime 2), (tag_oi _ INodes 3),
    (tag_oi _ (fun ms => IPv (map show_move ms)) 4), (tag_oi _ IMultiPv 5), (tag_oi _ (fun s => IScore (abstract_score s)) 6),
    (tag_oi _ (fun m => ICurrMove (show_move m)) 7), (tag_oi _ ICurrMoveNumber 8), (tag_oi _ IHashFull 9), (tag_oi _ INps 10),
    (tag_oi _ ITbHits 11), (tag_oi _ ISbHits 12), (tag_oi _ ICpuLoad 13),
    (tag_oi _ (fun ms => IRefutation (map show_move ms)) 14),
    (tag_oi _ (fun cl => ICurrLine (Some (fst cl)) (map show_move (snd cl))) 15), (tag_oi _ IString 16)
    by (intro; reflexivity).
  repeat (apply incr_ot; [lia|]).
  rewrite <- (app_nil_r (ot 16 (i_string r))). apply incr_ot; [lia|]. exact I.
Qed.

Lemma oi_nil : forall (A : Type) (f : A -> info_item) (o : option A), oi f o = [] -> is_some o = false.
Proof. intros A f o H. destruct o; [discriminate|reflexivity]. Qed.

Lemma abstract_info_nonempty : forall r, has_field r = true -> abstract_info r <> [].
Proof.
  intros r H E. unfold abstract_info in E.
  repeat (apply app_eq_nil in E; let E1 := fresh "E" in destruct E as [E1 E]; apply oi_nil in E1).
  apply oi_nil in E. unfold has_field in H.
  repeat match goal with X : is_some _ = false |- _ => rewrite X in H; clear X end. discriminate.
Qed.

Theorem info_parse : forall r, info_ok r = true ->
  parse_engine_line (render_info r) = Some (OInfo (abstract_info r)).
Proof.
  intros r H. pose proof (pieces_good r H) as HP. destruct (info_ok_parts r H) as [Hf [_ [_ [_ [Hs _]]]]].
  unfold parse_engine_line. rewrite render_info_chain.
  rewrite single_line_append_maybe;
    [|apply chain_single_line; [exact HP|reflexivity]|reflexivity|exact Hs].
  rewrite tokens_append_maybe by reflexivity. rewrite (chain_tokens _ _ HP).
  change (out_tokens (lit "info")) with [lit "info"]. cbn [app].
  change (parse_tokens (lit "info" :: flat (map fst (flat_map pf (pieces r))) ++ ptoks (lit "string") (i_string r)))
    with (option_map OInfo (parse_info (flat (map fst (flat_map pf (pieces r))) ++ ptoks (lit "string") (i_string r)))).
  assert (Hp : ptoks (lit "string") (i_string r) = match i_string r with Some s => lit "string" :: out_tokens s | None => [] end)
    by reflexivity.
  rewrite Hp, (parse_info_good _ (i_string r) (chain_groups _ HP)).
  - rewrite pieces_items. reflexivity.
  - rewrite pieces_items. apply abstract_info_nonempty. exact Hf.
  - rewrite pieces_items. apply abstract_info_distinct.
Qed.

(* ------------------------------------------------------------------ lines made of solid tokens *)
(* non-empty, free of Unicode white space (hence of the separator and of line ends) *)
Definition solid (t : str) : bool := nonempty t && forallb (fun c => negb (is_whitespace c)) t.

Lemma not_ws_facts : forall c, is_whitespace c = false -> (c =? 32) = false /\ is_eol c = false.
Proof.
  intros c H. split.
  - destruct (c =? 32) eqn:E; [|reflexivity]. apply N.eqb_eq in E. subst c. discriminate.
  - unfold is_eol. destruct (c =? 10) eqn:E1; [apply N.eqb_eq in E1; subst c; discriminate|].
    destruct (c =? 13) eqn:E2; [apply N.eqb_eq in E2; subst c; discriminate|]. reflexivity.
Qed.

Lemma solid_nosep : forall t, solid t = true -> nosep 32 t = true.
Proof.
  intros t H. unfold solid in H. apply andb_true_iff in H. destruct H as [_ H]. unfold nosep.
  rewrite forallb_forall in *. intros c Hc. specialize (H c Hc). apply negb_true_iff in H.
  destruct (not_ws_facts c H) as [E _]. rewrite E. reflexivity.
Qed.

Lemma solid_single_line : forall t, solid t = true -> single_line t = true.
Proof.
  intros t H. unfold solid in H. apply andb_true_iff in H. destruct H as [_ H]. unfold single_line.
  rewrite forallb_forall in *. intros c Hc. specialize (H c Hc). apply negb_true_iff in H.
  destruct (not_ws_facts c H) as [_ E]. rewrite E. reflexivity.
Qed.

Lemma word_solid : forall t, t <> [] -> word t = true -> solid t = true.
Proof.
  intros t Hne H. unfold solid. rewrite (word_not_ws t H), andb_true_r. destruct t; [contradiction|reflexivity].
Qed.

Lemma join_cons2 : forall x y r, join [32] (x :: y :: r) = x ++ 32 :: join [32] (y :: r).
Proof. reflexivity. Qed.

Lemma solid_join_single_line : forall l, forallb solid l = true -> single_line (join [32] l) = true.
Proof.
  induction l as [|x r IH]; intro H; [reflexivity|].
  cbn [forallb] in H. apply andb_true_iff in H. destruct H as [H1 H2].
  destruct r as [|y r']; [cbn [join]; apply solid_single_line; exact H1|].
  rewrite join_cons2, single_line_app, (solid_single_line x H1). change (32 :: join [32] (y :: r')) with ([32] ++ join [32] (y :: r')).
  rewrite single_line_app, (IH H2). reflexivity.
Qed.

Lemma solid_join_tokens : forall l, l <> [] -> forallb solid l = true -> out_tokens (join [32] l) = l.
Proof.
  intros l Hne H. unfold out_tokens. apply split_join; [exact Hne|].
  rewrite forallb_forall in *. intros t Ht. apply solid_nosep. exact (H t Ht).
Qed.

Lemma tokens_line : forall l m, l <> [] -> forallb solid l = true -> parse_tokens l = Some m ->
  parse_engine_line (join [32] l) = Some m.
Proof.
  intros l m Hne H Hp. unfold parse_engine_line. rewrite (solid_join_single_line l H), (solid_join_tokens l Hne H). exact Hp.
Qed.

Lemma move_solid : forall m, mv_ok m = true -> solid (show_move m) = true.
Proof.
  intros m H. pose proof (show_move_ok m H) as Hm. apply word_solid; [|apply move_text_word; exact Hm].
  intro E. rewrite E in Hm. discriminate.
Qed.

(* ------------------------------------------------------------------ bestmove *)
Lemma best_of_move : forall m, mv_ok m = true -> best_of (show_move m) = Some (Some (show_move m)).
Proof.
  intros m H. unfold best_of. pose proof (show_move_ok m H) as Hm.
  destruct (str_eqb (show_move m) (lit "0000")) eqn:E.
  - apply str_eqb_eq in E. rewrite E in Hm. vm_compute in Hm. discriminate.
  - rewrite (move_of_show m H). reflexivity.
Qed.

Theorem bestmove_parse : forall b p, opt_ok mv_ok b = true -> opt_ok mv_ok p = true -> forall s,
  render (BestMove b p) = Some s -> parse_engine_line s = Some (OBestMove (option_map show_move b) (option_map show_move p)).
Proof.
  intros b p Hb Hp s Hs. unfold render in Hs. cbn [tx] in Hs. injection Hs as Hs. subst s.
  destruct b as [m|], p as [q|]; cbn [opt_ok option_map] in *.
  - change (lit "bestmove " ++ show_move m ++ lit " ponder " ++ show_move q)
      with (lit "bestmove" ++ [32] ++ show_move m ++ [32] ++ lit "ponder" ++ [32] ++ show_move q).
    change (lit "bestmove" ++ [32] ++ show_move m ++ [32] ++ lit "ponder" ++ [32] ++ show_move q)
      with (join [32] [lit "bestmove"; show_move m; lit "ponder"; show_move q]).
    apply (tokens_line [lit "bestmove"; show_move m; lit "ponder"; show_move q]); [discriminate| |].
    + cbn [forallb]. rewrite (move_solid m Hb), (move_solid q Hp). reflexivity.
    + change (parse_tokens [lit "bestmove"; show_move m; lit "ponder"; show_move q])
        with (match best_of (show_move m), move_of (show_move q) with
              | Some b', Some p' => Some (OBestMove b' (Some p')) | _, _ => None end).
      rewrite (best_of_move m Hb), (move_of_show q Hp). reflexivity.
  - change (lit "bestmove " ++ show_move m ++ []) with (lit "bestmove" ++ 32 :: show_move m ++ []).
    rewrite app_nil_r. change (lit "bestmove" ++ 32 :: show_move m) with (join [32] [lit "bestmove"; show_move m]).
    apply (tokens_line [lit "bestmove"; show_move m]); [discriminate| |].
    + cbn [forallb]. rewrite (move_solid m Hb). reflexivity.
    + change (parse_tokens [lit "bestmove"; show_move m])
        with (option_map (fun b' => OBestMove b' None) (best_of (show_move m))).
      rewrite (best_of_move m Hb). reflexivity.
  - change (lit "bestmove " ++ lit "0000" ++ lit " ponder " ++ show_move q)
      with (join [32] [lit "bestmove"; lit "0000"; lit "ponder"; show_move q]).
    apply (tokens_line [lit "bestmove"; lit "0000"; lit "ponder"; show_move q]); [discriminate| |].
    + cbn [forallb]. rewrite (move_solid q Hp). reflexivity.
    + change (parse_tokens [lit "bestmove"; lit "0000"; lit "ponder"; show_move q])
        with (match move_of (show_move q) with Some p' => Some (OBestMove None (Some p')) | None => None end).
      rewrite (move_of_show q Hp). reflexivity.
  - vm_compute. reflexivity.
Qed.

(* ------------------------------------------------------------------ id *)
Lemma some_token_nonempty : forall s, existsb (fun c => negb (c =? 32)) s = true ->
  existsb nonempty (split_on 32 s) = true.
Proof.
  induction s as [|c r IH]; intro H; [discriminate|]. cbn [existsb] in H. cbn [split_on].
  destruct (c =? 32) eqn:E.
  - cbn [negb orb] in H. cbn [existsb nonempty orb]. exact (IH H).
  - destruct (split_on 32 r) as [|p ps]; reflexivity.
Qed.

Lemma id_parse : forall (key : str) (k : id_kind) (s : str),
  word key = true ->
  (forall text, parse_tokens (lit "id" :: key :: text) =
                if existsb nonempty text then Some (OId k (untokens text)) else None) ->
  id_text_ok s = true ->
  parse_engine_line (lit "id" ++ 32 :: key ++ 32 :: s) = Some (OId k s).
Proof.
  intros key k s Hw Hk H. unfold id_text_ok in H. apply andb_true_iff in H. destruct H as [H1 H2].
  unfold parse_engine_line.
  assert (Hl : single_line (lit "id" ++ 32 :: key ++ 32 :: s) = true).
  { change (lit "id" ++ 32 :: key ++ 32 :: s) with (lit "id" ++ [32] ++ key ++ [32] ++ s).
    rewrite !single_line_app, (word_single_line key Hw), H1. reflexivity. }
  rewrite Hl. unfold out_tokens. rewrite split_on_app, split_on_app, (split_on_nosep 32 key (word_nosep key Hw)).
  change (split_on 32 (lit "id")) with [lit "id"]. cbn [app]. rewrite Hk, (some_token_nonempty s H2).
  unfold untokens. rewrite join_split. reflexivity.
Qed.

Theorem idname_parse : forall n s, id_text_ok n = true -> render (IdName n) = Some s ->
  parse_engine_line s = Some (OId IdKName n).
Proof.
  intros n s H Hs. unfold render in Hs. cbn [tx] in Hs. destruct (nonempty n); [|discriminate]. injection Hs as Hs. subst s.
  change (lit "id name " ++ n) with (lit "id" ++ 32 :: lit "name" ++ 32 :: n).
  apply (id_parse (lit "name") IdKName n); [reflexivity| |exact H]. intro text. reflexivity.
Qed.

Theorem idauthor_parse : forall n s, id_text_ok n = true -> render (IdAuthor n) = Some s ->
  parse_engine_line s = Some (OId IdKAuthor n).
Proof.
  intros n s H Hs. unfold render in Hs. cbn [tx] in Hs. destruct (nonempty n); [|discriminate]. injection Hs as Hs. subst s.
  change (lit "id author " ++ n) with (lit "id" ++ 32 :: lit "author" ++ 32 :: n).
  apply (id_parse (lit "author") IdKAuthor n); [reflexivity| |exact H]. intro text. reflexivity.
Qed.

(* ------------------------------------------------------------------ trim *)
Lemma trim_end_last : forall y c, is_whitespace c = false -> trim_end (y ++ [c]) = y ++ [c].
Proof.
  intros y c H. unfold trim_end. rewrite rev_app_distr. cbn [rev app trim_start]. rewrite H.
  cbn [rev]. rewrite rev_involutive. reflexivity.
Qed.

Lemma trim_end_last_space : forall y c, is_whitespace c = false -> trim_end ((y ++ [c]) ++ [32]) = y ++ [c].
Proof.
  intros y c H. unfold trim_end. rewrite !rev_app_distr. cbn [rev app trim_start].
  change (is_whitespace 32) with true. cbv iota. rewrite H. cbn [rev]. rewrite rev_involutive. reflexivity.
Qed.

Lemma solid_parts : forall t, solid t = true ->
  (exists c r, t = c :: r /\ is_whitespace c = false) /\ (exists y c, t = y ++ [c] /\ is_whitespace c = false).
Proof.
  intros t H. unfold solid in H. apply andb_true_iff in H. destruct H as [Hne H]. rewrite forallb_forall in H. split.
  - destruct t as [|c r]; [discriminate|]. exists c, r. split; [reflexivity|]. apply negb_true_iff. apply H. left. reflexivity.
  - destruct t as [|c0 r0]; [discriminate|]. destruct (exists_last (l := c0 :: r0)) as [y [c E]]; [discriminate|].
    exists y, c. split; [exact E|]. apply negb_true_iff. apply H. rewrite E. apply in_or_app. right. left. reflexivity.
Qed.

Lemma solid_join_head : forall l, l <> [] -> forallb solid l = true ->
  exists c r, join [32] l = c :: r /\ is_whitespace c = false.
Proof.
  intros [|x l] Hne H; [contradiction|]. cbn [forallb] in H. apply andb_true_iff in H. destruct H as [H1 _].
  destruct (solid_parts x H1) as [[c [r [E Hc]]] _]. subst x. destruct l as [|y l'].
  - exists c, r. split; [reflexivity|exact Hc].
  - rewrite join_cons2. exists c, (r ++ 32 :: join [32] (y :: l')). split; [reflexivity|exact Hc].
Qed.

Lemma solid_join_last : forall l, l <> [] -> forallb solid l = true ->
  exists y c, join [32] l = y ++ [c] /\ is_whitespace c = false.
Proof.
  induction l as [|x l IH]; intros Hne H; [contradiction|]. cbn [forallb] in H. apply andb_true_iff in H. destruct H as [H1 H2].
  destruct l as [|z l'].
  - cbn [join]. apply (solid_parts x H1).
  - destruct (IH ltac:(discriminate) H2) as [y [c [E Hc]]]. rewrite join_cons2, E.
    exists (x ++ 32 :: y), c. split; [rewrite <- app_assoc; reflexivity|exact Hc].
Qed.

Lemma trim_solid_join : forall l, l <> [] -> forallb solid l = true -> trim (join [32] l) = join [32] l.
Proof.
  intros l Hne H. destruct (solid_join_head l Hne H) as [c [r [E Hc]]]. destruct (solid_join_last l Hne H) as [y [d [E2 Hd]]].
  unfold trim. rewrite E. cbn [trim_start]. rewrite Hc, <- E, E2. apply trim_end_last. exact Hd.
Qed.

Lemma trim_solid_join_space : forall l, l <> [] -> forallb solid l = true -> trim (join [32] l ++ [32]) = join [32] l.
Proof.
  intros l Hne H. destruct (solid_join_head l Hne H) as [c [r [E Hc]]]. destruct (solid_join_last l Hne H) as [y [d [E2 Hd]]].
  unfold trim. rewrite E. cbn [app trim_start]. rewrite Hc. change (c :: r ++ [32]) with ((c :: r) ++ [32]).
  rewrite <- E, E2. apply trim_end_last_space. exact Hd.
Qed.

Lemma join_app : forall a b, a <> [] -> b <> [] -> join [32] (a ++ b) = join [32] a ++ 32 :: join [32] b.
Proof.
  induction a as [|x a IH]; intros b Ha Hb; [contradiction|]. destruct a as [|y a'].
  - destruct b as [|z b']; [contradiction|]. reflexivity.
  - change ((x :: y :: a') ++ b) with (x :: (y :: a') ++ b). change ((y :: a') ++ b) with (y :: a' ++ b).
    rewrite join_cons2. change (y :: a' ++ b) with ((y :: a') ++ b). rewrite (IH b ltac:(discriminate) Hb), join_cons2, <- app_assoc.
    reflexivity.
Qed.

(* ------------------------------------------------------------------ option *)
Definition opt_tokens (name ty : str) (rt : list str) : list str :=
  [lit "option"; lit "name"] ++ split_on 32 name ++ [lit "type"; ty] ++ rt.

Lemma plain_word_solid : forall stop t, plain_word stop t = true -> solid t = true /\ stop t = false.
Proof.
  intros stop t H. unfold plain_word in H. apply andb_true_iff in H. destruct H as [H H2]. apply negb_true_iff in H2.
  split; [exact H|exact H2].
Qed.

Lemma plain_text_solid : forall stop s, plain_text stop s = true ->
  forallb solid (split_on 32 s) = true /\ forallb (fun t => negb (stop t)) (split_on 32 s) = true.
Proof.
  intros stop s H. unfold plain_text in H. rewrite forallb_forall in H. split; apply forallb_forall; intros t Ht;
    destruct (plain_word_solid stop t (H t Ht)) as [A B]; [exact A|rewrite B; reflexivity].
Qed.

Lemma solid_nonempty : forall l, forallb solid l = true -> forallb nonempty l = true.
Proof.
  intros l H. rewrite forallb_forall in *. intros t Ht. specialize (H t Ht). unfold solid in H.
  apply andb_true_iff in H. apply H.
Qed.

Lemma text_value_split : forall s, forallb solid (split_on 32 s) = true -> text_value (split_on 32 s) = Some s.
Proof.
  intros s H. unfold text_value. destruct (split_on 32 s) as [|p ps] eqn:E; [exfalso; exact (split_on_not_nil 32 s E)|].
  rewrite (solid_nonempty _ H). unfold untokens. rewrite <- E, join_split. reflexivity.
Qed.

(* text of the call (before trim) as a token line *)
Lemma option_text_tokens : forall name ty rt, rt <> [] ->
  lit "option name " ++ name ++ lit " type " ++ ty ++ [32] ++ join [32] rt = join [32] (opt_tokens name ty rt).
Proof.
  intros name ty rt Hrt. unfold opt_tokens.
  assert (Hn : split_on 32 name <> []) by apply split_on_not_nil.
  rewrite (join_app [lit "option"; lit "name"]); [|discriminate|destruct (split_on 32 name); [contradiction|discriminate]].
  rewrite (join_app (split_on 32 name)); [|exact Hn|discriminate]. rewrite join_split.
  destruct rt as [|x r]; [contradiction|]. change ([lit "type"; ty] ++ x :: r) with (lit "type" :: ty :: x :: r).
  rewrite !join_cons2. change (join [32] [lit "option"; lit "name"]) with (lit "option name").
  rewrite <- !app_assoc. reflexivity.
Qed.

Lemma option_text_tokens_nil : forall name ty,
  lit "option name " ++ name ++ lit " type " ++ ty ++ [32] ++ [] = join [32] (opt_tokens name ty []) ++ [32].
Proof.
  intros name ty. unfold opt_tokens.
  assert (Hn : split_on 32 name <> []) by apply split_on_not_nil.
  rewrite (join_app [lit "option"; lit "name"]); [|discriminate|destruct (split_on 32 name); [contradiction|discriminate]].
  rewrite (join_app (split_on 32 name)); [|exact Hn|discriminate]. rewrite join_split.
  change ([lit "type"; ty] ++ []) with [lit "type"; ty]. rewrite join_cons2. change (join [32] [ty]) with ty.
  change (join [32] [lit "option"; lit "name"]) with (lit "option name").
  change (lit "option name " ++ name ++ lit " type " ++ ty ++ [32] ++ [])
    with (lit "option name" ++ 32 :: name ++ 32 :: lit "type" ++ 32 :: ty ++ [32]).
  repeat (first [rewrite <- app_assoc | progress cbn [app]]). reflexivity.
Qed.

Lemma opt_tokens_solid : forall name ty rt, option_name_ok name = true -> solid ty = true -> forallb solid rt = true ->
  forallb solid (opt_tokens name ty rt) = true.
Proof.
  intros name ty rt Hn Hty Hrt. destruct (plain_text_solid _ _ Hn) as [H1 _]. unfold opt_tokens.
  rewrite !forallb_app, H1, Hrt. cbn [forallb]. rewrite Hty. reflexivity.
Qed.

Lemma opt_tokens_parse : forall name ty rt T gs attrs,
  option_name_ok name = true -> type_of ty = Some T ->
  group_by_keys is_option_key rt = ([], gs) ->
  all_some (map (fun g => attr_of_group (fst g) (snd g)) gs) = Some attrs ->
  attrs_ok T attrs = true ->
  parse_tokens (opt_tokens name ty rt) = Some (OOption name T attrs).
Proof.
  intros name ty rt T gs attrs Hn Hty Hg Ha Hok. destruct (plain_text_solid _ _ Hn) as [H1 H2].
  unfold opt_tokens.
  change (parse_tokens ([lit "option"; lit "name"] ++ split_on 32 name ++ [lit "type"; ty] ++ rt))
    with (match break_at (lit "type") (split_on 32 name ++ lit "type" :: ty :: rt) with
          | (nm, Some (ty :: attrs)) =>
              match text_value nm, type_of ty, group_by_keys is_option_key attrs with
              | Some name, Some typ, ([], gs) =>
                  match all_some (map (fun g => attr_of_group (fst g) (snd g)) gs) with
                  | Some l => if attrs_ok typ l then Some (OOption name typ l) else None
                  | None => None
                  end
              | _, _, _ => None
              end
          | _ => None
          end).
  rewrite (break_at_first (lit "type") (split_on 32 name) (ty :: rt) H2), (text_value_split name H1), Hty, Hg, Ha, Hok.
  reflexivity.
Qed.

(* a call of tx_options whose remainder is the token list rt *)
Lemma option_line : forall name ty rt rem T gs attrs,
  option_name_ok name = true -> solid ty = true -> type_of ty = Some T -> forallb solid rt = true ->
  (rt <> [] /\ rem = join [32] rt \/ rt = [] /\ rem = []) ->
  group_by_keys is_option_key rt = ([], gs) ->
  all_some (map (fun g => attr_of_group (fst g) (snd g)) gs) = Some attrs ->
  attrs_ok T attrs = true ->
  parse_engine_line (tx_options name ty rem) = Some (OOption name T attrs).
Proof.
  intros name ty rt rem T gs attrs Hn Hs Hty Hrt Hrem Hg Ha Hok.
  pose proof (opt_tokens_solid name ty rt Hn Hs Hrt) as Hsol.
  assert (Hne : opt_tokens name ty rt <> []) by (unfold opt_tokens; discriminate).
  assert (E : tx_options name ty rem = join [32] (opt_tokens name ty rt)).
  { unfold tx_options. destruct Hrem as [[Hr E]|[Hr E]]; subst rem.
    - rewrite (option_text_tokens name ty rt Hr). apply trim_solid_join; assumption.
    - subst rt. rewrite option_text_tokens_nil. apply trim_solid_join_space; assumption. }
  rewrite E. apply (tokens_line _ _ Hne Hsol). apply (opt_tokens_parse name ty rt T gs attrs); assumption.
Qed.

Lemma int_solid : forall z, solid (show_Z z) = true.
Proof. intro z. destruct (show_Z_spec z) as [H1 [H2 _]]. apply word_solid; assumption. Qed.

Lemma int_not_option_key : forall z, is_option_key (show_Z z) = false.
Proof. intro z. destruct (show_Z_spec z) as [_ [_ [H _]]]. apply numeric_not_option_key. exact H. Qed.

Lemma text_value_one : forall t, solid t = true -> text_value [t] = Some t.
Proof.
  intros t H. unfold text_value. cbn [forallb]. unfold solid in H. apply andb_true_iff in H. destruct H as [H _]. rewrite H.
  reflexivity.
Qed.

Theorem optioncheck_parse : forall name d s, option_name_ok name = true -> render (OptionCheck name d) = Some s ->
  parse_engine_line s = Some (OOption name TCheck [ADefault (show_bool d)]).
Proof.
  intros name d s Hn Hs. unfold render in Hs. cbn [tx] in Hs. injection Hs as Hs. subst s.
  apply (option_line name (lit "check") [lit "default"; show_bool d] _ TCheck [(lit "default", [show_bool d])]);
    try exact Hn; destruct d; try reflexivity; left; split; [discriminate|reflexivity|discriminate|reflexivity].
Qed.

Theorem optionspin_parse : forall name d mn mx s, option_name_ok name = true -> render (OptionSpin name d mn mx) = Some s ->
  parse_engine_line s = Some (OOption name TSpin [ADefault (show_Z d); AMin mn; AMax mx]).
Proof.
  intros name d mn mx s Hn Hs. unfold render in Hs. cbn [tx] in Hs. injection Hs as Hs. subst s.
  destruct (show_Z_spec d) as [_ [_ [_ Hd]]]. destruct (show_Z_spec mn) as [_ [_ [_ Hmn]]]. destruct (show_Z_spec mx) as [_ [_ [_ Hmx]]].
  apply (option_line name (lit "spin") [lit "default"; show_Z d; lit "min"; show_Z mn; lit "max"; show_Z mx] _ TSpin
           [(lit "default", [show_Z d]); (lit "min", [show_Z mn]); (lit "max", [show_Z mx])]).
  - exact Hn.
  - reflexivity.
  - reflexivity.
  - cbn [forallb]. rewrite !int_solid. reflexivity.
  - left. split; [discriminate|reflexivity].
  - apply (group_flat is_option_key [(lit "default", [show_Z d]); (lit "min", [show_Z mn]); (lit "max", [show_Z mx])]).
    cbn [forallb fst snd]. rewrite !int_not_option_key. reflexivity.
  - cbn [map fst snd].
    change (attr_of_group (lit "default") [show_Z d]) with (option_map ADefault (text_value [show_Z d])).
    change (attr_of_group (lit "min") [show_Z mn]) with (option_map AMin (dec_integer (show_Z mn))).
    change (attr_of_group (lit "max") [show_Z mx]) with (option_map AMax (dec_integer (show_Z mx))).
    rewrite (text_value_one _ (int_solid d)), Hmn, Hmx. reflexivity.
  - unfold attrs_ok. cbn [forallb attr_allowed filter is_default is_min is_max length]. rewrite Hd. reflexivity.
Qed.

Theorem optionbutton_parse : forall name s, option_name_ok name = true -> render (OptionButton name) = Some s ->
  parse_engine_line s = Some (OOption name TButton []).
Proof.
  intros name s Hn Hs. unfold render in Hs. cbn [tx] in Hs. injection Hs as Hs. subst s.
  apply (option_line name (lit "button") [] [] TButton []); try exact Hn; try reflexivity. right. split; reflexivity.
Qed.

Lemma default_group : forall d, option_value_ok d = true ->
  forallb solid (split_on 32 d) = true /\ forallb (fun t => negb (is_option_key t)) (split_on 32 d) = true /\
  attr_of_group (lit "default") (split_on 32 d) = Some (ADefault d) /\
  attr_of_group (lit "var") (split_on 32 d) = Some (AVar d).
Proof.
  intros d H. destruct (plain_text_solid _ _ H) as [H1 H2]. split; [exact H1|]. split; [exact H2|].
  change (attr_of_group (lit "default") (split_on 32 d)) with (option_map ADefault (text_value (split_on 32 d))).
  change (attr_of_group (lit "var") (split_on 32 d)) with (option_map AVar (text_value (split_on 32 d))).
  rewrite (text_value_split d H1). split; reflexivity.
Qed.

Theorem optionstring_parse : forall name d s, option_name_ok name = true -> option_value_ok d = true ->
  render (OptionString name d) = Some s -> parse_engine_line s = Some (OOption name TString [ADefault d]).
Proof.
  intros name d s Hn Hd Hs. unfold render in Hs. cbn [tx] in Hs. injection Hs as Hs. subst s.
  destruct (default_group d Hd) as [H1 [H2 [H3 _]]].
  apply (option_line name (lit "string") (lit "default" :: split_on 32 d) _ TString [(lit "default", split_on 32 d)]).
  - exact Hn.
  - reflexivity.
  - reflexivity.
  - cbn [forallb]. rewrite H1. reflexivity.
  - left. split; [discriminate|].
    destruct (split_on 32 d) as [|p ps] eqn:E; [exfalso; exact (split_on_not_nil 32 d E)|].
    rewrite join_cons2, <- E, join_split. reflexivity.
  - replace (lit "default" :: split_on 32 d) with (flat [(lit "default", split_on 32 d)])
      by (unfold flat; cbn [flat_map fst snd]; rewrite app_nil_r; reflexivity).
    apply group_flat. cbn [forallb fst snd]. rewrite H2. reflexivity.
  - cbn [map fst snd all_some]. rewrite H3. reflexivity.
  - reflexivity.
Qed.

(* combo: default text, then ` var <text>` for every variant *)
Definition var_groups (vars : list str) : list (str * list str) := map (fun v => (lit "var", split_on 32 v)) vars.

Lemma vars_string_join : forall vars p, p <> [] ->
  join [32] p ++ vars_string vars = join [32] (p ++ flat (var_groups vars)).
Proof.
  induction vars as [|v r IH]; intros p Hp; cbn [vars_string var_groups map].
  - unfold flat. cbn [flat_map]. rewrite !app_nil_r. reflexivity.
  - unfold flat. cbn [flat_map fst snd]. fold (var_groups r). fold (flat (var_groups r)).
    change (lit " var " ++ v ++ vars_string r) with (32 :: lit "var" ++ 32 :: v ++ vars_string r).
    assert (E : join [32] p ++ 32 :: lit "var" ++ 32 :: v ++ vars_string r
                = join [32] (p ++ lit "var" :: split_on 32 v) ++ vars_string r).
    { rewrite (join_app p (lit "var" :: split_on 32 v) Hp ltac:(discriminate)).
      destruct (split_on 32 v) as [|q qs] eqn:E; [exfalso; exact (split_on_not_nil 32 v E)|].
      rewrite join_cons2, <- E, join_split. repeat (first [rewrite <- app_assoc | progress cbn [app]]). reflexivity. }
    rewrite E, (IH (p ++ lit "var" :: split_on 32 v)); [|destruct p; discriminate].
    rewrite <- app_assoc. reflexivity.
Qed.

Lemma var_groups_facts : forall vars, forallb option_value_ok vars = true ->
  forallb solid (flat (var_groups vars)) = true /\
  forallb (fun g => is_option_key (fst g) && forallb (fun t => negb (is_option_key t)) (snd g)) (var_groups vars) = true /\
  all_some (map (fun g => attr_of_group (fst g) (snd g)) (var_groups vars)) = Some (map AVar vars).
Proof.
  induction vars as [|v r IH]; intro H; [repeat split; reflexivity|].
  cbn [forallb] in H. apply andb_true_iff in H. destruct H as [Hv Hr]. destruct (IH Hr) as [I1 [I2 I3]].
  destruct (default_group v Hv) as [H1 [H2 [_ H4]]].
  cbn [var_groups map]. fold (var_groups r). unfold flat. cbn [flat_map fst snd]. fold (flat (var_groups r)).
  split; [|split].
  - cbn [app forallb]. rewrite forallb_app, H1, I1. reflexivity.
  - cbn [forallb fst snd]. rewrite H2, I2. reflexivity.
  - cbn [map all_some fst snd]. rewrite H4, I3. reflexivity.
Qed.

Lemma filter_vars : forall (f : opt_attr -> bool) vars, (forall v, f (AVar v) = false) -> filter f (map AVar vars) = [].
Proof. intros f vars H. induction vars as [|v r IH]; [reflexivity|]. cbn [map filter]. rewrite H. exact IH. Qed.

Lemma allowed_vars : forall vars, forallb (attr_allowed TCombo) (map AVar vars) = true.
Proof. induction vars as [|v r IH]; [reflexivity|]. cbn [map forallb attr_allowed]. exact IH. Qed.

Theorem optioncombo_parse : forall name d vars s,
  option_name_ok name = true -> option_value_ok d = true -> forallb option_value_ok vars = true ->
  render (OptionCombo name d vars) = Some s ->
  parse_engine_line s = Some (OOption name TCombo (ADefault d :: map AVar vars)).
Proof.
  intros name d vars s Hn Hd Hv Hs. unfold render in Hs. cbn [tx] in Hs. injection Hs as Hs. subst s.
  destruct (default_group d Hd) as [H1 [H2 [H3 _]]]. destruct (var_groups_facts vars Hv) as [V1 [V2 V3]].
  apply (option_line name (lit "combo") ((lit "default" :: split_on 32 d) ++ flat (var_groups vars)) _ TCombo
           ((lit "default", split_on 32 d) :: var_groups vars)).
  - exact Hn.
  - reflexivity.
  - reflexivity.
  - rewrite forallb_app. cbn [forallb]. rewrite H1, V1. reflexivity.
  - left. split; [discriminate|].
    rewrite <- (vars_string_join vars (lit "default" :: split_on 32 d)) by discriminate.
    destruct (split_on 32 d) as [|p ps] eqn:E; [exfalso; exact (split_on_not_nil 32 d E)|].
    rewrite join_cons2, <- E, join_split. repeat (first [rewrite <- app_assoc | progress cbn [app]]). reflexivity.
  - change ((lit "default" :: split_on 32 d) ++ flat (var_groups vars))
      with (flat ((lit "default", split_on 32 d) :: var_groups vars)).
    apply group_flat. cbn [forallb fst snd]. rewrite H2, V2. reflexivity.
  - cbn [map all_some fst snd]. rewrite H3, V3. reflexivity.
  - unfold attrs_ok. cbn [forallb attr_allowed filter is_default is_min is_max].
    rewrite allowed_vars, !filter_vars by (intro; reflexivity). reflexivity.
Qed.

(* ------------------------------------------------------------------ all messages *)
Theorem parse_render : forall m s, msg_ok m = true -> render m = Some s ->
  parse_engine_line s = Some (abstract_of m).
Proof.
  intros m s Hok Hs. destruct m; cbn [msg_ok abstract_of] in *.
  - apply (idname_parse name s Hok Hs).
  - apply (idauthor_parse author s Hok Hs).
  - unfold render in Hs. cbn [tx] in Hs. injection Hs as Hs. subst s. vm_compute. reflexivity.
  - unfold render in Hs. cbn [tx] in Hs. injection Hs as Hs. subst s. vm_compute. reflexivity.
  - apply andb_true_iff in Hok. destruct Hok as [Hb Hp]. apply (bestmove_parse best_move ponder_move Hb Hp s Hs).
  - unfold render in Hs. cbn [tx] in Hs. injection Hs as Hs. subst s. destruct p; vm_compute; reflexivity.
  - unfold render in Hs. cbn [tx] in Hs. injection Hs as Hs. subst s. destruct p; vm_compute; reflexivity.
  - unfold render in Hs. cbn [tx] in Hs. injection Hs as Hs. subst s. apply info_parse. exact Hok.
  - apply (optioncheck_parse name default s Hok Hs).
  - apply (optionspin_parse name default min max s Hok Hs).
  - apply andb_true_iff in Hok. destruct Hok as [Hok Hv]. apply andb_true_iff in Hok. destruct Hok as [Hn Hd].
    apply (optioncombo_parse name default vars s Hn Hd Hv Hs).
  - apply (optionbutton_parse name s Hok Hs).
  - apply andb_true_iff in Hok. destruct Hok as [Hn Hd]. apply (optionstring_parse name default s Hn Hd Hs).
  - unfold render in Hs. cbn [tx] in Hs. discriminate.
Qed.

Theorem render_valid : forall m s, msg_ok m = true -> render m = Some s -> engine_line s = true.
Proof. intros m s Hok Hs. unfold engine_line. rewrite (parse_render m s Hok Hs). reflexivity. Qed.

(* a message that is msg_ok never trips the assert! of id_name / id_author *)
Theorem ok_no_panic : forall m, msg_ok m = true -> tx m <> Panic.
Proof.
  intros m H. destruct m; cbn [tx]; try discriminate; cbn [msg_ok] in H; unfold id_text_ok in H;
    apply andb_true_iff in H; destruct H as [_ H].
  - destruct name; [discriminate H|discriminate].
  - destruct author; [discriminate H|discriminate].
Qed.

(* what the session checks read off a parsed line *)
Lemma depth_skip : forall (A : Type) (f : A -> info_item) (o : option A) l,
  (forall a, match f a with IDepth _ => False | _ => True end) -> info_depth (oi f o ++ l) = info_depth l.
Proof. intros A f o l H. destruct o as [a|]; [|reflexivity]. cbn [oi app info_depth]. specialize (H a). destruct (f a); tauto. Qed.
Lemma nodes_skip : forall (A : Type) (f : A -> info_item) (o : option A) l,
  (forall a, match f a with INodes _ => False | _ => True end) -> info_nodes (oi f o ++ l) = info_nodes l.
Proof. intros A f o l H. destruct o as [a|]; [|reflexivity]. cbn [oi app info_nodes]. specialize (H a). destruct (f a); tauto. Qed.
Lemma time_skip : forall (A : Type) (f : A -> info_item) (o : option A) l,
  (forall a, match f a with ITime _ => False | _ => True end) -> info_time (oi f o ++ l) = info_time l.
Proof. intros A f o l H. destruct o as [a|]; [|reflexivity]. cbn [oi app info_time]. specialize (H a). destruct (f a); tauto. Qed.
Lemma pv_skip : forall (A : Type) (f : A -> info_item) (o : option A) l,
  (forall a, match f a with IPv _ => False | _ => True end) -> info_pv (oi f o ++ l) = info_pv l.
Proof. intros A f o l H. destruct o as [a|]; [|reflexivity]. cbn [oi app info_pv]. specialize (H a). destruct (f a); tauto. Qed.
Lemma score_skip : forall (A : Type) (f : A -> info_item) (o : option A) l,
  (forall a, match f a with IScore _ => False | _ => True end) -> info_score (oi f o ++ l) = info_score l.
Proof. intros A f o l H. destruct o as [a|]; [|reflexivity]. cbn [oi app info_score]. specialize (H a). destruct (f a); tauto. Qed.

Theorem info_readback : forall i s, info_ok i = true -> render (Info i) = Some s ->
  exists items, parse_engine_line s = Some (OInfo items) /\
    info_depth items = i_depth i /\ info_nodes items = i_nodes i /\ info_time items = i_time i /\
    info_pv items = option_map (map show_move) (i_principal_variation i) /\
    info_score items = option_map abstract_score (i_score i).
Proof.
  intros i s Hok Hs. exists (abstract_info i). split; [exact (parse_render (Info i) s Hok Hs)|].
  unfold abstract_info. rewrite <- (app_nil_r (oi IString (i_string i))). repeat split.
  - destruct (i_depth i); [reflexivity|]. cbn [oi app]. repeat rewrite depth_skip by (intro; exact I). reflexivity.
  - repeat rewrite nodes_skip by (intro; exact I).
    destruct (i_nodes i); [reflexivity|]. cbn [oi app]. repeat rewrite nodes_skip by (intro; exact I). reflexivity.
  - repeat rewrite time_skip by (intro; exact I).
    destruct (i_time i); [reflexivity|]. cbn [oi app]. repeat rewrite time_skip by (intro; exact I). reflexivity.
  - repeat rewrite pv_skip by (intro; exact I).
    destruct (i_principal_variation i); [reflexivity|]. cbn [oi app]. repeat rewrite pv_skip by (intro; exact I). reflexivity.
  - repeat rewrite score_skip by (intro; exact I).
    destruct (i_score i); [reflexivity|]. cbn [oi app]. repeat rewrite score_skip by (intro; exact I). reflexivity.
Qed.

(* ------------------------------------------------------------------ what the engine sends *)
(* The calls made by engine_core (engine.rs `accept`, search.rs `go` / `best_move` / `search_negamax`):
   hypotheses = facts about the search that are established elsewhere (hash_full is a permill value, a kept
   principal variation is a non-empty list of board moves, the debug text is one line). *)
Inductive engine_emits : tx_msg -> Prop :=
| EE_id_name : engine_emits (IdName (lit "Inkayaku"))
| EE_id_author : engine_emits (IdAuthor (lit "Marvin Kuhnke (see https://github.com/marvk/rust-chess)"))
| EE_uci_ok : engine_emits UciOk
| EE_ready_ok : engine_emits ReadyOk
| EE_registration_checking : engine_emits (Registration CHECKING)
| EE_registration_ok : engine_emits (Registration OK)
| EE_best_move : forall b p, opt_ok mv_ok b = true -> opt_ok mv_ok p = true -> engine_emits (BestMove b p)
| EE_iteration : forall depth time nodes pv sc hash_full nps dbg,
    hash_full <= 1000 -> opt_ok mvs_ok pv = true -> opt_ok single_line dbg = true ->
    engine_emits (Info (engine_iteration_info depth time nodes pv sc hash_full nps dbg))
| EE_periodic : forall time nodes hash_full nps,
    hash_full <= 1000 -> engine_emits (Info (engine_periodic_info time nodes hash_full nps))
| EE_debug : forall s, engine_emits (Debug s).

Theorem engine_infos_ok :
  (forall depth time nodes pv sc hash_full nps dbg,
     hash_full <= 1000 -> opt_ok mvs_ok pv = true -> opt_ok single_line dbg = true ->
     msg_ok (Info (engine_iteration_info depth time nodes pv sc hash_full nps dbg)) = true) /\
  (forall time nodes hash_full nps,
     hash_full <= 1000 -> msg_ok (Info (engine_periodic_info time nodes hash_full nps)) = true).
Proof.
  split.
  - intros depth time nodes pv sc hf nps dbg Hh Hpv Hd. apply N.leb_le in Hh.
    cbn [msg_ok]. unfold info_ok, engine_iteration_info, has_field.
    cbn [i_depth i_selective_depth i_time i_nodes i_principal_variation i_multi_pv i_score i_current_move
         i_current_move_number i_hash_full i_nps i_table_hits i_shredder_table_hits i_cpu_load i_string i_refutation
         i_current_line is_some opt_ok orb andb].
    rewrite Hpv, Hh, Hd. reflexivity.
  - intros time nodes hf nps Hh. apply N.leb_le in Hh.
    cbn [msg_ok]. unfold info_ok, engine_periodic_info, has_field.
    cbn [i_depth i_selective_depth i_time i_nodes i_principal_variation i_multi_pv i_score i_current_move
         i_current_move_number i_hash_full i_nps i_table_hits i_shredder_table_hits i_cpu_load i_string i_refutation
         i_current_line is_some opt_ok orb andb].
    rewrite Hh. reflexivity.
Qed.

Theorem engine_emits_ok : forall m, engine_emits m -> msg_ok m = true.
Proof.
  intros m H. destruct H; try (vm_compute; reflexivity).
  - cbn [msg_ok]. rewrite H, H0. reflexivity.
  - apply (proj1 engine_infos_ok); assumption.
  - apply (proj2 engine_infos_ok); assumption.
Qed.

Theorem engine_output_valid : forall m s, engine_emits m -> render m = Some s -> engine_line s = true.
Proof. intros m s H Hs. apply (render_valid m s (engine_emits_ok m H) Hs). Qed.
